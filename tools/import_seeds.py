"""Copy confirmed seeded changes (evaluated by tools/seed_eval.py) into /verif/seeded/<id>/ with a meta.json."""
import json
import pathlib
import re
import shutil
import subprocess
import sys

RES = pathlib.Path(sys.argv[1] if len(sys.argv) > 1 else "/tmp/seed_results")
OUT = pathlib.Path(__file__).resolve().parent.parent / "seeded"
head = subprocess.run(["git", "-C", "/repo", "log", "--format=%h %s", "-1"], capture_output=True, text=True).stdout.strip()
n = 0
for f in sorted(RES.glob("*.json")):
    d = json.loads(f.read_text())
    seed = pathlib.Path(d["seed"])
    m = re.search(r"seed([2345]?)_(C\d+)_out/(\d)(r?)$", str(seed))
    if not m:
        continue
    pid, k, rebased = m.group(2), m.group(3), bool(m.group(4))
    if m.group(1):
        k = str(int(k) + 3 * (int(m.group(1)) - 1))          # second round: ids Cxx-4 .. Cxx-6, third: Cxx-7 .. Cxx-9
    ok = d.get("demo_clean_rc") == 0 and d.get("demo_patched_rc") not in (0, None) and d.get("suite_baseline") is True and d.get("apply_rc") == 0
    if not ok:
        print("NOT CONFIRMED", seed, d.get("error"))
        continue
    sid = f"{pid}-{k}"
    dst = OUT / sid
    dst.mkdir(parents=True, exist_ok=True)
    for name in ("patch.diff", "demo.py", "notes.md"):
        if (seed / name).exists():
            shutil.copy(seed / name, dst / name)
    notes = (seed / "notes.md").read_text() if (seed / "notes.md").exists() else ""
    needs = ""
    mm = re.search(r"(?is)(needs|trigger|what it needs|to manifest)[^\n]*\n?(.{0,700})", notes)
    if mm:
        needs = (mm.group(0)[:700]).strip()
    meta = {
        "id": sid,
        "breaks_property": pid,
        "origin": "independent sub-agent given only the property text and a scratch worktree" + ("; patch rebased by hand onto the repaired tree (it touched lines changed by a fix: commit)" if rebased else ""),
        "needs_to_manifest": needs or "see notes.md",
        "applies_to": head,
        "confirmed": {
            "ran": [
                "git worktree add <scratch> HEAD (outside /repo and /verif)",
                "cd <scratch> && PYTHONPATH=<scratch> /venv/bin/python demo.py   # unchanged tree: exit 0",
                "git apply patch.diff && PYTHONPATH=<scratch> /venv/bin/python demo.py   # exit != 0",
                "/venv/bin/python -m pytest -q -p no:cacheprovider --timeout=900 --continue-on-collection-errors   # 32 failed, 875 passed (= baseline)",
                "VERIF_REPO=<scratch> bin/check <every property> --tier quick",
            ],
            "demo_clean_rc": d.get("demo_clean_rc"),
            "demo_patched_rc": d.get("demo_patched_rc"),
            "demo_patched_first_line": d.get("demo_patched_out", ""),
            "suite_with_patch": d.get("suite"),
        },
        "detected_by": d.get("fired", []),
        "detection_detail": {p: v[:2] for p, v in (d.get("detail") or {}).items() if p in d.get("fired", [])},
    }
    (dst / "meta.json").write_text(json.dumps(meta, indent=1))
    n += 1
print("imported", n)
