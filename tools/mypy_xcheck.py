"""Cross-check of the engine's call resolution against mypy's type inference (both static; nothing is executed).

The engine (/verif/sa) resolves method calls with its own light-weight type facts (annotations, constructor calls, attribute
types).  The repository's own environment ships mypy; this tool type-checks markdown_it/ with mypy as a library
(export_types=True), takes for every `recv.method(...)` call the class mypy infers for `recv`, finds the class that defines
`method` along that class's MRO, and compares it with the callee(s) the engine's call graph resolved for the same call
(matched by file, line, column).  It reports how many sites both resolved, how many agree, and every disagreement.

usage: /venv/bin/python tools/mypy_xcheck.py [--json out.json]     (VERIF_REPO selects the tree, default /repo)
exit 0: no disagreement;  1: disagreements;  2: mypy not importable / build failed.
"""
from __future__ import annotations

import json
import os
import pathlib
import sys

VERIF = pathlib.Path(__file__).resolve().parent.parent
REPO = os.environ.get("VERIF_REPO", "/repo")


def mypy_sites() -> dict[tuple[str, int, int, str], str]:
    """(file rel to markdown_it, line, col, method) -> 'Class' that defines the method, according to mypy."""
    from mypy import build
    from mypy.find_sources import create_source_list
    from mypy.nodes import CallExpr, MemberExpr, MypyFile, Node, TypeInfo
    from mypy.options import Options
    from mypy.types import Instance, get_proper_type

    os.chdir(REPO)
    opts = Options()
    opts.preserve_asts = True
    opts.export_types = True
    opts.incremental = False
    opts.cache_dir = os.devnull
    opts.ignore_missing_imports = True
    opts.follow_imports = "silent"
    res = build.build(create_source_list(["markdown_it"], opts), opts)
    out: dict[tuple[str, int, int, str], str] = {}
    seen: set[int] = set()

    def walk(n: object, rel: str) -> None:
        if id(n) in seen:
            return
        seen.add(id(n))
        if isinstance(n, CallExpr) and isinstance(n.callee, MemberExpr):
            t = res.types.get(n.callee.expr)
            if t is not None:
                t = get_proper_type(t)
                if isinstance(t, Instance):
                    ti: TypeInfo = t.type
                    for base in ti.mro:
                        if n.callee.name in base.names:
                            out[(rel, n.line, n.column, n.callee.name)] = base.name
                            break
        for name in dir(type(n)):
            if name.startswith("_") or name in ("info", "type", "analyzed", "node", "unanalyzed_type", "type_annotation", "defn",
                                                "mro", "partial_fallback", "fallback"):
                continue
            try:
                v = getattr(n, name)
            except Exception:          # noqa: BLE001
                continue
            if isinstance(v, Node):
                walk(v, rel)
            elif isinstance(v, (list, tuple)):
                for x in v:
                    if isinstance(x, Node):
                        walk(x, rel)
                    elif isinstance(x, (list, tuple)):
                        for y in x:
                            if isinstance(y, Node):
                                walk(y, rel)
    for mod, st in res.graph.items():
        tree: MypyFile | None = st.tree
        if tree is None or not mod.startswith("markdown_it"):
            continue
        path = pathlib.Path(st.xpath).resolve()
        try:
            rel = path.relative_to(pathlib.Path(REPO, "markdown_it").resolve()).as_posix()
        except ValueError:
            continue
        walk(tree, rel)
    return out


def engine_sites() -> dict[tuple[str, int, int, str], set[str]]:
    sys.path.insert(0, str(VERIF))
    import ast
    from sa.ctx import Ctx
    c = Ctx()
    out: dict[tuple[str, int, int, str], set[str]] = {}
    for f, sites in c.cg.sites.items():
        for cs in sites:
            if cs.kind != "method" or not cs.callees or not isinstance(cs.node.func, ast.Attribute):
                continue
            key = (f.module.rel, cs.node.lineno, cs.node.col_offset, cs.node.func.attr)
            out[key] = {g.cls or "" for g in cs.callees}
    return out


def main() -> int:
    try:
        cwd = os.getcwd()
        ms = mypy_sites()
        os.chdir(cwd)
    except Exception as e:          # noqa: BLE001
        print(f"XCHECK-ERROR mypy build failed: {type(e).__name__}: {e}")
        return 2
    es = engine_sites()
    both = sorted(set(ms) & set(es))
    agree = [k for k in both if ms[k] in es[k]]
    dis = [k for k in both if ms[k] not in es[k]]
    rep = {
        "mypy_method_calls_with_instance_receiver": len(ms),
        "engine_resolved_method_calls": len(es),
        "compared": len(both),
        "agree": len(agree),
        "disagree": [{"site": f"markdown_it/{k[0]}:{k[1]}:{k[2]}", "method": k[3], "mypy": ms[k], "engine": sorted(es[k])} for k in dis],
        "engine_only": len(set(es) - set(ms)),
        "mypy_only_repo_classes": 0,
    }
    print(f"XCHECK compared={len(both)} agree={len(agree)} disagree={len(dis)} engine_only={rep['engine_only']} "
          f"(mypy: {len(ms)} instance-method calls, engine: {len(es)} resolved method calls)")
    for d in rep["disagree"]:
        print("  DISAGREE", d)
    if "--json" in sys.argv:
        pathlib.Path(sys.argv[sys.argv.index("--json") + 1]).write_text(json.dumps(rep, indent=1))
    sys.stdout.flush()
    os._exit(1 if dis else 0)          # skip mypy's slow teardown


if __name__ == "__main__":
    sys.exit(main())
