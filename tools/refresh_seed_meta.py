"""Refresh `detected_by` / `detection_detail` in /verif/seeded/*/meta.json from a tools/seed_eval.py result directory
(seed_eval.py seeded/C* --out <dir>), and print the markdown table used in DESIGN.md (section 11)."""
import json
import pathlib
import re
import sys

RES = pathlib.Path(sys.argv[1] if len(sys.argv) > 1 else "/tmp/seed_results_all")
SEEDED = pathlib.Path(__file__).resolve().parent.parent / "seeded"
rows = []
for f in sorted(RES.glob("*.json")):
    d = json.loads(f.read_text())
    sid = pathlib.Path(d["seed"]).name
    mp = SEEDED / sid / "meta.json"
    if not mp.exists() or not d.get("ok"):
        continue
    meta = json.loads(mp.read_text())
    meta["detected_by"] = d.get("fired", [])
    meta["detection_detail"] = {p: v[:2] for p, v in (d.get("detail") or {}).items() if p in d.get("fired", [])}
    mp.write_text(json.dumps(meta, indent=1))
    rules = []
    for p in meta["detected_by"]:
        for l in meta["detection_detail"].get(p, []):
            m = re.search(r"\[([A-Z0-9]+)\]", l)
            if m and f"{p}:{m.group(1)}" not in rules:
                rules.append(f"{p}:{m.group(1)}")
    notes = (SEEDED / sid / "notes.md").read_text() if (SEEDED / sid / "notes.md").exists() else ""
    title = ""
    for line in notes.splitlines():
        t = line.strip("# *").strip()
        if len(t) > 15:
            title = t
            break
    rows.append((sid, title[:110].replace("|", "/"), ", ".join(rules) or "**not detected**"))
print("| seed | change (first line of its notes.md) | fires |")
print("|------|--------------------------------------|-------|")
for r in rows:
    print(f"| {r[0]} | {r[1]} | {r[2]} |")
