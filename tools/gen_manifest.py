"""Regenerate /verif/MANIFEST.json from the property table (sa/props.py) and the not-applicable list."""
import json
import pathlib
import sys

ROOT = pathlib.Path(__file__).resolve().parent.parent
sys.path.insert(0, str(ROOT))
from sa.props import table, NOT_APPLICABLE, TECHNIQUE  # noqa: E402

BASELINE = "cd /repo && /venv/bin/python -m pytest -ra -q -p no:cacheprovider --timeout=900 --continue-on-collection-errors"

props = table()
checks = []
for pid in sorted(props):
    p = props[pid]
    checks.append({
        "property_id": pid,
        "quick_cmd": f"bin/check {pid} --tier quick",
        "thorough_cmd": f"bin/check {pid} --tier thorough",
        "evidence_file": f"/verif/evidence/{pid}.json",
        "replay_cmd_template": f"bin/check {pid} --replay {{path}}",
        "engine": "sa",
        "level_claimed": {
            "category": "other",
            "text": "Static analysis of the current source tree (nothing is executed): every obligation of the named rule "
                    "families is enumerated and discharged on every path of the program, so the verdict quantifies over "
                    "program paths rather than sampled inputs. It decides this structural clause, which is a necessary "
                    "condition of the behavioural property, and not the behaviour itself: " + p.clause,
            "design_ref": f"DESIGN.md section 4 / {pid}",
        },
        "level_note": "Not decided: " + (p.not_decided or "-") + ". Trusted base: CPython ast; the engine /verif/sa (validated "
                      "both ways by bin/selftest); third-party mdurl/linkify_it/re assumed pure and total; plugins and "
                      "monkey-patching out of scope. " + " ".join(p.assumptions),
        "technique": TECHNIQUE.get(pid, "custom ast-based static analysis"),
    })
manifest = {
    "version": 1,
    "setup_cmd": "bin/check --self",
    "hooks": {
        "guard": "MARKDOWN_IT_PY_VERIF",
        "enable": "no hooks: static analysis reads the source tree; nothing in /repo is instrumented (guard unused)",
        "baseline_off_cmd": BASELINE,
        "source_commits": [],
        "add_only": True,
    },
    "engines": [{"name": "sa", "path": "/verif/sa", "serves_properties": sorted(props),
                 "kind_free_text": "repository-specific static analyser on Python's ast: CFG with exceptional edges and "
                                   "finally routing, zone/predicate dataflow, value numbering, typestate, effect "
                                   "classification, registry-aware call graph"}],
    "checks": checks,
    "notes": "Exit codes: 0 held, 1 VIOLATION, 2 ANALYSIS-ERROR (the analysis itself could not run: vanished anchor, "
             "instance floor not met, internal error). Known findings: /verif/known_findings.json. "
             "Self-test of the checker (mutants that must fire / rewrites that must stay silent): bin/selftest.",
    "not_applicable": [{"property_id": k, "reason": v} for k, v in sorted(NOT_APPLICABLE.items()) if k not in props],
}
(ROOT / "MANIFEST.json").write_text(json.dumps(manifest, indent=1) + "\n")
print("MANIFEST.json:", len(checks), "checks,", len(manifest["not_applicable"]), "not applicable")
