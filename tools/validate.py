"""Validate MANIFEST.json and every evidence file against the harness schemas (run with python3-vt, which has jsonschema)."""
import glob
import json
import sys

import jsonschema

m = json.load(open('/verif/MANIFEST.json'))
jsonschema.validate(m, json.load(open('/root/.vp/MANIFEST.schema.json')))
es = json.load(open('/root/.vp/EVIDENCE.schema.json'))
bad = 0
for c in m['checks']:
    try:
        jsonschema.validate(json.load(open(c['evidence_file'])), es)
    except Exception as e:          # noqa: BLE001
        bad += 1
        print('BAD', c['evidence_file'], str(e)[:200])
ids = {c['property_id'] for c in m['checks']} | {n['property_id'] for n in m.get('not_applicable', [])}
want = {json.loads(l)['id'] for l in open('/verif/properties.jsonl')}
print('manifest ok;', len(m['checks']), 'checks;', 'missing ids:', sorted(want - ids), 'bad evidence:', bad)
sys.exit(1 if bad or want - ids else 0)
