#!/venv/bin/python
"""Development-time validation of sa/inline.py (NOT part of any registered check, decides no property).

The normaliser claims to be behaviour-preserving.  For the clean tree and for every stored refactoring / seed patch this
tool normalises *every* module of the package (prefix ""), writes the result into a scratch worktree and runs the
project's own test suite on it: a difference from the un-normalised result means a rewriting step's side condition is
wrong.  With --equiv the refactoring's own differential harness (equiv.py, several thousand inputs) is also run before and after the
normalisation and the two transcripts must be identical.
Usage: tools/inline_selftest.py [--equiv] [patch dirs...]  (default: all of refactors/ and seeded/)."""
from __future__ import annotations

import pathlib
import subprocess
import sys
import tempfile
import shutil
from concurrent.futures import ThreadPoolExecutor

HERE = pathlib.Path(__file__).resolve().parent.parent
sys.path.insert(0, str(HERE))
from sa.core import Project           # noqa: E402
from sa.ctx import Ctx                # noqa: E402


def suite(wt: pathlib.Path) -> tuple[int, str]:
    p = subprocess.run(["/venv/bin/python", "-m", "pytest", "-q", "-p", "no:cacheprovider", "-x", "--deselect", "tests/test_linkify.py",
                        "-k", "not linkify", "tests"], cwd=wt, capture_output=True, text=True)
    tail = p.stdout.strip().splitlines()[-1] if p.stdout.strip() else p.stderr[-200:]
    return p.returncode, tail


def one(d: pathlib.Path | None) -> str:
    tmp = pathlib.Path(tempfile.mkdtemp(prefix="inl_", dir="/tmp"))
    wt = tmp / "wt"
    try:
        subprocess.run(["git", "-C", "/repo", "worktree", "add", "--detach", "-q", str(wt)], check=True, capture_output=True)
        if d is not None:
            subprocess.run(["git", "-C", str(wt), "apply", str(d / "patch.diff")], check=True, capture_output=True)
        c = Ctx(Project.load(wt))
        n = c.normalised("")
        if n is c:
            return f"{d.name if d else 'clean'}: nothing to normalise"
        rc0, t0 = suite(wt)
        eq = ""
        harness = d / "equiv.py" if d is not None and (d / "equiv.py").exists() and EQUIV else None
        if harness is not None:
            for extra in d.glob("*.py"):
                shutil.copy(extra, tmp / extra.name)
            subprocess.run(["/venv/bin/python", str(tmp / "equiv.py"), str(tmp / "a.txt")], cwd=wt, env={"PYTHONPATH": str(wt), "PATH": "/usr/bin:/bin"},
                           capture_output=True, timeout=600)
        k = 0
        for rel, m in n.p.modules.items():
            if m.norm_log:
                (wt / "markdown_it" / rel).write_text(m.source)
                k += 1
        rc1, t1 = suite(wt)
        if harness is not None:
            subprocess.run(["/venv/bin/python", str(tmp / "equiv.py"), str(tmp / "b.txt")], cwd=wt, env={"PYTHONPATH": str(wt), "PATH": "/usr/bin:/bin"},
                           capture_output=True, timeout=600)
            a, b = (tmp / "a.txt"), (tmp / "b.txt")
            same = a.exists() and b.exists() and a.read_bytes() == b.read_bytes()
            eq = f" equiv transcript ({len(a.read_bytes().splitlines()) if a.exists() else 0} cases) {'identical' if same else 'DIFFERENT <<<<<<'}"
        ok = (rc0 == rc1) and t0.split(" in ")[0] == t1.split(" in ")[0]
        return f"{d.name if d else 'clean'}: {k} modules normalised; before [{t0}] after [{t1}] {'SAME' if ok else 'DIFFERENT <<<<<<'}{eq}"
    except Exception as e:          # noqa: BLE001
        return f"{d.name if d else 'clean'}: ERROR {type(e).__name__}: {e}"
    finally:
        subprocess.run(["git", "-C", "/repo", "worktree", "remove", "--force", str(wt)], capture_output=True)
        shutil.rmtree(tmp, ignore_errors=True)


EQUIV = "--equiv" in sys.argv


def main() -> None:
    dirs: list[pathlib.Path | None] = [pathlib.Path(a).resolve() for a in sys.argv[1:] if not a.startswith("--")]
    if not dirs:
        dirs = [None] + sorted(p for p in (HERE / "refactors").iterdir() if (p / "patch.diff").exists()) \
            + sorted(p for p in (HERE / "seeded").iterdir() if (p / "patch.diff").exists())
    with ThreadPoolExecutor(8) as ex:
        for line in ex.map(one, dirs):
            print(line, flush=True)


if __name__ == "__main__":
    main()
