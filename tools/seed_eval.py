"""Evaluate seeded changes against the checks.

usage: seed_eval.py <dir-with patch.diff+demo.py> [...]  [--props C01,C02,...] [--out /tmp/seed_results]

For each seed directory: a scratch git worktree of /repo's HEAD is created under a temp dir (outside /repo and /verif),
then (1) the demo is run on the clean tree (must exit 0), (2) the patch is applied (git apply, falling back to --3way),
(3) the demo is run again (must exit non-zero), (4) the pinned test suite is run (must give the baseline counts),
(5) every registered check (or --props) is run with VERIF_REPO pointing at the scratch tree and VERIF_EVIDENCE_DIR at a
temp dir, and the properties that print VIOLATION are recorded.  The worktree is removed afterwards.
"""
from __future__ import annotations

import argparse
import concurrent.futures as cf
import json
import os
import pathlib
import re
import shutil
import subprocess
import sys
import tempfile

VERIF = pathlib.Path(__file__).resolve().parent.parent
PY = "/venv/bin/python"


def sh(cmd, cwd=None, env=None, timeout=900):
    p = subprocess.run(cmd, cwd=cwd, env=env, capture_output=True, text=True, timeout=timeout, shell=isinstance(cmd, str))
    return p.returncode, p.stdout + p.stderr


def evaluate(seed: str, props: list[str], skip_suite: bool = False, refactor: bool = False) -> dict:
    seed_p = pathlib.Path(seed).resolve()
    res: dict = {"seed": str(seed_p), "ok": False}
    tmp = tempfile.mkdtemp(prefix="seval_")
    wt = os.path.join(tmp, "wt")
    try:
        rc, out = sh(["git", "-C", "/repo", "worktree", "add", "-q", "--detach", wt, "HEAD"])
        if rc != 0:
            res["error"] = "worktree: " + out[-300:]
            return res
        env = dict(os.environ, PYTHONPATH=wt, PYTHONDONTWRITEBYTECODE="1")
        equiv = seed_p / "equiv.py"
        if refactor and equiv.exists():
            rc, out = sh([PY, str(equiv), os.path.join(tmp, "eq_clean.txt")], cwd=wt, env=env, timeout=1500)
            res["equiv_clean_rc"] = rc
        demo = seed_p / "demo.py"
        if demo.exists():
            rc, out = sh([PY, str(demo)], cwd=wt, env=env, timeout=600)
            res["demo_clean_rc"] = rc
            if rc != 0:
                res["demo_clean_out"] = out[-400:]
        rc, out = sh(["git", "apply", str(seed_p / "patch.diff")], cwd=wt)
        if rc != 0:
            rc, out = sh(["git", "apply", "--3way", str(seed_p / "patch.diff")], cwd=wt)
        res["apply_rc"] = rc
        if rc != 0:
            res["error"] = "patch does not apply: " + out[-300:]
            return res
        rc, out = sh([PY, "-m", "compileall", "-q", "markdown_it"], cwd=wt, env=env)
        res["compile_rc"] = rc
        if refactor and equiv.exists():
            rc, out = sh([PY, str(equiv), os.path.join(tmp, "eq_patched.txt")], cwd=wt, env=env, timeout=1500)
            res["equiv_patched_rc"] = rc
            try:
                a_ = open(os.path.join(tmp, "eq_clean.txt"), "rb").read()
                b_ = open(os.path.join(tmp, "eq_patched.txt"), "rb").read()
                res["equiv_identical"] = (a_ == b_ and len(a_) > 0)
                res["equiv_bytes"] = len(a_)
            except OSError as e:
                res["equiv_identical"] = None
                res["equiv_error"] = str(e)
        if demo.exists():
            rc, out = sh([PY, str(demo)], cwd=wt, env=env, timeout=600)
            res["demo_patched_rc"] = rc
            res["demo_patched_out"] = out.strip().splitlines()[0][:300] if out.strip() else ""
        if not skip_suite:
            rc, out = sh([PY, "-m", "pytest", "-q", "-p", "no:cacheprovider", "--timeout=900", "--continue-on-collection-errors"],
                         cwd=wt, env=env, timeout=900)
            last = out.strip().splitlines()[-1] if out.strip() else ""
            res["suite"] = last
            res["suite_baseline"] = bool(re.search(r"32 failed, 875 passed", last))
        fired, errors, detail = [], [], {}
        evd = os.path.join(tmp, "ev")
        for pid in props:
            cenv = dict(os.environ, VERIF_REPO=wt, VERIF_EVIDENCE_DIR=evd)
            rc, out = sh([str(VERIF / "bin" / "check"), pid, "--tier", "quick"], cwd=str(VERIF), env=cenv, timeout=600)
            if rc == 1:
                fired.append(pid)
                detail[pid] = [l.strip()[:400] for l in out.splitlines() if l.startswith("  detail:")][:6]
            elif rc != 0:
                errors.append(pid)
                detail[pid] = [l.strip()[:300] for l in out.splitlines() if "ANALYSIS-ERROR" in l][:3]
        res["fired"] = fired
        res["analysis_errors"] = errors
        res["detail"] = detail
        res["ok"] = True
        return res
    except Exception as e:          # noqa: BLE001
        res["error"] = f"{type(e).__name__}: {e}"
        return res
    finally:
        sh(["git", "-C", "/repo", "worktree", "remove", "--force", wt])
        shutil.rmtree(tmp, ignore_errors=True)


def main() -> int:
    ap = argparse.ArgumentParser()
    ap.add_argument("seeds", nargs="+")
    ap.add_argument("--props", default="")
    ap.add_argument("--out", default="/tmp/seed_results")
    ap.add_argument("--jobs", type=int, default=8)
    ap.add_argument("--skip-suite", action="store_true")
    ap.add_argument("--refactor", action="store_true", help="the directories hold behaviour-preserving refactorings (patch.diff + equiv.py): every check must stay silent")
    a = ap.parse_args()
    sys.path.insert(0, str(VERIF))
    from sa.props import table
    props = [p for p in a.props.split(",") if p] or sorted(table())
    os.makedirs(a.out, exist_ok=True)
    with cf.ThreadPoolExecutor(a.jobs) as ex:
        futs = {ex.submit(evaluate, s, props, a.skip_suite, a.refactor): s for s in a.seeds}
        for fu in cf.as_completed(futs):
            r = fu.result()
            name = re.sub(r"[^A-Za-z0-9]+", "_", r["seed"]).strip("_")
            pathlib.Path(a.out, name + ".json").write_text(json.dumps(r, indent=1))
            if a.refactor:
                print(f"{r['seed']}: equiv={r.get('equiv_identical')} suite={r.get('suite_baseline')} "
                      f"fired={r.get('fired')} errors={r.get('analysis_errors')} {r.get('error', '')}")
            else:
                print(f"{r['seed']}: clean={r.get('demo_clean_rc')} patched={r.get('demo_patched_rc')} suite={r.get('suite_baseline')} "
                      f"fired={r.get('fired')} errors={r.get('analysis_errors')} {r.get('error', '')}")
    return 0


if __name__ == "__main__":
    sys.exit(main())
