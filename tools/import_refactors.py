"""Copy confirmed behaviour-preserving refactorings (evaluated by tools/seed_eval.py --refactor) into /verif/refactors/<id>/.
Round 2 directories /tmp/ref2_Cxx_out/k become Cxx-r(k+4), round 3 (/tmp/ref3_...) Cxx-r(k+8)."""
import json
import pathlib
import re
import shutil
import sys

RES = pathlib.Path(sys.argv[1] if len(sys.argv) > 1 else "/tmp/ref2_results")
OUT = pathlib.Path(__file__).resolve().parent.parent / "refactors"
n = 0
for f in sorted(RES.glob("*.json")):
    d = json.loads(f.read_text())
    seed = pathlib.Path(d["seed"])
    m = re.search(r"ref([23456]?)_(C\d+)_out/(\d)$", str(seed))
    if not m:
        continue
    k = int(m.group(3)) + (4 * (int(m.group(1)) - 1) if m.group(1) else 0)
    if not (d.get("equiv_identical") is True and d.get("suite_baseline") is True and d.get("apply_rc") == 0 and d.get("compile_rc") == 0):
        print("NOT CONFIRMED", seed, d.get("equiv_identical"), d.get("suite_baseline"))
        continue
    dst = OUT / f"{m.group(2)}-r{k}"
    dst.mkdir(parents=True, exist_ok=True)
    for name in ("patch.diff", "equiv.py", "notes.md"):
        if (seed / name).exists():
            shutil.copy(seed / name, dst / name)
    # helper modules some harnesses import
    for extra in seed.parent.glob("*.py"):
        shutil.copy(extra, dst / extra.name)
    n += 1
print("imported", n)
