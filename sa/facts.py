"""The `facts` dataflow instance: what *must* hold at a program point.

State = a zone (difference-bound constraints  t1 - t2 <= k  over canonical expression terms, plus
disequalities) together with a set of opaque predicates with polarity (``silent`` is false,
``state.md.validateLink(href)`` is true, ``token.type == 'text'`` is true ...).
"""
from __future__ import annotations

import ast
import re
from typing import Callable, Iterable

from .cfg import CFG, Node
from .core import U
from .dataflow import Problem, solve

INF = float("inf")
ZERO = "0"
IDENT = re.compile(r"[A-Za-z_][A-Za-z_0-9]*(?:\.[A-Za-z_][A-Za-z_0-9]*)*")
PURE_CALLS = {"len", "ord", "int", "abs"}


def stable(e: ast.AST) -> bool:
    """May the text of `e` be used as a term (same text => same value while nothing it mentions is written)?"""
    for n in ast.walk(e):
        if isinstance(n, ast.Call):
            if not (isinstance(n.func, ast.Name) and n.func.id in PURE_CALLS):
                return False
        elif isinstance(n, (ast.NamedExpr, ast.Await, ast.Yield, ast.YieldFrom, ast.Lambda, ast.ListComp, ast.SetComp,
                            ast.DictComp, ast.GeneratorExp, ast.IfExp, ast.BoolOp, ast.Compare)):
            return False
    return True


def lin(e: ast.AST) -> tuple[str | None, int] | None:
    """expr -> (term text or None for a pure constant, constant offset); None if not usable."""
    if isinstance(e, ast.Constant):
        if isinstance(e.value, int) and not isinstance(e.value, bool):
            return (None, e.value)
        return None
    if isinstance(e, ast.UnaryOp) and isinstance(e.op, ast.USub):
        l = lin(e.operand)
        if l is not None and l[0] is None:
            return (None, -l[1])
        return None
    if isinstance(e, ast.BinOp) and isinstance(e.op, (ast.Add, ast.Sub)):
        l, r = lin(e.left), lin(e.right)
        if l is not None and r is not None:
            if r[0] is None:
                return (l[0], l[1] + (r[1] if isinstance(e.op, ast.Add) else -r[1]))
            if l[0] is None and isinstance(e.op, ast.Add):
                return (r[0], r[1] + l[1])
        if stable(e):
            return (U(e), 0)
        return None
    if stable(e):
        return (U(e), 0)
    return None


_STRLIT = re.compile(r"""'(?:[^'\\]|\\.)*'|"(?:[^"\\]|\\.)*\"""")


def mentions(term: str, path: str) -> bool:
    """Does the canonical text `term` mention access path `path` (a name or a dotted path)?  String literals inside the
    term are not identifiers (`token.type == 'text'` does not mention a variable called text)."""
    if "'" in term or '"' in term:
        term = _STRLIT.sub("''", term)
    for m in IDENT.finditer(term):
        t = m.group(0)
        if t == path or t.startswith(path + "."):
            return True
    return False


def T(t: str | None) -> str:
    return ZERO if t is None else t


class Facts:
    __slots__ = ("d", "ne", "preds", "_closed")

    def __init__(self, d=None, ne=None, preds=None) -> None:
        self.d: dict[tuple[str, str], int] = dict(d) if d else {}
        self.ne: set[tuple[str, str, int]] = set(ne) if ne else set()
        self.preds: set[tuple[str, bool]] = set(preds) if preds else set()
        self._closed = False

    def copy(self) -> "Facts":
        f = Facts(self.d, self.ne, self.preds)
        f._closed = self._closed
        return f

    # ---------------------------------------------------------------- zone
    def add(self, a: str, b: str, k: int) -> None:
        if a == b:
            return
        if self.d.get((a, b), INF) > k:
            self.d[(a, b)] = k
            self._closed = False

    def add_eq(self, a: str, b: str, c: int) -> None:
        """a = b + c"""
        self.add(a, b, c)
        self.add(b, a, -c)

    def terms(self) -> set[str]:
        s: set[str] = set()
        for a, b in self.d:
            s.add(a)
            s.add(b)
        return s

    def close(self) -> None:
        if self._closed:
            return
        d = self.d
        while True:
            ts = list(self.terms())
            for m in ts:
                row = [(a, d[(a, m)]) for a in ts if (a, m) in d]
                col = [(b, d[(m, b)]) for b in ts if (m, b) in d]
                for a, am in row:
                    for b, mb in col:
                        if a != b and d.get((a, b), INF) > am + mb:
                            d[(a, b)] = am + mb
            changed = False
            for (a, b, c) in self.ne:            # a - b != c
                if d.get((a, b), INF) == c and d.get((b, a), INF) >= -c:
                    d[(a, b)] = c - 1
                    changed = True
                if d.get((b, a), INF) == -c and d.get((a, b), INF) >= c:
                    d[(b, a)] = -c - 1
                    changed = True
            if not changed:
                break
        self._closed = True

    def inconsistent(self) -> bool:
        self.close()
        for (a, b), k in self.d.items():
            if self.d.get((b, a), INF) + k < 0:
                return True
        for (t, pol) in self.preds:
            if (t, not pol) in self.preds:
                return True
        return False

    def entails(self, a: str, b: str, k: int) -> bool:
        """a - b <= k ?"""
        self.close()
        if a == b:
            return 0 <= k
        return self.d.get((a, b), INF) <= k

    def upper_bounds(self, a: str) -> list[tuple[str, int]]:
        self.close()
        return [(b, k) for (x, b), k in self.d.items() if x == a]

    def kill(self, path: str, keep_len: bool = False) -> None:
        """Forget everything that mentions `path`.  keep_len: the store replaces an element (or a field of an element) of the
        container at `path` - its length is unchanged, so the term len(path) survives."""
        ln = f"len({path})" if keep_len else None

        def m(t: str) -> bool:
            return t != ln and mentions(t, path)
        hit = any(m(a) or m(b) for (a, b) in self.d) or any(m(a) or m(b) for (a, b, _) in self.ne)
        if hit:
            self.close()
            self.d = {(a, b): k for (a, b), k in self.d.items() if not m(a) and not m(b)}
            self.ne = {(a, b, c) for (a, b, c) in self.ne if not m(a) and not m(b)}
        if self.preds:
            self.preds = {(t, p) for (t, p) in self.preds if not mentions(t, path)}

    def shift_range(self, name: str, lo: int, hi: int) -> None:
        """name += c for some lo <= c <= hi (`pos += 2 if escaped else 1`)"""
        if lo == hi:
            self.shift(name, lo)
            return
        self.close()
        nd = {}
        for (a, b), k in self.d.items():
            ma, mb = mentions(a, name), mentions(b, name)
            if a == name and not mb:
                nd[(a, b)] = k + hi
            elif b == name and not ma:
                nd[(a, b)] = k - lo
            elif ma or mb:
                continue
            else:
                nd[(a, b)] = k
        self.d = nd
        self.ne = {(a, b, cc) for (a, b, cc) in self.ne if not mentions(a, name) and not mentions(b, name)}
        self.preds = {(t, p) for (t, p) in self.preds if not mentions(t, name)}

    def shift(self, name: str, c: int) -> None:
        """name += c"""
        self.close()
        nd = {}
        for (a, b), k in self.d.items():
            ma, mb = mentions(a, name), mentions(b, name)
            if a == name and not mb:
                nd[(a, b)] = k + c
            elif b == name and not ma:
                nd[(a, b)] = k - c
            elif ma or mb:
                continue
            else:
                nd[(a, b)] = k
        self.d = nd
        nne = set()
        for (a, b, cc) in self.ne:
            ma, mb = mentions(a, name), mentions(b, name)
            if a == name and not mb:
                nne.add((a, b, cc + c))
            elif b == name and not ma:
                nne.add((a, b, cc - c))
            elif not ma and not mb:
                nne.add((a, b, cc))
        self.ne = nne
        self.preds = {(t, p) for (t, p) in self.preds if not mentions(t, name)}
        self._closed = False

    # ---------------------------------------------------------------- lattice
    def join(self, o: "Facts") -> "Facts":
        self.close()
        o.close()
        d = {}
        for key, k in self.d.items():
            ok = o.d.get(key)
            if ok is not None:
                d[key] = max(k, ok)
        # a disequality survives if the other side has it or entails it strictly
        ne = set()
        for (a, b, c) in self.ne | o.ne:
            def has(f: "Facts") -> bool:
                return (a, b, c) in f.ne or f.d.get((a, b), INF) < c or f.d.get((b, a), INF) < -c
            if has(self) and has(o):
                ne.add((a, b, c))
        f = Facts(d, ne, self.preds & o.preds)
        return f

    def widen(self, new: "Facts") -> "Facts":
        self.close()
        new.close()
        d = {k: v for k, v in new.d.items() if k in self.d and v <= self.d[k]}
        return Facts(d, new.ne & self.ne, new.preds & self.preds)

    def same(self, o: "Facts") -> bool:
        self.close()
        o.close()
        return self.d == o.d and self.ne == o.ne and self.preds == o.preds

    # ---------------------------------------------------------------- predicates
    def holds(self, text: str, polarity: bool = True) -> bool:
        return (text, polarity) in self.preds


# ------------------------------------------------------------------------------------------------ assume
_NEG = {ast.Lt: ast.GtE, ast.LtE: ast.Gt, ast.Gt: ast.LtE, ast.GtE: ast.Lt, ast.Eq: ast.NotEq, ast.NotEq: ast.Eq,
        ast.Is: ast.IsNot, ast.IsNot: ast.Is, ast.In: ast.NotIn, ast.NotIn: ast.In}


def norm_pred(e: ast.AST, pol: bool) -> tuple[str, bool]:
    """Canonical (text, polarity) of an atomic test: != / is not / not in are stored as the negation of ==/is/in."""
    if isinstance(e, ast.Compare) and len(e.ops) == 1 and isinstance(e.ops[0], (ast.NotEq, ast.IsNot, ast.NotIn)):
        pos = ast.Compare(left=e.left, ops=[_NEG[type(e.ops[0])]()], comparators=e.comparators)
        return (U(pos), not pol)
    return (U(e), pol)


def _add_cmp(z: Facts, left: ast.AST, op: ast.cmpop, right: ast.AST, pos: bool) -> None:
    if not pos:
        neg = _NEG.get(type(op))
        if neg is None:
            return
        op = neg()
    l, r = lin(left), lin(right)
    if l is None or r is None:
        return
    a, b = T(l[0]), T(r[0])
    ca, cb = l[1], r[1]
    if isinstance(op, ast.Lt):
        z.add(a, b, cb - ca - 1)
    elif isinstance(op, ast.LtE):
        z.add(a, b, cb - ca)
    elif isinstance(op, ast.Gt):
        z.add(b, a, ca - cb - 1)
    elif isinstance(op, ast.GtE):
        z.add(b, a, ca - cb)
    elif isinstance(op, ast.Eq):
        z.add(a, b, cb - ca)
        z.add(b, a, ca - cb)
    elif isinstance(op, ast.NotEq):
        if a != b:
            z.ne.add((a, b, cb - ca))
            z._closed = False


def _const_alts(e: ast.AST) -> list[int] | None:
    """The integer constants a (nested) conditional expression can evaluate to."""
    if isinstance(e, ast.IfExp):
        a, b = _const_alts(e.body), _const_alts(e.orelse)
        return None if a is None or b is None else a + b
    l = lin(e)
    if l is not None and l[0] is None:
        return [l[1]]
    return None


def _ifexp_alts(value: ast.AST, z: "Facts") -> list[ast.AST] | None:
    """`a + (1 if c else 0)`: the alternatives of the one conditional expression inside `value` - a single one when the facts
    decide the condition.  None if there is no (or more than one) conditional expression."""
    ifs = [n for n in ast.walk(value) if isinstance(n, ast.IfExp)]
    if len(ifs) != 1 or not _pred_ok(ifs[0].test):
        return None
    ie = ifs[0]
    import copy

    def pick(branch: ast.AST) -> ast.AST:
        class R(ast.NodeTransformer):
            def visit_IfExp(self, node: ast.IfExp) -> ast.AST:
                return copy.deepcopy(branch)
        return R().visit(copy.deepcopy(value))
    t, pol = norm_pred(ie.test, True)
    if z.holds(t, pol):
        return [pick(ie.body)]
    if z.holds(t, not pol):
        return [pick(ie.orelse)]
    return [pick(ie.body), pick(ie.orelse)]


def _int_like(e: ast.AST) -> bool:
    """Cheap syntactic filter: comparisons against string / None / bool constants carry no integer fact."""
    if isinstance(e, ast.Constant):
        return isinstance(e.value, int) and not isinstance(e.value, bool)
    return True


_DEFSEP = " :=: "


def assume(z: Facts, e: ast.AST, pos: bool) -> None:
    """Refine z with e being truthy (pos) / falsy (not pos)."""
    if isinstance(e, ast.UnaryOp) and isinstance(e.op, ast.Not):
        assume(z, e.operand, not pos)
        return
    if isinstance(e, ast.Name):
        # a boolean local whose defining expression is still valid (nothing it mentions was written since): assume that too
        pre = e.id + _DEFSEP
        for (t, pol) in list(z.preds):
            if pol and t.startswith(pre):
                try:
                    d = ast.parse(t[len(pre):], mode="eval").body
                except SyntaxError:
                    continue
                if not (isinstance(d, ast.Name) and d.id == e.id):
                    assume(z, d, pos)
    if isinstance(e, ast.BoolOp):
        if (isinstance(e.op, ast.And) and pos) or (isinstance(e.op, ast.Or) and not pos):
            for v in e.values:
                assume(z, v, pos)
        return
    if isinstance(e, ast.NamedExpr):
        assume(z, e.value, pos) if stable(e.value) else None
        if stable(e.target):
            z.preds.add((U(e.target), pos))
        return
    if isinstance(e, ast.Compare):
        if len(e.ops) == 1:
            if _int_like(e.left) and _int_like(e.comparators[0]):
                _add_cmp(z, e.left, e.ops[0], e.comparators[0], pos)
        elif pos:
            left = e.left
            for op, right in zip(e.ops, e.comparators):
                if _int_like(left) and _int_like(right):
                    _add_cmp(z, left, op, right, True)
                left = right
    if _pred_ok(e):
        z.preds.add(norm_pred(e, pos))


def _pure_call(c: ast.Call) -> bool:
    """Calls allowed inside a remembered flag definition: they are not re-evaluated, only their comparison operands are used."""
    return True


def _pred_ok(e: ast.AST) -> bool:
    for n in ast.walk(e):
        if isinstance(n, (ast.NamedExpr, ast.Await, ast.Yield, ast.YieldFrom, ast.Lambda)):
            return False
    return True


def expr_local(z: Facts, sub: ast.AST, root: ast.AST, parents: dict[ast.AST, ast.AST]) -> Facts:
    """Facts holding when `sub` is evaluated inside `root`, adding what enclosing and/or/if-expressions guarantee."""
    z = z.copy()
    c = sub
    while c is not root and c in parents:
        p = parents[c]
        if isinstance(p, ast.BoolOp) and c in p.values:
            idx = p.values.index(c)
            for v in p.values[:idx]:
                assume(z, v, isinstance(p.op, ast.And))
        elif isinstance(p, ast.IfExp):
            if c is p.body:
                assume(z, p.test, True)
            elif c is p.orelse:
                assume(z, p.test, False)
        elif isinstance(p, ast.comprehension):
            pass
        c = p
    return z


# ------------------------------------------------------------------------------------------------ transfer
def store_targets(s: ast.AST) -> list[ast.AST]:
    out: list[ast.AST] = []

    def rec(t: ast.AST) -> None:
        if isinstance(t, (ast.Tuple, ast.List)):
            for e in t.elts:
                rec(e)
        elif isinstance(t, ast.Starred):
            rec(t.value)
        else:
            out.append(t)
    if isinstance(s, ast.Assign):
        for t in s.targets:
            rec(t)
    elif isinstance(s, (ast.AugAssign, ast.AnnAssign)):
        rec(s.target)
    elif isinstance(s, ast.For):
        rec(s.target)
    elif isinstance(s, ast.Delete):
        for t in s.targets:
            rec(t)
    return out


def _is_element_store(t: ast.AST) -> bool:
    """`X[i] = v` or `X[i].field = v` (no slice): the container X keeps its length."""
    q = t
    while isinstance(q, ast.Attribute):
        q = q.value
    return isinstance(q, ast.Subscript) and not isinstance(q.slice, ast.Slice) and q is not t or \
        (isinstance(t, ast.Subscript) and not isinstance(t.slice, ast.Slice))


def kill_path_of_target(t: ast.AST) -> str | None:
    """Access path whose terms die when `t` is stored to: a name, a dotted attribute path, or - for a subscript
    store - the container's path."""
    if isinstance(t, ast.Subscript):
        return kill_path_of_target(t.value)
    if isinstance(t, (ast.Name, ast.Attribute)):
        txt = U(t)
        if IDENT.fullmatch(txt):
            return txt
        # attribute of a complex expression e.g. f().x : kill by base name if any
        if isinstance(t, ast.Attribute):
            return kill_path_of_target(t.value)
    if isinstance(t, ast.Call):
        return None
    return None


MUTATORS = {"append", "extend", "insert", "pop", "remove", "clear", "update", "setdefault", "sort", "reverse", "add",
            "discard", "popitem"}

CallKills = Callable[[ast.Call], Iterable[str]]


def default_call_kills(c: ast.Call) -> Iterable[str]:
    """Conservative fallback when no effect summaries are supplied: a call may write any attribute path below each
    name it receives (receiver root or argument)."""
    roots = set()
    f = c.func
    if isinstance(f, ast.Attribute):
        b = f.value
        while isinstance(b, (ast.Attribute, ast.Subscript, ast.Call)):
            b = b.value if not isinstance(b, ast.Call) else b.func
        if isinstance(b, ast.Name):
            roots.add(b.id)
    for a in list(c.args) + [k.value for k in c.keywords]:
        if isinstance(a, ast.Name):
            roots.add(a.id)
    return [r + ".*" for r in roots]


BoolSummary = Callable[[ast.Call, bool], Iterable[tuple[str, str, int]]]


class FactsProblem(Problem):
    def __init__(self, cfg: CFG, entry: Facts | None = None, call_kills: CallKills | None = None,
                 bool_summary: BoolSummary | None = None, call_posts=None, result_bounds=None) -> None:
        self.cfg = cfg
        self.entry = entry or Facts()
        self.call_kills = call_kills or default_call_kills
        self.bool_summary = bool_summary
        self.call_posts = call_posts          # call -> [(a, b, k)]: a - b <= k holds when the call has returned (verified contracts)
        self.result_bounds = result_bounds    # (call, facts before the call) -> [(b, k)]: the value returned is <= b + k

    def entry_state(self) -> Facts:
        return self.entry.copy()

    def join(self, a: Facts, b: Facts, at: Node) -> Facts:
        return a.join(b)

    def equal(self, a: Facts, b: Facts) -> bool:
        return a.same(b)

    def widen(self, old: Facts, new: Facts, at: Node) -> Facts:
        return old.widen(new)

    # ------------------------------------------------------------
    def _kill(self, z: Facts, path: str) -> None:
        if path.endswith(".*"):
            root = path[:-2]
            # everything strictly below root (root.x ...) but not root itself
            def below(t: str) -> bool:
                return any(m.group(0).startswith(root + ".") for m in IDENT.finditer(t))
            hit = any(below(a) or below(b) for (a, b) in z.d)
            if hit:
                z.close()
                z.d = {(a, b): k for (a, b), k in z.d.items() if not below(a) and not below(b)}
            z.ne = {(a, b, c) for (a, b, c) in z.ne if not below(a) and not below(b)}
            z.preds = {(t, p) for (t, p) in z.preds if not below(t)}
        else:
            z.kill(path)

    def apply_calls(self, z: Facts, root: ast.AST) -> None:
        for c in ast.walk(root):
            if isinstance(c, ast.Call):
                for path in self.call_kills(c):
                    self._kill(z, path)
                if self.call_posts is not None:
                    for (pa, pb, pk) in self.call_posts(c):
                        z.add(pa, pb, pk)
                f = c.func
                if isinstance(f, ast.Attribute) and f.attr in MUTATORS:
                    kp = kill_path_of_target(f.value)
                    if kp:
                        z.kill(kp)
            elif isinstance(c, ast.NamedExpr):
                kp = kill_path_of_target(c.target)
                if kp:
                    z.kill(kp)

    def transfer_stmt(self, z: Facts, s: ast.AST) -> None:
        if isinstance(s, (ast.FunctionDef, ast.AsyncFunctionDef, ast.ClassDef)):
            z.kill(s.name)
            return
        if isinstance(s, ast.Assert):
            return
        rb: list[tuple[str, int]] = []
        if self.result_bounds is not None and isinstance(s, (ast.Assign, ast.AnnAssign)) and isinstance(s.value, ast.Call):
            rb = list(self.result_bounds(s.value, z))
        self.apply_calls(z, s)
        if isinstance(s, ast.AugAssign):
            kp = kill_path_of_target(s.target)
            r = lin(s.value)
            if isinstance(s.target, (ast.Name, ast.Attribute)) and kp == U(s.target) and r is not None and r[0] is None \
                    and isinstance(s.op, (ast.Add, ast.Sub)):
                z.shift(kp, r[1] if isinstance(s.op, ast.Add) else -r[1])
            elif isinstance(s.target, (ast.Name, ast.Attribute)) and kp == U(s.target) and isinstance(s.op, (ast.Add, ast.Sub)) \
                    and isinstance(s.value, ast.IfExp) and (cs_ := _const_alts(s.value)) is not None:
                # x += 2 if c else 1: a step between the smallest and the largest alternative
                lo_, hi_ = min(cs_), max(cs_)
                if isinstance(s.op, ast.Sub):
                    lo_, hi_ = -hi_, -lo_
                z.shift_range(kp, lo_, hi_)
            elif kp:
                z.kill(kp)
            return
        if isinstance(s, (ast.Assign, ast.AnnAssign)):
            value = s.value
            targets = s.targets if isinstance(s, ast.Assign) else [s.target]
            if value is None:
                return
            simple = all(isinstance(t, (ast.Name, ast.Attribute)) for t in targets)
            alts = _ifexp_alts(value, z) if simple else None
            if alts is not None and len(alts) == 1:
                value = alts[0]
            r = lin(value) if simple else None
            new_eqs: list[tuple[str, str, int]] = []
            new_ub: list[tuple[str, str, int]] = []     # a - b <= k
            if alts is not None and len(alts) == 2 and r is None:
                la, lb = lin(alts[0]), lin(alts[1])
                if la is not None and lb is not None and la[0] == lb[0]:
                    for t in targets:
                        tt = U(t)
                        if kill_path_of_target(t) == tt and not mentions(T(la[0]), tt):
                            new_ub.append((tt, T(la[0]), max(la[1], lb[1])))
                            new_ub.append((T(la[0]), tt, -min(la[1], lb[1])))
            zpre = None
            if simple and isinstance(value, ast.Call) and isinstance(value.func, ast.Name) and value.func.id in ("min", "max"):
                zpre = z.copy()          # what held about the arguments before the target is overwritten (x = max(x, e))
                zpre.close()
            for t in store_targets(s):
                kp = kill_path_of_target(t)
                if kp is None:
                    continue
                tt = U(t)
                if _is_element_store(t):
                    z.kill(kp, keep_len=True)
                    continue
                if simple and r is not None and kp == tt:
                    rterm = T(r[0])
                    if rterm == tt:
                        z.shift(tt, r[1])
                        continue
                    z.kill(kp)
                    if not mentions(rterm, tt):
                        new_eqs.append((tt, rterm, r[1]))
                    continue
                z.kill(kp)
                if simple and kp == tt and isinstance(value, ast.Call) and isinstance(value.func, ast.Name) \
                        and value.func.id in ("min", "max") and not value.keywords and len(value.args) >= 2:
                    lins = [lin(a) for a in value.args]
                    for la in lins:
                        if la is None or mentions(T(la[0]), tt):
                            continue
                        if value.func.id == "min":
                            new_ub.append((tt, T(la[0]), la[1]))
                        else:
                            new_ub.append((T(la[0]), tt, -la[1]))
                    # max(a, b) <= t + k  when every argument is (min: >= when every argument is)
                    if all(la is not None for la in lins):
                        zq = zpre if zpre is not None else z
                        zq.close()
                        for term in list(zq.terms()) + [ZERO]:
                            if mentions(term, tt):
                                continue
                            ks = []
                            for la in lins:
                                ta = T(la[0])          # type: ignore[index]
                                if value.func.id == "max":
                                    k = 0 if ta == term else zq.d.get((ta, term))
                                    ks.append(None if k is None else k + la[1])          # type: ignore[index]
                                else:
                                    k = 0 if ta == term else zq.d.get((term, ta))
                                    ks.append(None if k is None else k - la[1])          # type: ignore[index]
                            if all(k is not None for k in ks):
                                if value.func.id == "max":
                                    new_ub.append((tt, term, max(ks)))          # type: ignore[type-var]
                                else:
                                    new_ub.append((term, tt, max(ks)))          # type: ignore[type-var]
            # x = S.find(sub, lo, hi) / S.index(...): the result is below hi (or below len(S))
            if simple and isinstance(value, ast.Call) and isinstance(value.func, ast.Attribute) and value.func.attr in ("find", "index", "rfind", "rindex") \
                    and not value.keywords and 1 <= len(value.args) <= 3 and stable(value.func.value):
                for t in store_targets(s):
                    tt = U(t)
                    if kill_path_of_target(t) != tt:
                        continue
                    if len(value.args) == 3:
                        lh = lin(value.args[2])
                        if lh is not None and not mentions(T(lh[0]), tt):
                            new_ub.append((tt, T(lh[0]), lh[1] - 1))
                    new_ub.append((tt, f"len({U(value.func.value)})", -1))
            for (a, b, c) in new_eqs:
                z.add_eq(a, b, c)
            for (a, b, k) in new_ub:
                z.add(a, b, k)
            if len(targets) == 1 and isinstance(targets[0], ast.Name) and isinstance(value, (ast.BoolOp, ast.Compare, ast.UnaryOp)) \
                    and _pred_ok(value) and not any(isinstance(x, ast.Call) and not _pure_call(x) for x in ast.walk(value)) \
                    and not any(isinstance(x, ast.Name) and x.id == targets[0].id for x in ast.walk(value)):
                # flag = <comparison / and / or / not>: remembered until something the expression mentions is written
                z.preds.add((targets[0].id + _DEFSEP + U(value), True))
            if simple:
                names = [U(t) for t in targets if kill_path_of_target(t) == U(t)]
                for (b, k) in rb:
                    for tt in names:
                        if not mentions(b, tt):
                            z.add(tt, b, k)
                # a = b = <expr>: the targets hold the same value
                for t1, t2 in zip(names, names[1:]):
                    if not mentions(t1, t2) and not mentions(t2, t1):
                        z.add_eq(t1, t2, 0)
            # len(x) >= 0 style facts are implicit; nothing else
            return
        if isinstance(s, ast.Delete):
            for t in store_targets(s):
                kp = kill_path_of_target(t)
                if kp:
                    z.kill(kp)
            return

    def _counted_for(self, node: Node):
        """(var, lo term, lo offset) if `node` is `for var in range(lo, hi)` / `range(hi)` (step 1) whose variable and bounds are
        not stored inside the loop: the variable then advances by exactly one per iteration."""
        cache = self.__dict__.setdefault("_cf", {})
        if node.id in cache:
            return cache[node.id]
        out = None
        f = node.ast
        if node.kind == "for" and isinstance(f, ast.For) and isinstance(f.target, ast.Name) and isinstance(f.iter, ast.Call) \
                and isinstance(f.iter.func, ast.Name) and f.iter.func.id == "range" and not f.iter.keywords and 1 <= len(f.iter.args) <= 2:
            v = f.target.id
            stored = {U(t) for b in f.body for x in ast.walk(b) for t in store_targets(x)} | \
                     {x.target.id for b in f.body for x in ast.walk(b) if isinstance(x, ast.For) and isinstance(x.target, ast.Name)}
            names = {U(x) for a_ in f.iter.args for x in ast.walk(a_) if isinstance(x, (ast.Name, ast.Attribute))}
            lo = lin(f.iter.args[0]) if len(f.iter.args) == 2 else (None, 0)
            if v not in stored and not (names & stored) and lo is not None and not mentions(T(lo[0]), v):
                out = (v, T(lo[0]), lo[1], {id(x) for b in f.body for x in ast.walk(b)})
        elif node.kind == "for" and isinstance(f, ast.For) and isinstance(f.target, ast.Tuple) and len(f.target.elts) == 2 \
                and isinstance(f.target.elts[0], ast.Name) and isinstance(f.iter, ast.Call) and isinstance(f.iter.func, ast.Name) \
                and f.iter.func.id == "enumerate" and len(f.iter.args) == 1 and not f.iter.keywords:
            # for i, x in enumerate(seq): i counts 0, 1, 2, ... as long as the body does not rebind it
            v = f.target.elts[0].id
            stored = {U(t) for b in f.body for x in ast.walk(b) for t in store_targets(x)}
            if v not in stored:
                out = (v, ZERO, 0, {id(x) for b in f.body for x in ast.walk(b)})
        cache[node.id] = out
        return out

    def edge(self, n: Node, state: Facts, label: str, succ: Node) -> Facts | None:
        z = self._edge(n, state, label, succ)
        if z is not None and succ.kind == "for" and n is not succ:
            cf = self._counted_for(succ)
            if cf is not None:
                v, lo_t, lo_k, body = cf
                ghost = f"forpre_{succ.id}"
                if n.ast is not None and id(n.ast) in body:
                    z.shift(v, 1)                 # next iteration: the variable is one more than in the last
                else:
                    z.kill(ghost)
                    z.add_eq(ghost, v, 0)         # remember what the variable held before the loop (kept if the range is empty)
                    z.kill(v)
                    z.add_eq(v, lo_t, lo_k)       # first iteration
        return z

    def _edge(self, n: Node, state: Facts, label: str, succ: Node) -> Facts | None:
        z = state.copy()
        a = n.ast
        if n.kind == "test":
            self.apply_calls(z, a)
            if label in ("T", "F"):
                assume(z, a, label == "T")
                if self.bool_summary is not None:
                    # `if helper(args):` - what the helper's constant return values imply about its arguments
                    e, pos = a, label == "T"
                    while isinstance(e, ast.UnaryOp) and isinstance(e.op, ast.Not):
                        e, pos = e.operand, not pos
                    if isinstance(e, ast.Call):
                        for (x, y, k) in self.bool_summary(e, pos):
                            z.add(x, y, k)
                if z.inconsistent():
                    return None
            return z
        if n.kind == "stmt":
            if label == "exc":
                self.apply_calls(z, a)
                return z
            self.transfer_stmt(z, a)
            return z
        if n.kind == "for":
            self.apply_calls(z, a.iter)
            if label == "iter":
                cf_ = self._counted_for(n)
                for t in store_targets(a):
                    kp = kill_path_of_target(t)
                    if kp and not (cf_ is not None and kp == cf_[0]):
                        z.kill(kp)
                self._range_facts(z, a)
                if self.result_bounds is not None and isinstance(a.target, ast.Name):
                    # `for i in reversed(marks)`: an element of the list is bounded like a value popped from it
                    it_ = a.iter
                    while True:
                        if isinstance(it_, ast.Call) and isinstance(it_.func, ast.Name) and it_.func.id in ("reversed", "list", "sorted", "tuple", "iter") \
                                and len(it_.args) == 1 and not it_.keywords:
                            it_ = it_.args[0]
                        elif isinstance(it_, ast.Subscript) and isinstance(it_.slice, ast.Slice):
                            it_ = it_.value
                        else:
                            break
                    if isinstance(it_, ast.Name):
                        fake = ast.Call(func=ast.Attribute(value=it_, attr="pop", ctx=ast.Load()), args=[], keywords=[])
                        for (b_, k_) in self.result_bounds(fake, z):
                            if not mentions(b_, a.target.id):
                                z.add(a.target.id, b_, k_)
            elif label == "done" and self._counted_for(n) is not None:
                # the state tracks the value the variable would take in the *next* iteration; when the range is exhausted the
                # variable holds the previous value (tracked - 1), or - no iteration at all - what it held before the loop
                v = self._counted_for(n)[0]
                ghost = f"forpre_{n.id}"
                z1 = z.copy()
                z1.kill(v)
                z1.add_eq(v, ghost, 0)
                z2 = z.copy()
                z2.shift(v, -1)
                z = z1.join(z2)
                z.kill(ghost)
            return z
        if n.kind == "with":
            for it in a.items:
                self.apply_calls(z, it.context_expr)
                if it.optional_vars is not None:
                    kp = kill_path_of_target(it.optional_vars)
                    if kp:
                        z.kill(kp)
            return z
        if n.kind == "except":
            if getattr(a, "name", None):
                z.kill(a.name)
            return z
        return z

    @staticmethod
    def _range_facts(z: Facts, f: ast.For) -> None:
        it = f.iter
        # reversed(range(..)) / range(..)[::-1] run over the same values
        if isinstance(it, ast.Call) and isinstance(it.func, ast.Name) and it.func.id == "reversed" and len(it.args) == 1:
            it = it.args[0]
        if isinstance(it, ast.Subscript) and isinstance(it.slice, ast.Slice) and it.slice.lower is None and it.slice.upper is None \
                and it.slice.step is not None and U(it.slice.step) == "-1":
            it = it.value
        if isinstance(f.target, ast.Name) and isinstance(it, ast.Call) and isinstance(it.func, ast.Name) \
                and it.func.id == "range" and not it.keywords and 1 <= len(it.args) <= 2:
            v = f.target.id
            lo = lin(it.args[0]) if len(it.args) == 2 else (None, 0)
            hi = lin(it.args[-1])
            if lo is not None and not mentions(T(lo[0]), v):
                z.add(T(lo[0]), v, -lo[1])            # lo <= v
            if hi is not None and not mentions(T(hi[0]), v):
                z.add(v, T(hi[0]), hi[1] - 1)         # v <= hi - 1
        if isinstance(it, ast.Call) and isinstance(it.func, ast.Name) and it.func.id == "enumerate" and it.args \
                and isinstance(f.target, ast.Tuple) and isinstance(f.target.elts[0], ast.Name) and len(it.args) == 1 \
                and not it.keywords:
            v = f.target.elts[0].id
            z.add(ZERO, v, 0)
            seq = it.args[0]
            if stable(seq):
                z.add(v, f"len({U(seq)})", -1)


def analyse(cfg: CFG, entry: Facts | None = None, call_kills: CallKills | None = None,
            bool_summary: BoolSummary | None = None, call_posts=None, result_bounds=None) -> dict[int, Facts | None]:
    return solve(cfg, FactsProblem(cfg, entry, call_kills, bool_summary, call_posts, result_bounds))


class PartitionedFacts(Problem):
    """Trace partitioning of a facts analysis by the truthiness of one local flag: the state maps a class of the flag's current
    value ('T' truthy, 'F' falsy, '?' unknown) to the facts that hold on the paths where the flag is in that class.  A test
    of the flag drops the partitions it contradicts; an assignment of a value of known truthiness merges everything into
    that class.  Used to discharge `flag implies bound` correlations that a single conjunction of facts loses at joins."""

    def __init__(self, base: FactsProblem, flag: str, truth_of) -> None:
        self.base, self.flag, self.truth_of = base, flag, truth_of     # truth_of(expr) -> True / False / None

    def entry_state(self):
        return {"?": self.base.entry_state()}

    def join(self, a, b, at):
        out = dict(a)
        for k, z in b.items():
            out[k] = out[k].join(z) if k in out else z
        return out

    def equal(self, a, b):
        return a.keys() == b.keys() and all(a[k].same(b[k]) for k in a)

    def widen(self, old, new, at):
        out = {}
        for k, z in new.items():
            out[k] = old[k].widen(z) if k in old else z
        return out

    def _flag_assigned(self, a: ast.AST):
        """None if the statement does not assign the flag, else the class of the value assigned."""
        if isinstance(a, ast.Assign):
            hit = any(isinstance(x, ast.Name) and x.id == self.flag and isinstance(x.ctx, ast.Store) for t in a.targets for x in ast.walk(t))
            if hit:
                simple = any(isinstance(t, ast.Name) and t.id == self.flag for t in a.targets)
                if simple and isinstance(a.value, ast.Constant) and a.value.value is None:
                    return "N"          # exactly None (a class of its own: `is None` tests decide it)
                t_ = self.truth_of(a.value) if simple else None
                return "?" if t_ is None else ("T" if t_ else "F")
        elif isinstance(a, ast.AnnAssign) and isinstance(a.target, ast.Name) and a.target.id == self.flag and a.value is not None:
            if isinstance(a.value, ast.Constant) and a.value.value is None:
                return "N"
            t_ = self.truth_of(a.value)
            return "?" if t_ is None else ("T" if t_ else "F")
        elif isinstance(a, ast.AugAssign) and isinstance(a.target, ast.Name) and a.target.id == self.flag:
            return "?"
        return None

    def edge(self, n: Node, state, label: str, succ: Node):
        out = {}
        a = n.ast
        want = None
        none_test = None          # True: the edge implies `flag is None`; False: `flag is not None`
        if n.kind == "test" and label in ("T", "F") and a is not None:
            e, pos = a, label == "T"
            while isinstance(e, ast.UnaryOp) and isinstance(e.op, ast.Not):
                e, pos = e.operand, not pos
            if isinstance(e, ast.Name) and e.id == self.flag:
                want = "T" if pos else "F"
            elif isinstance(e, ast.Compare) and len(e.ops) == 1 and isinstance(e.left, ast.Name) and e.left.id == self.flag \
                    and isinstance(e.comparators[0], ast.Constant) and e.comparators[0].value is None \
                    and isinstance(e.ops[0], (ast.Is, ast.IsNot, ast.Eq, ast.NotEq)):
                none_test = pos == isinstance(e.ops[0], (ast.Is, ast.Eq))
        for k, z in state.items():
            if want == "T" and k in ("F", "N", "F?"):
                continue
            if want == "F" and k == "T":
                continue
            if none_test is True and k in ("T", "F"):
                continue
            if none_test is False and k == "N":
                continue
            z2 = self.base.edge(n, z, label, succ)
            if z2 is None:
                continue
            k2 = k
            if want == "T":
                k2 = "T"
            elif want == "F" and k == "?":
                k2 = "F?"          # falsy, possibly None
            elif none_test is True:
                k2 = "N"
            elif none_test is False and k == "F?":
                k2 = "F"
            out[k2] = out[k2].join(z2) if k2 in out else z2
        if n.kind == "stmt" and label != "exc" and a is not None:
            cls = self._flag_assigned(a)
            if cls is not None and out:
                acc = None
                for z in out.values():
                    acc = z if acc is None else acc.join(z)
                if cls != "?":
                    acc = acc.copy()
                    acc.preds.add((self.flag, cls == "T"))
                out = {cls: acc}
        elif n.kind == "for" and label == "iter" and any(isinstance(x, ast.Name) and x.id == self.flag for x in ast.walk(a.target)):
            acc = None
            for z in out.values():
                acc = z if acc is None else acc.join(z)
            out = {"?": acc} if acc is not None else {}
        return out or None
