"""Per-function control-flow graph over the statement kinds the repository uses.

* conditions are decomposed along ``and`` / ``or`` / ``not`` into `test` nodes with labelled T/F edges;
* ``return`` / ``raise`` / ``break`` / ``continue`` inside ``try ... finally`` are routed through a copy of the
  ``finally`` body (so a try/finally repair is seen as executing the restore on every exit);
* statements inside a ``try`` body (and, on request, every statement that may raise) get an ``exc`` edge to the
  handlers / through the finally copies to the exceptional exit;
* ``with suppress(...)`` swallows exceptions of its body.
"""
from __future__ import annotations

import ast
import itertools
from typing import Callable

from .core import AnalysisError, U

SIMPLE = (ast.Assign, ast.AugAssign, ast.AnnAssign, ast.Expr, ast.Pass, ast.Delete, ast.Import, ast.ImportFrom,
          ast.Global, ast.Nonlocal, ast.FunctionDef, ast.AsyncFunctionDef, ast.ClassDef)


class Node:
    __slots__ = ("id", "kind", "ast", "succ", "pred", "in_try", "copy_of")

    def __init__(self, nid: int, kind: str, node: ast.AST | None) -> None:
        self.id = nid
        self.kind = kind          # entry exit raise stmt test for with except dispatch join
        self.ast = node
        self.succ: list[tuple["Node", str]] = []
        self.pred: list[tuple["Node", str]] = []
        self.in_try = False

    def to(self, n: "Node", label: str = "") -> None:
        for (m, l) in self.succ:
            if m is n and l == label:
                return
        self.succ.append((n, label))
        n.pred.append((self, label))

    @property
    def lineno(self) -> int:
        return getattr(self.ast, "lineno", 0) if self.ast is not None else 0

    def __repr__(self) -> str:
        t = ""
        if self.ast is not None:
            try:
                t = U(self.ast).split("\n")[0][:50]
            except Exception:
                t = type(self.ast).__name__
        return f"<{self.id}:{self.kind}@{self.lineno} {t}>"


class _Lazy:
    __slots__ = ("fn", "val")

    def __init__(self, fn: Callable[[], Node]) -> None:
        self.fn = fn
        self.val: Node | None = None

    def get(self) -> Node:
        if self.val is None:
            self.val = self.fn()
        return self.val


class _Ctx:
    __slots__ = ("brk", "cont", "ret", "exc", "in_try")

    def __init__(self, brk, cont, ret, exc, in_try=False):
        self.brk, self.cont, self.ret, self.exc, self.in_try = brk, cont, ret, exc, in_try

    def replace(self, **kw) -> "_Ctx":
        c = _Ctx(self.brk, self.cont, self.ret, self.exc, self.in_try)
        for k, v in kw.items():
            setattr(c, k, v)
        return c


def _is_suppress(w: ast.With) -> bool:
    for it in w.items:
        e = it.context_expr
        if isinstance(e, ast.Call) and U(e.func).split(".")[-1] == "suppress":
            return True
    return False


def catches_all(h: ast.ExceptHandler) -> bool:
    return h.type is None or U(h.type) in ("Exception", "BaseException")


class CFG:
    def __init__(self, fn: ast.FunctionDef, may_raise: Callable[[ast.AST], bool] | None = None) -> None:
        """`may_raise(ast_node)`: should this simple statement / test get an exceptional out-edge even outside a
        try body?  (Inside a try body every node gets one.)"""
        self.fn = fn
        self.may_raise = may_raise
        self._ids = itertools.count()
        self.nodes: list[Node] = []
        self.entry = self._new("entry", None)
        self.exit = self._new("exit", None)
        self.raise_exit = self._new("raise", None)
        ctx = _Ctx(None, None, _Lazy(lambda: self.exit), _Lazy(lambda: self.raise_exit))
        first = self._seq(fn.body, self.exit, ctx)
        self.entry.to(first)
        self._prune()
        self._owner: dict[ast.AST, list[Node]] | None = None

    # ------------------------------------------------------------------ construction
    def _new(self, kind: str, node: ast.AST | None) -> Node:
        n = Node(next(self._ids), kind, node)
        self.nodes.append(n)
        return n

    def _seq(self, stmts: list[ast.stmt], nxt: Node, ctx: _Ctx) -> Node:
        for s in reversed(stmts):
            nxt = self._stmt(s, nxt, ctx)
        return nxt

    def _exc_edge(self, n: Node, ctx: _Ctx) -> None:
        n.in_try = ctx.in_try
        if ctx.in_try or (self.may_raise is not None and n.ast is not None and self.may_raise(n.ast)):
            n.to(ctx.exc.get(), "exc")

    def _cond(self, e: ast.expr, t: Node, f: Node, ctx: _Ctx) -> Node:
        if isinstance(e, ast.BoolOp):
            vals = list(e.values)
            if isinstance(e.op, ast.And):
                nxt = t
                for v in reversed(vals):
                    nxt = self._cond(v, nxt, f, ctx)
                return nxt
            nxt = f
            for v in reversed(vals):
                nxt = self._cond(v, t, nxt, ctx)
            return nxt
        if isinstance(e, ast.UnaryOp) and isinstance(e.op, ast.Not):
            return self._cond(e.operand, f, t, ctx)
        n = self._new("test", e)
        if isinstance(e, ast.Constant):
            if e.value:
                n.to(t, "T")
            else:
                n.to(f, "F")
            return n
        n.to(t, "T")
        n.to(f, "F")
        self._exc_edge(n, ctx)
        return n

    def _stmt(self, s: ast.stmt, nxt: Node, ctx: _Ctx) -> Node:
        if isinstance(s, ast.If):
            return self._cond(s.test, self._seq(s.body, nxt, ctx), self._seq(s.orelse, nxt, ctx), ctx)
        if isinstance(s, ast.While):
            after = self._seq(s.orelse, nxt, ctx) if s.orelse else nxt
            head = self._new("join", s)          # loop head (target of back edges and `continue`)
            body_ctx = ctx.replace(brk=_Lazy(lambda: nxt), cont=_Lazy(lambda: head))
            body = self._seq(s.body, head, body_ctx)
            head.to(self._cond(s.test, body, after, ctx))
            return head
        if isinstance(s, ast.For):
            after = self._seq(s.orelse, nxt, ctx) if s.orelse else nxt
            head = self._new("for", s)
            body_ctx = ctx.replace(brk=_Lazy(lambda: nxt), cont=_Lazy(lambda: head))
            head.to(self._seq(s.body, head, body_ctx), "iter")
            head.to(after, "done")
            self._exc_edge(head, ctx)
            return head
        if isinstance(s, ast.Try):
            return self._try(s, nxt, ctx)
        if isinstance(s, ast.With):
            w = self._new("with", s)
            if _is_suppress(s):
                disp = self._new("dispatch", s)
                disp.to(nxt, "suppressed")
                body_ctx = ctx.replace(exc=_Lazy(lambda: disp), in_try=True)
            else:
                body_ctx = ctx
            w.to(self._seq(s.body, nxt, body_ctx))
            self._exc_edge(w, ctx)
            return w
        if isinstance(s, ast.Assert):
            fail = self._new("stmt", s)          # the raising side of the assert
            fail.to(ctx.exc.get(), "raise")
            return self._cond(s.test, nxt, fail, ctx)
        if isinstance(s, ast.Return):
            n = self._new("stmt", s)
            n.to(ctx.ret.get(), "return")
            self._exc_edge(n, ctx)
            return n
        if isinstance(s, ast.Raise):
            n = self._new("stmt", s)
            n.to(ctx.exc.get(), "raise")
            n.in_try = ctx.in_try
            return n
        if isinstance(s, ast.Break):
            n = self._new("stmt", s)
            if ctx.brk is None:
                raise AnalysisError("break outside loop")
            n.to(ctx.brk.get(), "break")
            return n
        if isinstance(s, ast.Continue):
            n = self._new("stmt", s)
            if ctx.cont is None:
                raise AnalysisError("continue outside loop")
            n.to(ctx.cont.get(), "continue")
            return n
        if isinstance(s, SIMPLE):
            n = self._new("stmt", s)
            n.to(nxt)
            self._exc_edge(n, ctx)
            return n
        raise AnalysisError(f"unsupported statement kind {type(s).__name__} at line {getattr(s, 'lineno', 0)}")

    def _try(self, s: ast.Try, nxt: Node, ctx: _Ctx) -> Node:
        if s.finalbody:
            fb = s.finalbody
            after = self._seq(fb, nxt, ctx)
            mk = lambda target: _Lazy(lambda: self._seq(fb, target.get(), ctx))   # noqa: E731
            k_fin = _Ctx(mk(ctx.brk) if ctx.brk is not None else None,
                         mk(ctx.cont) if ctx.cont is not None else None,
                         mk(ctx.ret), mk(ctx.exc), ctx.in_try)
        else:
            after = nxt
            k_fin = ctx
        els = self._seq(s.orelse, after, k_fin) if s.orelse else after
        if s.handlers:
            disp = self._new("dispatch", s)
            for h in s.handlers:
                hn = self._new("except", h)
                hn.to(self._seq(h.body, after, k_fin))
                disp.to(hn, "catch")
            if not any(catches_all(h) for h in s.handlers):
                disp.to(k_fin.exc.get(), "propagate")
            k_body = k_fin.replace(exc=_Lazy(lambda: disp), in_try=True)
        else:
            k_body = k_fin.replace(in_try=True) if s.finalbody else k_fin
        return self._seq(s.body, els, k_body)

    def _prune(self) -> None:
        seen = set()
        stack = [self.entry]
        while stack:
            n = stack.pop()
            if n.id in seen:
                continue
            seen.add(n.id)
            stack.extend(m for (m, _) in n.succ)
        keep = [n for n in self.nodes if n.id in seen or n in (self.exit, self.raise_exit)]
        for n in keep:
            n.pred = [(p, l) for (p, l) in n.pred if p.id in seen]
        self.nodes = keep

    # ------------------------------------------------------------------ queries
    def owner(self, node: ast.AST) -> list[Node]:
        """CFG nodes whose expression / statement contains the given AST node (several if a finally was copied)."""
        if self._owner is None:
            ow: dict[ast.AST, list[Node]] = {}
            for n in self.nodes:
                for root in self.roots(n):
                    for e in ast.walk(root):
                        ow.setdefault(e, []).append(n)
            self._owner = ow
        return self._owner.get(node, [])

    @staticmethod
    def roots(n: Node) -> list[ast.AST]:
        """AST roots evaluated *at* this node (not the bodies of compound statements)."""
        a = n.ast
        if a is None:
            return []
        if n.kind in ("stmt", "test"):
            if isinstance(a, (ast.FunctionDef, ast.AsyncFunctionDef, ast.ClassDef)):
                return list(a.decorator_list)
            if isinstance(a, ast.Assert):
                return [a.msg] if a.msg is not None else []
            return [a]
        if n.kind == "for":
            return [a.iter, a.target]        # type: ignore[attr-defined]
        if n.kind == "with":
            out: list[ast.AST] = []
            for it in a.items:                # type: ignore[attr-defined]
                out.append(it.context_expr)
                if it.optional_vars is not None:
                    out.append(it.optional_vars)
            return out
        if n.kind == "except":
            return [a.type] if getattr(a, "type", None) is not None else []
        return []

    def loop_heads(self) -> set[int]:
        color: dict[int, int] = {}
        heads: set[int] = set()
        stack: list[tuple[Node, int]] = [(self.entry, 0)]
        color[self.entry.id] = 1
        while stack:
            n, i = stack[-1]
            if i < len(n.succ):
                stack[-1] = (n, i + 1)
                m = n.succ[i][0]
                c = color.get(m.id)
                if c == 1:
                    heads.add(m.id)
                elif c is None:
                    color[m.id] = 1
                    stack.append((m, 0))
            else:
                color[n.id] = 2
                stack.pop()
        return heads

    def rpo(self) -> list[Node]:
        seen: set[int] = set()
        order: list[Node] = []
        stack: list[tuple[Node, int]] = [(self.entry, 0)]
        seen.add(self.entry.id)
        while stack:
            n, i = stack[-1]
            if i < len(n.succ):
                stack[-1] = (n, i + 1)
                m = n.succ[i][0]
                if m.id not in seen:
                    seen.add(m.id)
                    stack.append((m, 0))
            else:
                order.append(n)
                stack.pop()
        order.reverse()
        return order

    def dominators(self) -> dict[int, set[int]]:
        order = self.rpo()
        ids = [n.id for n in order]
        allset = set(ids)
        dom = {i: set(allset) for i in ids}
        dom[self.entry.id] = {self.entry.id}
        changed = True
        while changed:
            changed = False
            for n in order:
                if n is self.entry:
                    continue
                ps = [dom[p.id] for (p, _) in n.pred if p.id in dom]
                new = set.intersection(*ps) if ps else set()
                new = new | {n.id}
                if new != dom[n.id]:
                    dom[n.id] = new
                    changed = True
        return dom

    def reachable_from(self, start: list[Node], skip_labels: tuple[str, ...] = ()) -> set[int]:
        seen: set[int] = set()
        stack = list(start)
        while stack:
            n = stack.pop()
            if n.id in seen:
                continue
            seen.add(n.id)
            for (m, l) in n.succ:
                if l not in skip_labels:
                    stack.append(m)
        return seen

    def paths_count(self) -> int:
        """Number of acyclic entry->exit paths (capped), for evidence."""
        memo: dict[int, int] = {}
        onstack: set[int] = set()

        def go(n: Node) -> int:
            if n is self.exit or n is self.raise_exit:
                return 1
            if n.id in memo:
                return memo[n.id]
            if n.id in onstack:
                return 0
            onstack.add(n.id)
            t = 0
            for (m, _) in n.succ:
                t += go(m)
                if t > 10**9:
                    t = 10**9
                    break
            onstack.discard(n.id)
            memo[n.id] = t
            return t
        import sys
        sys.setrecursionlimit(max(sys.getrecursionlimit(), 20000))
        return go(self.entry)
