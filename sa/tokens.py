"""Token construction sites: push(...) calls on the two state classes, Token(...) constructor calls, and
groups of field stores that retype an existing token (`.type = ...; .tag = ...; .nesting = ...`)."""
from __future__ import annotations

import ast
from dataclasses import dataclass, field

from .core import Func, U, own_nodes
from .ctx import Ctx


def literal_strs(e: ast.AST | None) -> list[str] | None:
    """All string values an expression can take if it is a literal, a conditional of literals, or a concatenation / f-string
    of such."""
    if e is None:
        return None
    if isinstance(e, ast.Constant) and isinstance(e.value, str):
        return [e.value]
    if isinstance(e, ast.IfExp):
        a, b = literal_strs(e.body), literal_strs(e.orelse)
        if a is None or b is None:
            return None
        return a + b
    if isinstance(e, ast.BinOp) and isinstance(e.op, ast.Add):
        a, b = literal_strs(e.left), literal_strs(e.right)
        if a is None or b is None or len(a) * len(b) > 16:
            return None
        return [x + y for x in a for y in b]
    if isinstance(e, ast.JoinedStr):
        acc = [""]
        for v in e.values:
            if isinstance(v, ast.Constant) and isinstance(v.value, str):
                acc = [x + v.value for x in acc]
            elif isinstance(v, ast.FormattedValue) and v.format_spec is None and v.conversion == -1:
                alts = literal_strs(v.value)
                if alts is None or len(acc) * len(alts) > 16:
                    return None
                acc = [x + y for x in acc for y in alts]
            else:
                return None
        return acc
    return None


def resolve_lit(f: "Func", e: ast.AST | None, depth: int = 0) -> ast.AST | None:
    """`e` with every local that has a single definition replaced by that definition - including one component of
    `a, b = (x, y) if c else (u, v)` - so that literal_strs / literal_ints can see through `kind = ...; push(kind + '_open', tag, 1)`."""
    if e is None or depth > 4:
        return e
    if isinstance(e, ast.Name):
        defs: list[ast.AST] = []
        params = {a.arg for a in f.node.args.posonlyargs + f.node.args.args + f.node.args.kwonlyargs}
        if e.id in params:
            return e
        for n in own_nodes(f.node):
            if isinstance(n, ast.Assign):
                for t in n.targets:
                    if isinstance(t, ast.Name) and t.id == e.id:
                        defs.append(n.value)
                    elif isinstance(t, (ast.Tuple, ast.List)):
                        for i, x in enumerate(t.elts):
                            if isinstance(x, ast.Name) and x.id == e.id:
                                v = n.value

                                def comp(v: ast.AST, i: int = i, n_: int = len(t.elts)) -> ast.AST | None:
                                    if isinstance(v, (ast.Tuple, ast.List)) and len(v.elts) == n_:
                                        return v.elts[i]
                                    if isinstance(v, ast.IfExp):
                                        a, b = comp(v.body), comp(v.orelse)
                                        if a is not None and b is not None:
                                            return ast.IfExp(test=v.test, body=a, orelse=b)
                                    return None
                                cv = comp(v)
                                defs.append(cv if cv is not None else ast.Name(id="?", ctx=ast.Load()))
            elif isinstance(n, (ast.AugAssign, ast.AnnAssign, ast.For, ast.NamedExpr)) and any(
                    isinstance(x, ast.Name) and x.id == e.id and isinstance(x.ctx, ast.Store) for x in ast.walk(getattr(n, "target", n))):
                defs.append(ast.Name(id="?", ctx=ast.Load()))
        if len(defs) == 1 and not (isinstance(defs[0], ast.Name) and defs[0].id == "?"):
            return resolve_lit(f, defs[0], depth + 1)
        return e
    if isinstance(e, ast.BinOp) and isinstance(e.op, ast.Add):
        return ast.BinOp(left=resolve_lit(f, e.left, depth + 1), op=e.op, right=resolve_lit(f, e.right, depth + 1))
    if isinstance(e, ast.IfExp):
        return ast.IfExp(test=e.test, body=resolve_lit(f, e.body, depth + 1), orelse=resolve_lit(f, e.orelse, depth + 1))
    if isinstance(e, ast.JoinedStr):
        vals = []
        for v in e.values:
            if isinstance(v, ast.FormattedValue):
                vals.append(ast.FormattedValue(value=resolve_lit(f, v.value, depth + 1), conversion=v.conversion, format_spec=v.format_spec))
            else:
                vals.append(v)
        return ast.JoinedStr(values=vals)
    return e


def literal_ints(e: ast.AST | None) -> list[int] | None:
    if e is None:
        return None
    if isinstance(e, ast.Constant) and isinstance(e.value, int) and not isinstance(e.value, bool):
        return [e.value]
    if isinstance(e, ast.UnaryOp) and isinstance(e.op, ast.USub) and isinstance(e.operand, ast.Constant) and isinstance(e.operand.value, int):
        return [-e.operand.value]
    if isinstance(e, ast.IfExp):
        a, b = literal_ints(e.body), literal_ints(e.orelse)
        if a is None or b is None:
            return None
        return a + b
    return None


@dataclass
class TokSite:
    func: Func
    node: ast.AST                 # the Call, or the first store of a field group
    via: str                      # 'push:block' | 'push:inline' | 'Token' | 'retype'
    type_expr: ast.AST | None
    tag_expr: ast.AST | None
    nesting_expr: ast.AST | None
    kinds: list[str] | None = None
    stores: dict[str, ast.AST] = field(default_factory=dict)     # for 'retype': field -> value expr
    receiver: str = ""
    orig_ids: set = field(default_factory=set)                   # ids of the original store value nodes (specialised templates)

    @property
    def lineno(self) -> int:
        return getattr(self.node, "lineno", 0)


def _arg(call: ast.Call, idx: int, name: str) -> ast.AST | None:
    for k in call.keywords:
        if k.arg == name:
            return k.value
    return call.args[idx] if idx < len(call.args) else None


def token_sites(c: Ctx) -> list[TokSite]:
    out: list[TokSite] = []
    push_b = c.p.func("rules_block/state_block.py:StateBlock.push")
    push_i = c.p.func("rules_inline/state_inline.py:StateInline.push")
    for f in c.p.all_funcs():
        for cs in c.cg.sites.get(f, []):
            n = cs.node
            if push_b in cs.callees or push_i in cs.callees:
                via = "push:block" if push_b in cs.callees else "push:inline"
                if push_b in cs.callees and push_i in cs.callees:
                    via = "push:any"
                te, ge, ne = _arg(n, 0, "ttype"), _arg(n, 1, "tag"), _arg(n, 2, "nesting")
                if literal_strs(te) is None:
                    te = resolve_lit(f, te)
                if ge is not None and literal_strs(ge) is None:
                    ge = resolve_lit(f, ge)
                ts_ = TokSite(f, n, via, te, ge, ne, literal_strs(te))
                _post_stores(f, n, ts_)
                out.append(ts_)
            elif cs.kind == "ctor" and cs.detail == "Token":
                te, ge, ne = _arg(n, 0, "type"), _arg(n, 1, "tag"), _arg(n, 2, "nesting")
                ts_ = TokSite(f, n, "Token", te, ge, ne, literal_strs(te))
                _post_stores(f, n, ts_)
                out.append(ts_)
        # retype groups: consecutive stores X.type = ..., X.tag = ..., X.nesting = ... on the same receiver
        groups: dict[tuple[str, int], TokSite] = {}
        for blk in _blocks(f.node):
            cur: TokSite | None = None
            for s in blk:
                tgt = None
                if isinstance(s, ast.Assign) and len(s.targets) == 1 and isinstance(s.targets[0], ast.Attribute):
                    tgt = s.targets[0]
                if tgt is not None and tgt.attr in ("type", "tag", "nesting", "markup", "content", "level", "info", "attrs", "map", "hidden", "block", "children", "meta"):
                    recv = U(tgt.value)
                    if tgt.attr == "type":
                        cur = TokSite(f, s, "retype", s.value, None, None, literal_strs(s.value), receiver=recv)
                        cur.stores["type"] = s.value
                        out.append(cur)
                    elif cur is not None and cur.receiver == recv:
                        cur.stores[tgt.attr] = s.value
                        if tgt.attr == "tag":
                            cur.tag_expr = s.value
                        if tgt.attr == "nesting":
                            cur.nesting_expr = s.value
                    else:
                        cur = None if tgt.attr != "type" else cur
                else:
                    # a rebinding of the receiver ends the group
                    if isinstance(s, ast.Assign) and cur is not None and any(isinstance(t, ast.Name) and t.id == cur.receiver for t in s.targets):
                        cur = None
                    elif not isinstance(s, ast.Assign):
                        cur = None
    out = _specialise_const_loops(out)
    out = _specialise_templates(c, out)
    out.sort(key=lambda t: (t.func.qual, t.lineno))
    return out


def _specialise_const_loops(sites: list[TokSite]) -> list[TokSite]:
    """A site inside `for a, b, c in ((x1, y1, z1), (x2, y2, z2)):` whose kind / tag / nesting are the loop's targets is replaced by
    one site per element of the literal sequence, with the targets substituted."""
    out: list[TokSite] = []
    for ts in sites:
        f = ts.func
        exprs = [ts.type_expr, ts.tag_expr, ts.nesting_expr] + list(ts.stores.values())
        free = {x.id for e in exprs if e is not None for x in ast.walk(e) if isinstance(x, ast.Name)}
        loop = None
        q = f.module.parents.get(ts.node)
        while q is not None and q is not f.node:
            if isinstance(q, ast.For) and isinstance(q.iter, (ast.Tuple, ast.List)) and q.iter.elts \
                    and {x.id for x in ast.walk(q.target) if isinstance(x, ast.Name)} & free:
                loop = q
                break
            q = f.module.parents.get(q)
        if loop is None:
            out.append(ts)
            continue
        tg = loop.target.elts if isinstance(loop.target, (ast.Tuple, ast.List)) else [loop.target]
        envs = []
        for el in loop.iter.elts:
            vals = el.elts if isinstance(el, (ast.Tuple, ast.List)) and len(tg) > 1 else [el]
            if len(vals) != len(tg) or not all(isinstance(t, ast.Name) for t in tg):
                envs = []
                break
            envs.append({t.id: v for t, v in zip(tg, vals)})
        if not envs:
            out.append(ts)
            continue
        for env in envs:
            te, ge, ne = pe(ts.type_expr, env), pe(ts.tag_expr, env), pe(ts.nesting_expr, env)
            nts = TokSite(f, ts.node, ts.via, te, ge, ne, literal_strs(te), {k: pe(v, env) for k, v in ts.stores.items()}, receiver=ts.receiver)
            nts.orig_ids = {id(v) for v in ts.stores.values()} | getattr(ts, "orig_ids", set())
            if "tag" in nts.stores and nts.tag_expr is None:
                nts.tag_expr = nts.stores["tag"]
            if "nesting" in nts.stores and nts.nesting_expr is None:
                nts.nesting_expr = nts.stores["nesting"]
            out.append(nts)
    return out


def pe(e: ast.AST | None, env: dict[str, ast.AST]) -> ast.AST | None:
    """Tiny partial evaluator: substitute names from env and fold string formatting / constant conditionals."""
    if e is None:
        return None
    if isinstance(e, ast.Name) and e.id in env:
        return pe(env[e.id], {})
    if isinstance(e, ast.JoinedStr):
        parts = []
        for v in e.values:
            if isinstance(v, ast.Constant):
                parts.append(v)
            elif isinstance(v, ast.FormattedValue) and v.format_spec is None and v.conversion == -1:
                parts.append(pe(v.value, env))
            else:
                return e
        if all(isinstance(p_, ast.Constant) for p_ in parts):
            return ast.Constant(value="".join(str(p_.value) for p_ in parts))
        # one IfExp part: distribute
        for i, p_ in enumerate(parts):
            if isinstance(p_, ast.IfExp) and all(isinstance(q, ast.Constant) for j, q in enumerate(parts) if j != i):
                def mk(branch):
                    b = pe(branch, env)
                    if not isinstance(b, ast.Constant):
                        return None
                    return ast.Constant(value="".join(str((b if j == i else q).value) for j, q in enumerate(parts)))
                a_, b_ = mk(p_.body), mk(p_.orelse)
                if a_ is not None and b_ is not None:
                    return ast.IfExp(test=p_.test, body=a_, orelse=b_)
        return e
    if isinstance(e, ast.BinOp) and isinstance(e.op, ast.Add):
        a_, b_ = pe(e.left, env), pe(e.right, env)
        if isinstance(a_, ast.Constant) and isinstance(b_, ast.Constant) and isinstance(a_.value, str) and isinstance(b_.value, str):
            return ast.Constant(value=a_.value + b_.value)
        return ast.BinOp(left=a_, op=e.op, right=b_)
    if isinstance(e, ast.UnaryOp) and isinstance(e.op, ast.USub):
        a_ = pe(e.operand, env)
        if isinstance(a_, ast.Constant) and isinstance(a_.value, int):
            return ast.Constant(value=-a_.value)
        return e
    if isinstance(e, ast.Compare) and len(e.ops) == 1:
        a_, b_ = pe(e.left, env), pe(e.comparators[0], env)
        if isinstance(a_, ast.Constant) and isinstance(b_, ast.Constant):
            try:
                op = e.ops[0]
                v = {ast.Lt: a_.value < b_.value, ast.LtE: a_.value <= b_.value, ast.Gt: a_.value > b_.value, ast.GtE: a_.value >= b_.value,
                     ast.Eq: a_.value == b_.value, ast.NotEq: a_.value != b_.value}.get(type(op))
                if v is not None:
                    return ast.Constant(value=v)
            except TypeError:
                pass
        return e
    if isinstance(e, ast.IfExp):
        t = pe(e.test, env)
        if isinstance(t, ast.Constant):
            return pe(e.body if t.value else e.orelse, env)
        return ast.IfExp(test=t, body=pe(e.body, env), orelse=pe(e.orelse, env))
    return e


def _specialise_templates(c: Ctx, sites: list[TokSite]) -> list[TokSite]:
    """A token-constructing helper whose kind / tag / nesting depend on its parameters (`_convert(token, tag, nesting, ..)`)
    is replaced by one site per call, attributed to the caller, with the arguments substituted and folded."""
    out: list[TokSite] = []
    for ts in sites:
        f = ts.func
        params = [a.arg for a in f.node.args.posonlyargs + f.node.args.args + f.node.args.kwonlyargs]
        exprs = [ts.type_expr, ts.tag_expr, ts.nesting_expr] + list(ts.stores.values())
        free = {x.id for e in exprs if e is not None for x in ast.walk(e) if isinstance(x, ast.Name)}
        is_template = (ts.kinds is None or (ts.nesting_expr is not None and literal_ints(ts.nesting_expr) is None)
                       or ("nesting" in ts.stores and literal_ints(ts.stores["nesting"]) is None)) \
            and bool(free & set(params)) and f.name not in ("push",)
        callers = c.cg.callers.get(f, []) if is_template else []
        if not is_template or not callers:
            out.append(ts)
            continue
        ok_all = True
        new: list[TokSite] = []
        for cs in callers:
            env: dict[str, ast.AST] = {}
            from .interproc import expand
            for pn in params:
                a = c.eff.arg_for_param(cs, f, pn)
                if a is not None:
                    env[pn] = expand(c, cs.caller, a, cs.node) if isinstance(a, ast.Name) else a
                    if literal_strs(env[pn]) is None and literal_ints(env[pn]) is None:
                        # tag + "_open" with `tag = "strong" if isStrong else "em"`: single-definition locals of the caller
                        r_ = resolve_lit(cs.caller, a)
                        if r_ is not None and (literal_strs(r_) is not None or literal_ints(r_) is not None):
                            env[pn] = r_
                        elif isinstance(a, ast.Name):
                            r_ = _choice_of_defs(c, cs.caller, a.id, cs.node)
                            if r_ is not None:
                                env[pn] = r_
            te, ge, ne = pe(ts.type_expr, env), pe(ts.tag_expr, env), pe(ts.nesting_expr, env)
            kinds = literal_strs(te)
            if kinds is None:
                ok_all = False
                break
            # an IfExp kind selected by the nesting argument: keep only the feasible branch when nesting is a literal
            nts = TokSite(cs.caller, cs.node, ts.via, te, ge, ne, kinds, {k: pe(v, env) for k, v in ts.stores.items()}, receiver=ts.receiver)
            nts.orig_ids = {id(v) for v in ts.stores.values()}
            if "tag" in nts.stores and nts.tag_expr is None:
                nts.tag_expr = nts.stores["tag"]
            if "nesting" in nts.stores and nts.nesting_expr is None:
                nts.nesting_expr = nts.stores["nesting"]
            new.append(nts)
        if ok_all:
            out.extend(new)
        else:
            out.append(ts)
    return out


def _choice_of_defs(c: Ctx, f: Func, name: str, at: ast.AST) -> ast.AST | None:
    """`if c: name, m = "strong", x  else: name, m = "em", y`: when every definition of `name` reaching `at` stores a string /
    integer literal (directly or as one component of a tuple store), the choice between them as a conditional expression
    with an opaque test - literal_strs / literal_ints enumerate its branches."""
    from .interproc import reaching
    ds = reaching(c, f).at_ast(at, name)
    vals: list[ast.AST] = []
    for d in ds:
        v = None
        if d.kind == "assign" and d.value is not None:
            v = d.value
        elif d.kind == "unpack" and isinstance(d.stmt, ast.Assign) and len(d.stmt.targets) == 1 \
                and isinstance(d.stmt.targets[0], (ast.Tuple, ast.List)) and isinstance(d.stmt.value, (ast.Tuple, ast.List)) \
                and len(d.stmt.targets[0].elts) == len(d.stmt.value.elts):
            for t, x in zip(d.stmt.targets[0].elts, d.stmt.value.elts):
                if isinstance(t, ast.Name) and t.id == name:
                    v = x
        if v is None or (literal_strs(v) is None and literal_ints(v) is None):
            return None
        vals.append(v)
    if not vals:
        return None
    vals.sort(key=lambda v: (getattr(v, "lineno", 0), getattr(v, "col_offset", 0)))
    acc = vals[-1]
    for v in reversed(vals[:-1]):
        acc = ast.IfExp(test=ast.Name(id="?", ctx=ast.Load()), body=v, orelse=acc)
    return acc


def _post_stores(f: Func, call: ast.Call, ts: TokSite) -> None:
    """Field stores `X.attr = v` that follow `X = push(...)` / `X = Token(...)` in the same block, until X is rebound."""
    par = f.module.parents.get(call)
    if not (isinstance(par, ast.Assign) and par.value is call and len(par.targets) == 1 and isinstance(par.targets[0], ast.Name)):
        return
    name = par.targets[0].id
    ts.receiver = name
    for blk in _blocks(f.node):
        if par in blk:
            for s in blk[blk.index(par) + 1:]:
                if isinstance(s, ast.Assign) and any(isinstance(t, ast.Name) and t.id == name for t in s.targets):
                    break
                if isinstance(s, ast.Assign) and len(s.targets) >= 1:
                    for t in s.targets:
                        if isinstance(t, ast.Attribute) and isinstance(t.value, ast.Name) and t.value.id == name:
                            ts.stores.setdefault(t.attr, s.value)
            break


def _blocks(fn: ast.AST):
    """All statement lists of a function (bodies of compound statements included)."""
    for n in [fn] + list(own_nodes(fn)):
        for fld in ("body", "orelse", "finalbody"):
            b = getattr(n, fld, None)
            if isinstance(b, list) and b and isinstance(b[0], ast.stmt):
                yield b
        if isinstance(n, ast.Try):
            for h in n.handlers:
                yield h.body


def option_read_key(e: ast.AST) -> str | None:
    """If `e` reads a configuration option, return its key:  X.options.K | X.options['K'] | X.options.get('K'[, d]) |
    options.K | options['K'] | options.get('K')."""
    def is_options(b: ast.AST) -> bool:
        return (isinstance(b, ast.Attribute) and b.attr == "options") or (isinstance(b, ast.Name) and b.id == "options")
    if isinstance(e, ast.Attribute) and is_options(e.value):
        return e.attr
    if isinstance(e, ast.Subscript) and is_options(e.value) and isinstance(e.slice, ast.Constant) and isinstance(e.slice.value, str):
        return e.slice.value
    if isinstance(e, ast.Call) and isinstance(e.func, ast.Attribute) and e.func.attr == "get" and is_options(e.func.value) \
            and e.args and isinstance(e.args[0], ast.Constant) and isinstance(e.args[0].value, str):
        return e.args[0].value
    return None


def phase_token_sites(c: Ctx) -> list[TokSite]:
    """Token construction sites of the parse/render phase, without the forwarding constructor calls inside the two push
    methods (their arguments are the push arguments, examined at the push call sites)."""
    phase = c.cg.api_phase()
    out = []
    for ts in token_sites(c):
        if ts.func not in phase:
            continue
        if ts.via == "Token" and ts.func.name == "push" and ts.func.cls in ("StateBlock", "StateInline"):
            continue
        out.append(ts)
    return out
