"""Write-effect extraction, classification by the type of the object written, and may-write summaries of
parameter fields closed over the call graph (used as call transfer functions by the dataflow analyses)."""
from __future__ import annotations

import ast
from dataclasses import dataclass
from typing import Any, Iterable

from .callgraph import CallGraph, CallSite
from .core import Func, Project, U, own_nodes
from .facts import MUTATORS, default_call_kills
from .typefacts import TypeFacts

PERCALL = {"StateBase", "StateCore", "StateBlock", "StateInline", "Token", "Delimiter", "_Result", "Scanned"}
SHARED = {"MarkdownIt", "ParserCore", "ParserBlock", "ParserInline", "Ruler", "Rule", "RendererHTML", "RendererProtocol",
          "OptionsDict"}
FRESH_CALLS = {"list", "dict", "set", "sorted", "reversed", "tuple", "frozenset", "str", "int", "len", "range", "enumerate",
               "zip", "bool", "float"}
FRESH_STR_METHODS = {"split", "rsplit", "splitlines", "copy", "strip", "lower", "upper", "replace", "join", "format",
                     "items", "keys", "values"}


@dataclass
class Effect:
    func: Func
    stmt: ast.AST
    kind: str               # attr-store | sub-store | mut-call | del-attr | del-sub
    obj: ast.AST            # expression denoting the object that is written
    field: str
    category: str = ""
    detail: str = ""

    @property
    def text(self) -> str:
        if self.kind == "mut-call":
            return f"{U(self.obj)}.{self.field}(...)"
        if self.kind in ("attr-store", "del-attr"):
            return f"{U(self.obj)}.{self.field}"
        return f"{U(self.obj)}[...]"

    @property
    def lineno(self) -> int:
        return getattr(self.stmt, "lineno", 0)


def access_path(e: ast.AST) -> list[ast.AST]:
    """[e, its base, the base's base, ..., root]"""
    path = []
    while True:
        path.append(e)
        if isinstance(e, (ast.Attribute, ast.Subscript, ast.Starred)):
            e = e.value
        elif isinstance(e, ast.Call) and isinstance(e.func, ast.Attribute):
            e = e.func.value
        else:
            break
    return path


class Effects:
    def __init__(self, p: Project, tf: TypeFacts, cg: CallGraph) -> None:
        self.p, self.tf, self.cg = p, tf, cg
        self.by_func: dict[Func, list[Effect]] = {}
        self._fresh_ret: dict[Func, bool] = {}
        for f in p.all_funcs():
            self.by_func[f] = self._extract(f)
        for f, effs in self.by_func.items():
            for e in effs:
                e.category, e.detail = self.classify(f, e.obj)
        self.writes: dict[Func, set[tuple[str, str]]] = {}
        self._summarise()

    # ---------------------------------------------------------------- extraction
    def _extract(self, f: Func) -> list[Effect]:
        out: list[Effect] = []

        def store(t: ast.AST, stmt: ast.AST, delete: bool = False) -> None:
            if isinstance(t, (ast.Tuple, ast.List)):
                for e in t.elts:
                    store(e, stmt, delete)
            elif isinstance(t, ast.Starred):
                store(t.value, stmt, delete)
            elif isinstance(t, ast.Attribute):
                out.append(Effect(f, stmt, "del-attr" if delete else "attr-store", t.value, t.attr))
            elif isinstance(t, ast.Subscript):
                out.append(Effect(f, stmt, "del-sub" if delete else "sub-store", t.value, "[]"))

        for n in own_nodes(f.node):
            if isinstance(n, ast.Assign):
                for t in n.targets:
                    store(t, n)
            elif isinstance(n, (ast.AugAssign, ast.AnnAssign)):
                if not (isinstance(n, ast.AnnAssign) and n.value is None):
                    store(n.target, n)
            elif isinstance(n, ast.Delete):
                for t in n.targets:
                    store(t, n, True)
            elif isinstance(n, (ast.For, ast.comprehension)):
                store(n.target, n)
            elif isinstance(n, ast.With):
                for it in n.items:
                    if it.optional_vars is not None:
                        store(it.optional_vars, n)
            elif isinstance(n, ast.NamedExpr):
                store(n.target, n)
            elif isinstance(n, ast.Call) and isinstance(n.func, ast.Attribute) and n.func.attr in MUTATORS:
                # a mutating method name on a repo object that defines that method is an ordinary call, not a container op
                bt = self.tf.scope(f).type(n.func.value)
                if isinstance(bt, str) and bt in self.p.classes and self.p.method(bt, n.func.attr) is not None:
                    continue
                if bt == "str":
                    continue
                out.append(Effect(f, n, "mut-call", n.func.value, n.func.attr))
            elif isinstance(n, ast.Global):
                for name in n.names:
                    out.append(Effect(f, n, "attr-store", ast.Name(id="<module>", ctx=ast.Load()), name))
        out.sort(key=lambda e: (e.lineno, getattr(e.stmt, "col_offset", 0)))
        return out

    # ---------------------------------------------------------------- freshness of locals
    def fresh_expr(self, f: Func, e: ast.AST, seen: frozenset[str] = frozenset()) -> bool:
        if isinstance(e, (ast.List, ast.Dict, ast.Set, ast.ListComp, ast.DictComp, ast.SetComp, ast.Tuple, ast.JoinedStr,
                          ast.GeneratorExp)):
            return True
        if isinstance(e, ast.Constant):
            return True
        if isinstance(e, ast.BinOp):
            return True         # arithmetic / concatenation / repetition build a new object
        if isinstance(e, ast.Subscript) and isinstance(e.slice, ast.Slice):
            return True
        if isinstance(e, ast.IfExp):
            return self.fresh_expr(f, e.body, seen) and self.fresh_expr(f, e.orelse, seen)
        if isinstance(e, ast.BoolOp):
            return all(self.fresh_expr(f, v, seen) for v in e.values)
        if isinstance(e, ast.NamedExpr):
            return self.fresh_expr(f, e.value, seen)
        if isinstance(e, ast.Name):
            if e.id in seen:
                return True
            return self.fresh_local(f, e.id, seen)
        if isinstance(e, ast.Call):
            fn = e.func
            sc = self.tf.scope(f)
            if isinstance(fn, ast.Name) and not sc.is_local(fn.id) and fn.id in FRESH_CALLS:
                return True
            cs = self.cg.site_of.get(e)
            if cs is not None:
                if cs.kind == "ctor":
                    return True
                if cs.callees and cs.kind in ("direct", "method", "param-resolved"):
                    return all(self.returns_fresh(g) for g in cs.callees)
            if isinstance(fn, ast.Attribute) and fn.attr in FRESH_STR_METHODS:
                bt = sc.type(fn.value)
                if bt == "str" or fn.attr == "copy" or (isinstance(bt, tuple) and bt and bt[0] in ("list", "dict", "set")):
                    return True
            if isinstance(fn, ast.Subscript):       # Generic[T](...) constructor
                t = sc.type(fn.value)
                if isinstance(t, tuple) and t and t[0] == "class":
                    return True
        return False

    def fresh_local(self, f: Func, name: str, seen: frozenset[str] = frozenset()) -> bool:
        """Is every binding of local `name` a freshly built object (so writes through it touch per-call data only)?"""
        sc = self.tf.scope(f)
        if not sc.is_local(name) or name in {a.arg for a in f.node.args.args + f.node.args.kwonlyargs + f.node.args.posonlyargs}:
            return False
        vals: list[ast.AST] = []
        for n in own_nodes(f.node):
            if isinstance(n, ast.Name) and n.id == name and isinstance(n.ctx, ast.Store):
                par = f.module.parents.get(n)
                if isinstance(par, ast.Assign) and n in par.targets:
                    vals.append(par.value)
                elif isinstance(par, ast.AnnAssign) and par.target is n:
                    if par.value is not None:
                        vals.append(par.value)
                elif isinstance(par, ast.AugAssign):
                    continue
                else:
                    return False
        if not vals:
            return False
        return all(self.fresh_expr(f, v, seen | {name}) for v in vals)

    def fresh_at(self, f: Func, name: str, at: ast.AST) -> bool:
        """Flow-sensitive freshness: every definition of local `name` that reaches `at` binds a freshly built object."""
        from .cfg import CFG
        from .reach import Reaching
        cache = self.__dict__.setdefault("_rd_cache", {})
        if f not in cache:
            cache[f] = Reaching(CFG(f.node))
        ds = cache[f].at_ast(at, name)
        if not ds:
            return False
        return all(d.kind == "assign" and d.value is not None and self.fresh_expr(f, d.value, frozenset({name})) for d in ds)

    def returns_fresh(self, g: Func) -> bool:
        if g in self._fresh_ret:
            return self._fresh_ret[g]
        self._fresh_ret[g] = False          # recursion guard
        rets = [n.value for n in own_nodes(g.node) if isinstance(n, ast.Return) and n.value is not None]
        ok = bool(rets) and all(self.fresh_expr(g, r) for r in rets)
        self._fresh_ret[g] = ok
        return ok

    # ---------------------------------------------------------------- classification
    def classify(self, f: Func, obj: ast.AST, _depth: int = 0) -> tuple[str, str]:
        sc = self.tf.scope(f)
        path = access_path(obj)
        kinds: list[str] = []
        for pth in path:
            t = sc.type(pth)
            kinds.append(self._kind_of_type(t))
        root = path[-1]
        for k in kinds:
            if k.startswith("shared"):
                return k, "/".join(kinds)
        if isinstance(root, ast.Name):
            nm = root.id
            if nm == "<module>":
                return "global:<module>", "global statement"
            if not sc.is_local(nm):
                return "global:" + nm, "/".join(kinds)
        if "env" in kinds:
            return "env", "/".join(kinds)
        if "percall" in kinds:
            # a per-call *type* held by a shared object is shared all the same: follow the bindings of a local root
            if isinstance(root, ast.Name) and _depth < 5 and sc.is_local(root.id):
                for s_ in self.binding_sources(f, root.id):
                    if isinstance(s_, (ast.Attribute, ast.Subscript)):
                        cat, det = self.classify(f, s_, _depth + 1)
                        if cat.startswith(("shared", "global")):
                            return cat, "via binding: " + det
            return "percall", "/".join(kinds)
        if isinstance(root, ast.Name) and self.fresh_local(f, root.id):
            return "local", "/".join(kinds)
        if isinstance(root, ast.Call) and self.fresh_expr(f, root):
            return "local", "/".join(kinds)
        if kinds[0] == "scalar":
            return "scalar", "/".join(kinds)
        # a container parameter (tokens: list[Token]) is whatever the callers pass for it
        if isinstance(root, ast.Name) and root.id in self._params(f) and _depth < 4 and (
                "container" in kinds or any(k.startswith("class:") for k in kinds)):
            cats = []
            for cs in self.cg.callers.get(f, []):
                arg = self.arg_for_param(cs, f, root.id)
                if arg is None:
                    continue
                parts = list(arg.values) if isinstance(arg, ast.BoolOp) else ([arg.body, arg.orelse] if isinstance(arg, ast.IfExp) else [arg])
                for part in parts:
                    if cs.caller is f:
                        rt_ = access_path(part)[-1]
                        if isinstance(rt_, ast.Name) and rt_.id == root.id:
                            continue          # recursion on a part of the same structure
                    if self.fresh_expr(cs.caller, part):
                        cats.append("local")
                    else:
                        cats.append(self.classify(cs.caller, part, _depth + 1)[0])
            if cats and not any(x.startswith(("shared", "global", "unknown")) for x in cats):
                for pref in ("env", "percall", "local", "scalar"):
                    if pref in cats:
                        return pref, "via call sites: " + "/".join(cats)
        # root ownership through the bindings of a local alias (cache = state.cache; for tok in state.tokens: ...)
        if isinstance(root, ast.Name) and _depth < 5:
            srcs = self.binding_sources(f, root.id)
            if srcs:
                cats = []
                for s_ in srcs:
                    if self.fresh_expr(f, s_):
                        cats.append("local")
                    else:
                        cats.append(self.classify(f, s_, _depth + 1)[0])
                for bad in cats:
                    if bad.startswith(("shared", "global", "unknown")):
                        return bad, "via binding: " + "/".join(cats)
                for pref in ("env", "percall", "local", "scalar"):
                    if pref in cats:
                        return pref, "via binding: " + "/".join(cats)
        return "unknown", "/".join(kinds)

    def binding_sources(self, f: Func, name: str) -> list[ast.AST]:
        """Expressions a local may be bound from (assigned values; iterated expressions for loop targets)."""
        if name in {a.arg for a in f.node.args.args + f.node.args.kwonlyargs + f.node.args.posonlyargs}:
            return []
        out: list[ast.AST] = []
        for n in own_nodes(f.node):
            if isinstance(n, ast.Name) and n.id == name and isinstance(n.ctx, ast.Store):
                par = f.module.parents.get(n)
                if isinstance(par, ast.Assign) and n in par.targets:
                    out.append(par.value)
                elif isinstance(par, ast.AnnAssign) and par.target is n and par.value is not None:
                    out.append(par.value)
                elif isinstance(par, (ast.For, ast.comprehension)) and par.target is n:
                    it = par.iter
                    if isinstance(it, ast.Call) and isinstance(it.func, ast.Name) and it.func.id in ("reversed", "sorted", "list", "iter") and it.args:
                        it = it.args[0]
                    out.append(it)
                elif isinstance(par, ast.Tuple):
                    gp = f.module.parents.get(par)
                    if isinstance(gp, (ast.For, ast.comprehension)) and isinstance(gp.iter, ast.Call) and isinstance(gp.iter.func, ast.Name) \
                            and gp.iter.func.id == "enumerate" and gp.iter.args and par.elts and par.elts[-1] is n:
                        out.append(gp.iter.args[0])
                    else:
                        return []
                elif isinstance(par, ast.NamedExpr):
                    out.append(par.value)
                elif isinstance(par, ast.AugAssign):
                    continue
                else:
                    return []
        return out

    def _kind_of_type(self, t: Any) -> str:
        if t == "Env":
            return "env"
        if isinstance(t, str):
            if t.split("@")[0] in SHARED:
                return "shared:" + t
            if t.split("@")[0] in PERCALL:
                return "percall"
            if t in ("str", "int", "bool", "float", "NoneType", "bytes"):
                return "scalar"
            if t in self.p.classes:
                return "class:" + t
            return "?"
        if isinstance(t, tuple) and t:
            if t[0] in ("list", "dict", "set", "tuple"):
                return "container"
            if t[0] == "module":
                return "shared:module"
            if t[0] == "class":
                return "shared:class"
            if t[0] == "union":
                ks = [self._kind_of_type(x) for x in t[1]]
                for k in ks:
                    if k.startswith("shared"):
                        return k
                return ks[0] if ks else "?"
            if t[0] == "external":
                return "external"
        return "?"

    # ---------------------------------------------------------------- may-write summaries
    @staticmethod
    def _params(f: Func) -> list[str]:
        a = f.node.args
        return [x.arg for x in a.posonlyargs + a.args + a.kwonlyargs]

    @staticmethod
    def root_and_field(obj: ast.AST, field: str) -> tuple[str, str] | None:
        """(root name, first attribute below the root on the way to the written cell)."""
        path = access_path(obj)
        root = path[-1]
        if not isinstance(root, ast.Name):
            return None
        if len(path) == 1:
            return (root.id, field if field not in ("[]",) and not field.endswith(")") else "*")
        first = path[-2]
        if isinstance(first, ast.Attribute):
            return (root.id, first.attr)
        return (root.id, "*")

    def _summarise(self) -> None:
        for f, effs in self.by_func.items():
            w: set[tuple[str, str]] = set()
            params = set(self._params(f))
            for e in effs:
                fld = e.field if e.kind != "mut-call" else e.field + "()"
                rf = self.root_and_field(e.obj, fld)
                if rf is not None and rf[0] in params:
                    w.add((rf[0], rf[1] if e.kind in ("attr-store", "del-attr") or len(access_path(e.obj)) > 1 else "*"))
            self.writes[f] = w
        changed = True
        rounds = 0
        while changed and rounds < 50:
            changed = False
            rounds += 1
            for f in self.p.all_funcs():
                params = set(self._params(f))
                w = self.writes[f]
                for cs in self.cg.sites.get(f, []):
                    for (root, fld) in self.site_writes(cs):
                        if root in params and (root, fld) not in w:
                            w.add((root, fld))
                            changed = True

    def arg_for_param(self, cs: CallSite, g: Func, pname: str) -> ast.AST | None:
        params = self._params(g)
        if pname not in params:
            return None
        idx = params.index(pname)
        call = cs.node
        bound_self = g.cls is not None and g.outer is None and "staticmethod" not in g.decorators \
            and cs.kind in ("method", "ctor", "render-dispatch")
        if bound_self:
            if idx == 0:
                if cs.kind == "ctor":
                    return None       # the fresh object
                return call.func.value if isinstance(call.func, ast.Attribute) else None
            idx -= 1
        for k in call.keywords:
            if k.arg == pname:
                return k.value
        if idx < len(call.args) and not any(isinstance(a, ast.Starred) for a in call.args[: idx + 1]):
            return call.args[idx]
        return None

    def site_writes(self, cs: CallSite) -> set[tuple[str, str]]:
        """Writes of a call site expressed on the caller's names: (root name, first field or '*')."""
        out: set[tuple[str, str]] = set()
        for g in cs.callees:
            for (pname, fld) in self.writes.get(g, ()):
                arg = self.arg_for_param(cs, g, pname)
                if arg is None:
                    continue
                path = access_path(arg)
                root = path[-1]
                if not isinstance(root, ast.Name):
                    continue
                if len(path) == 1:
                    out.add((root.id, fld))
                else:
                    first = path[-2]
                    out.add((root.id, first.attr if isinstance(first, ast.Attribute) else "*"))
        return out

    def site_writes_of(self, cs: CallSite, g: Func) -> set[tuple[str, str]]:
        """Like site_writes, for one callee of the site."""
        out: set[tuple[str, str]] = set()
        for (pname, fld) in self.writes.get(g, ()):
            arg = self.arg_for_param(cs, g, pname)
            if arg is None:
                continue
            path = access_path(arg)
            root = path[-1]
            if not isinstance(root, ast.Name):
                continue
            if len(path) == 1:
                out.add((root.id, fld))
            else:
                first = path[-2]
                out.add((root.id, first.attr if isinstance(first, ast.Attribute) else "*"))
        return out

    def call_kills(self, f: Func):
        """Call transfer function for the facts analysis of `f`: access paths a call may write."""
        def kills(c: ast.Call) -> Iterable[str]:
            cs = self.cg.site_of.get(c)
            if cs is None or cs.kind == "unknown":
                return default_call_kills(c)
            if cs.kind in ("external", "param"):
                if cs.kind == "param":
                    return default_call_kills(c)
                return ()
            out = []
            for g in cs.callees:
                for (pname, fld) in self.writes.get(g, ()):
                    arg = self.arg_for_param(cs, g, pname)
                    if arg is None:
                        continue
                    base = U(arg)
                    out.append(base if fld == "*" else f"{base}.{fld}")
            return out
        return kills
