"""Helpers that make intraprocedural rules robust to extract-function / introduce-local refactorings:
`actuals` (what callers pass for a parameter) and `expand` (inline single-definition locals into an expression)."""
from __future__ import annotations

import ast
import copy
from typing import Any

from .core import Func
from .ctx import Ctx
from .reach import Reaching

U = ast.unparse


def actuals(c: Ctx, f: Func, pname: str) -> list[tuple[Func, ast.AST, Any]]:
    """[(caller, actual argument expression, call site)] for parameter `pname` of f over all resolved call sites."""
    out = []
    for cs in c.cg.callers.get(f, []):
        a = c.eff.arg_for_param(cs, f, pname)
        if a is not None:
            out.append((cs.caller, a, cs))
    return out


def reaching(c: Ctx, f: Func) -> Reaching:
    cache = c.__dict__.setdefault("_reaching", {})
    if f not in cache:
        cache[f] = Reaching(c.cfg(f))
    return cache[f]


def expand(c: Ctx, f: Func, e: ast.AST, at: ast.AST, depth: int = 3) -> ast.AST:
    """Copy of e in which every local name that has exactly one reaching definition at `at`, a plain assignment of a
    call-free expression, is replaced by that expression (recursively, bounded)."""
    if depth <= 0:
        return e
    rd = reaching(c, f)

    class X(ast.NodeTransformer):
        def visit_Name(self, node: ast.Name) -> ast.AST:
            if not isinstance(node.ctx, ast.Load):
                return node
            ds = rd.at_ast(at, node.id)
            if len(ds) != 1:
                return node
            d = next(iter(ds))
            if d.kind != "assign" or d.value is None or any(isinstance(x, (ast.Call, ast.NamedExpr, ast.Await, ast.Yield)) for x in ast.walk(d.value)):
                return node
            if isinstance(d.stmt, ast.Assign) and not all(isinstance(t, ast.Name) for t in d.stmt.targets):
                return node
            if isinstance(d.value, (ast.Dict, ast.List, ast.Set, ast.Tuple, ast.ListComp, ast.DictComp, ast.SetComp, ast.GeneratorExp)):
                return node          # a (mutable) container object: the name denotes the object, not its initial literal
            inner = expand(c, f, d.value, d.stmt, depth - 1)
            return copy.deepcopy(inner)
    return X().visit(copy.deepcopy(e))


def record_fields(c: Ctx, m, call: ast.AST) -> list[ast.AST] | None:
    """If `call` constructs a NamedTuple / dataclass-like record class of the project with positional / keyword arguments: the
    argument expressions in field order."""
    if not (isinstance(call, ast.Call) and isinstance(call.func, (ast.Name, ast.Attribute))):
        return None
    r = c.p.resolve(m, call.func)
    node = getattr(r, "node", None)
    if not isinstance(node, ast.ClassDef):
        return None
    order = [s.target.id for s in node.body if isinstance(s, ast.AnnAssign) and isinstance(s.target, ast.Name)]
    if not order or any(isinstance(a, ast.Starred) for a in call.args) or any(k.arg is None for k in call.keywords):
        return None
    vals: dict[str, ast.AST] = {}
    for fld, a in zip(order, call.args):
        vals[fld] = a
    for k in call.keywords:
        vals[k.arg] = k.value          # type: ignore[index]
    if set(vals) != set(order):
        return None
    return [vals[fld] for fld in order]


def unpack_sources(c: Ctx, f: Func, name: str, stmt: ast.AST, depth: int = 0) -> list[tuple[Func, ast.AST, ast.AST]] | None:
    """For `..., name, ... = <value>` (stmt): the expressions that can flow into `name` - components of tuple displays / record
    constructors, followed through a single-definition local and through the returns of a directly called helper (a `None`
    return is skipped: the caller must have tested for it).  -> [(function, expression, statement it stands in)] or None."""
    if depth > 3 or not (isinstance(stmt, ast.Assign) and len(stmt.targets) == 1 and isinstance(stmt.targets[0], (ast.Tuple, ast.List))):
        return None
    tg = stmt.targets[0].elts
    ks = [i for i, t in enumerate(tg) if isinstance(t, ast.Name) and t.id == name]
    if len(ks) != 1 or any(isinstance(t, ast.Starred) for t in tg):
        return None
    k, n = ks[0], len(tg)

    def comps(g: Func, v: ast.AST, at: ast.AST, d: int) -> list[tuple[Func, ast.AST, ast.AST]] | None:
        if d > 3:
            return None
        if isinstance(v, (ast.Tuple, ast.List)) and len(v.elts) == n:
            return [(g, v.elts[k], at)]
        rf = record_fields(c, g.module, v)
        if rf is not None and len(rf) == n:
            return [(g, rf[k], at)]
        if isinstance(v, ast.IfExp):
            a, b = comps(g, v.body, at, d + 1), comps(g, v.orelse, at, d + 1)
            return None if a is None or b is None else a + b
        if isinstance(v, ast.Name):
            ds = reaching(c, g).at_ast(at, v.id)
            out: list[tuple[Func, ast.AST, ast.AST]] = []
            for dd in ds:
                if dd.kind != "assign" or dd.value is None:
                    return None
                r_ = comps(g, dd.value, dd.stmt, d + 1)
                if r_ is None:
                    return None
                out += r_
            return out or None
        if isinstance(v, ast.Call):
            cs = c.cg.site_of.get(v)
            if cs is None or len(cs.callees) != 1 or cs.kind not in ("direct", "method"):
                return None
            h = cs.callees[0]
            out2: list[tuple[Func, ast.AST, ast.AST]] = []
            from .core import own_nodes
            rets = [x for x in own_nodes(h.node) if isinstance(x, ast.Return)]
            if not rets:
                return None
            for rt in rets:
                if rt.value is None or (isinstance(rt.value, ast.Constant) and rt.value.value is None):
                    continue
                r_ = comps(h, rt.value, rt, d + 1)
                if r_ is None:
                    return None
                out2 += r_
            return out2 or None
        return None
    return comps(f, stmt.value, stmt, depth)
