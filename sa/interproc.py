"""Helpers that make intraprocedural rules robust to extract-function / introduce-local refactorings:
`actuals` (what callers pass for a parameter) and `expand` (inline single-definition locals into an expression)."""
from __future__ import annotations

import ast
import copy
from typing import Any

from .core import Func
from .ctx import Ctx
from .reach import Reaching

U = ast.unparse


def actuals(c: Ctx, f: Func, pname: str) -> list[tuple[Func, ast.AST, Any]]:
    """[(caller, actual argument expression, call site)] for parameter `pname` of f over all resolved call sites."""
    out = []
    for cs in c.cg.callers.get(f, []):
        a = c.eff.arg_for_param(cs, f, pname)
        if a is not None:
            out.append((cs.caller, a, cs))
    return out


def reaching(c: Ctx, f: Func) -> Reaching:
    cache = c.__dict__.setdefault("_reaching", {})
    if f not in cache:
        cache[f] = Reaching(c.cfg(f))
    return cache[f]


def expand(c: Ctx, f: Func, e: ast.AST, at: ast.AST, depth: int = 3) -> ast.AST:
    """Copy of e in which every local name that has exactly one reaching definition at `at`, a plain assignment of a
    call-free expression, is replaced by that expression (recursively, bounded)."""
    if depth <= 0:
        return e
    rd = reaching(c, f)

    class X(ast.NodeTransformer):
        def visit_Name(self, node: ast.Name) -> ast.AST:
            if not isinstance(node.ctx, ast.Load):
                return node
            ds = rd.at_ast(at, node.id)
            if len(ds) != 1:
                return node
            d = next(iter(ds))
            if d.kind != "assign" or d.value is None or any(isinstance(x, (ast.Call, ast.NamedExpr, ast.Await, ast.Yield)) for x in ast.walk(d.value)):
                return node
            if isinstance(d.stmt, ast.Assign) and not all(isinstance(t, ast.Name) for t in d.stmt.targets):
                return node
            if isinstance(d.value, (ast.Dict, ast.List, ast.Set, ast.Tuple, ast.ListComp, ast.DictComp, ast.SetComp, ast.GeneratorExp)):
                return node          # a (mutable) container object: the name denotes the object, not its initial literal
            inner = expand(c, f, d.value, d.stmt, depth - 1)
            return copy.deepcopy(inner)
    return X().visit(copy.deepcopy(e))
