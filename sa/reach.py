"""Reaching definitions of local names over the CFG (may analysis, union join).

A definition is identified by the CFG node that performs it; `Def.value` is the assigned expression when the binding
is a plain / annotated / augmented assignment or a walrus, otherwise None (loop target, with-target, unpacking,
exception name, parameter)."""
from __future__ import annotations

import ast
from dataclasses import dataclass
from typing import Any

from .cfg import CFG, Node
from .dataflow import Problem, solve


@dataclass(frozen=True)
class Def:
    name: str
    node_id: int            # -1: parameter / entry value
    kind: str               # param | assign | aug | for | with | unpack | except | walrus | def | import
    value: Any = None       # ast expression or None
    stmt: Any = None

    def __repr__(self) -> str:
        v = ast.unparse(self.value) if isinstance(self.value, ast.AST) else ""
        return f"<Def {self.name}@{self.node_id}:{self.kind} {v[:40]}>"


def _targets(t: ast.AST, kind: str, value: Any, stmt: Any, nid: int, out: list[Def]) -> None:
    if isinstance(t, ast.Name):
        out.append(Def(t.id, nid, kind, value, stmt))
    elif isinstance(t, (ast.Tuple, ast.List)):
        for e in t.elts:
            _targets(e, "unpack", None, stmt, nid, out)
    elif isinstance(t, ast.Starred):
        _targets(t.value, "unpack", None, stmt, nid, out)


def defs_at(n: Node) -> list[Def]:
    """Definitions of local names performed by CFG node n."""
    out: list[Def] = []
    a = n.ast
    if a is None:
        return out
    if n.kind == "stmt":
        if isinstance(a, ast.Assign):
            for t in a.targets:
                _targets(t, "assign", a.value, a, n.id, out)
        elif isinstance(a, ast.AnnAssign):
            if a.value is not None:
                _targets(a.target, "assign", a.value, a, n.id, out)
        elif isinstance(a, ast.AugAssign):
            _targets(a.target, "aug", a.value, a, n.id, out)
        elif isinstance(a, (ast.FunctionDef, ast.AsyncFunctionDef, ast.ClassDef)):
            out.append(Def(a.name, n.id, "def", None, a))
        elif isinstance(a, (ast.Import, ast.ImportFrom)):
            for al in a.names:
                out.append(Def((al.asname or al.name).split(".")[0], n.id, "import", None, a))
    elif n.kind == "for":
        _targets(a.target, "for", None, a, n.id, out)           # type: ignore[attr-defined]
    elif n.kind == "with":
        for it in a.items:                                      # type: ignore[attr-defined]
            if it.optional_vars is not None:
                _targets(it.optional_vars, "with", None, a, n.id, out)
    elif n.kind == "except":
        if getattr(a, "name", None):
            out.append(Def(a.name, n.id, "except", None, a))     # type: ignore[attr-defined]
    # walrus anywhere in the node's own expressions
    for root in CFG.roots(n):
        for e in ast.walk(root):
            if isinstance(e, ast.NamedExpr) and isinstance(e.target, ast.Name):
                out.append(Def(e.target.id, n.id, "walrus", e.value, e))
    return out


class _RD(Problem):
    def __init__(self, cfg: CFG, params: list[str]) -> None:
        self.cfg, self.params = cfg, params
        self.gen: dict[int, list[Def]] = {n.id: defs_at(n) for n in cfg.nodes}

    def entry_state(self) -> dict:
        return {p: frozenset([Def(p, -1, "param")]) for p in self.params}

    def join(self, a: dict, b: dict, at: Node) -> dict:
        out = dict(a)
        for k, v in b.items():
            out[k] = out[k] | v if k in out else v
        return out

    def edge(self, n: Node, state: dict, label: str, succ: Node) -> dict | None:
        g = self.gen.get(n.id)
        if not g:
            return state
        if n.kind == "for" and label != "iter":
            return state
        st = dict(state)
        if label == "exc":
            # the definition may or may not have happened
            for d in g:
                st[d.name] = st.get(d.name, frozenset()) | frozenset([d])
            return st
        for d in g:
            if d.kind == "aug":
                st[d.name] = frozenset([d])
            else:
                st[d.name] = frozenset([d])
        return st


class Reaching:
    def __init__(self, cfg: CFG) -> None:
        fn = cfg.fn
        a = fn.args
        params = [x.arg for x in a.posonlyargs + a.args + a.kwonlyargs]
        if a.vararg:
            params.append(a.vararg.arg)
        if a.kwarg:
            params.append(a.kwarg.arg)
        self.cfg = cfg
        self.params = params
        self.IN = solve(cfg, _RD(cfg, params), widen_after=10**9)

    def at(self, n: Node, name: str) -> frozenset:
        st = self.IN.get(n.id)
        if st is None:
            return frozenset()
        return st.get(name, frozenset())

    def at_ast(self, node: ast.AST, name: str) -> frozenset:
        out: frozenset = frozenset()
        for n in self.cfg.owner(node):
            out = out | self.at(n, name)
        return out

    def all_defs(self, name: str) -> list[Def]:
        out: list[Def] = []
        if name in self.params:
            out.append(Def(name, -1, "param"))
        for n in self.cfg.nodes:
            for d in defs_at(n):
                if d.name == name:
                    out.append(d)
        return out
