"""Whole-program call graph: direct calls, methods through type facts, property accessors, function values
passed around, and the *registry-indirect* edges (rule dispatch through `Ruler.getRules`, render-rule dispatch
through `self.rules[...]`)."""
from __future__ import annotations

import ast
from dataclasses import dataclass, field
from typing import Any

from .core import AnchorError, ClassInfo, Func, Project, Registries, U, own_nodes
from .typefacts import TypeFacts

RULER_OF = {("ParserCore", "ruler"): "core", ("ParserBlock", "ruler"): "block", ("ParserInline", "ruler"): "inline",
            ("ParserInline", "ruler2"): "inline2"}

API_ENTRIES = ["main.py:MarkdownIt.parse", "main.py:MarkdownIt.render", "main.py:MarkdownIt.parseInline",
               "main.py:MarkdownIt.renderInline"]


@dataclass
class CallSite:
    caller: Func
    node: ast.Call
    callees: list[Func] = field(default_factory=list)
    kind: str = "direct"         # direct | method | ctor | dispatch:<chain>:<alt> | render-dispatch | external | unknown | param
    detail: str = ""


class CallGraph:
    def __init__(self, p: Project, tf: TypeFacts, reg: Registries) -> None:
        self.p, self.tf, self.reg = p, tf, reg
        self.sites: dict[Func, list[CallSite]] = {}
        self.site_of: dict[ast.Call, CallSite] = {}
        self.refs: dict[Func, set[Func]] = {}          # function values referenced (not called) / property accessors
        self.edges: dict[Func, set[Func]] = {}
        self.callers: dict[Func, list[CallSite]] = {}
        for f in p.all_funcs():
            self._scan(f)
        self._resolve_param_calls()
        self._resolve_param_dispatch()
        for f in p.all_funcs():
            es: set[Func] = set(self.refs.get(f, ()))
            for cs in self.sites.get(f, []):
                es.update(cs.callees)
            self.edges[f] = es
        for f, sites in self.sites.items():
            for cs in sites:
                for g in cs.callees:
                    self.callers.setdefault(g, []).append(cs)

    # ---------------------------------------------------------------- helpers
    def single_def(self, f: Func, name: str) -> ast.AST | None:
        """Value expression of local `name` if it is assigned exactly once by a plain assignment."""
        vals = []
        for n in own_nodes(f.node):
            if isinstance(n, ast.Name) and n.id == name and isinstance(n.ctx, ast.Store):
                par = f.module.parents.get(n)
                if isinstance(par, ast.Assign) and len(par.targets) == 1 and par.targets[0] is n:
                    vals.append(par.value)
                elif isinstance(par, ast.AnnAssign) and par.target is n and par.value is not None:
                    vals.append(par.value)
                else:
                    return None
        return vals[0] if len(vals) == 1 else None

    def _iter_source(self, f: Func, name: str) -> ast.AST | None:
        """If `name` is bound only as the target of for-loops / comprehensions, return the iterated expression."""
        its = []
        for n in own_nodes(f.node):
            if isinstance(n, ast.Name) and n.id == name and isinstance(n.ctx, ast.Store):
                par = f.module.parents.get(n)
                if isinstance(par, (ast.For, ast.comprehension)) and par.target is n:
                    its.append(par.iter)
                else:
                    return None
        if its and all(U(i) == U(its[0]) for i in its):
            return its[0]
        return None

    def ruler_chain_of(self, f: Func, e: ast.AST, depth: int = 0) -> tuple[str, str] | None:
        """If `e` evaluates to the result of  <ruler>.getRules(<lit>)  return (chain, alt)."""
        if depth > 4:
            return None
        if isinstance(e, ast.Name):
            d = self.single_def(f, e.id)
            return self.ruler_chain_of(f, d, depth + 1) if d is not None else None
        if isinstance(e, ast.Call) and isinstance(e.func, ast.Attribute) and e.func.attr == "getRules":
            chain = self.ruler_of(f, e.func.value)
            if chain is None:
                return None
            if len(e.args) == 1 and isinstance(e.args[0], ast.Constant) and isinstance(e.args[0].value, str):
                return (chain, e.args[0].value)
            return (chain, "*")
        return None

    def ruler_of(self, f: Func, e: ast.AST, depth: int = 0) -> str | None:
        """Which of the four rulers does expression `e` denote?"""
        if depth > 4:
            return None
        if isinstance(e, ast.Name):
            d = self.single_def(f, e.id)
            return self.ruler_of(f, d, depth + 1) if d is not None else None
        if isinstance(e, ast.Attribute):
            bt = self.tf.scope(f).type(e.value)
            if isinstance(bt, str):
                return RULER_OF.get((bt, e.attr))
        return None

    # ---------------------------------------------------------------- scanning
    def _scan(self, f: Func) -> None:
        sc = self.tf.scope(f)
        sites: list[CallSite] = []
        refs: set[Func] = set()
        m = f.module
        callfuncs = set()
        for n in own_nodes(f.node):
            if isinstance(n, ast.Call):
                callfuncs.add(n.func)
                cs = self._resolve_call(f, sc, n)
                sites.append(cs)
                self.site_of[n] = cs
        for n in own_nodes(f.node):
            if n in callfuncs:
                continue
            if isinstance(n, (ast.Name, ast.Attribute)) and isinstance(getattr(n, "ctx", None), ast.Load):
                par = m.parents.get(n)
                if isinstance(par, ast.Attribute) and par.value is n:
                    # part of a longer path; the longer path is examined on its own
                    pass
                t = sc.type(n) if not isinstance(n, ast.Name) or not sc.is_local(n.id) else None
                if isinstance(t, tuple) and t and t[0] == "func":
                    refs.add(t[1])
            if isinstance(n, ast.Attribute):
                bt = sc.type(n.value)
                for cname in self._class_names(bt):
                    for ci in self.p.mro(cname):
                        if isinstance(n.ctx, ast.Load) and n.attr in ci.methods and ci.methods[n.attr].is_property:
                            refs.add(ci.methods[n.attr])
                            break
                        if isinstance(n.ctx, (ast.Store, ast.Del)) and n.attr in ci.setters:
                            refs.add(ci.setters[n.attr])
                            break
        inners = {inner.name: inner for inner in self.p.all_funcs() if inner.outer is f}
        if inners:
            # a nested def used as a value (passed as callback, returned) or called by name is reachable from f
            for n in own_nodes(f.node):
                if isinstance(n, ast.Name) and isinstance(n.ctx, ast.Load) and n.id in inners:
                    refs.add(inners[n.id])
        self.sites[f] = sites
        self.refs[f] = refs

    @staticmethod
    def _class_names(bt: Any) -> list[str]:
        if isinstance(bt, str):
            return [bt]
        if isinstance(bt, tuple) and bt and bt[0] == "union":
            return [t for t in bt[1] if isinstance(t, str)]
        return []

    def _with_overrides(self, g: Func) -> list[Func]:
        """Class-hierarchy analysis: a method call may land in any override in a repo subclass."""
        out = [g]
        if g.cls and g.outer is None:
            for ci in self.p.classes.values():
                if ci.name != g.cls and any(c.name == g.cls for c in self.p.mro(ci.name)):
                    o = ci.methods.get(g.name)
                    if o is not None and o not in out:
                        out.append(o)
        return out

    def _ctor(self, ci: ClassInfo) -> list[Func]:
        out = []
        for name in ("__init__", "__post_init__", "__new__"):
            g = self.p.method(ci.name, name)
            if g is not None:
                out.append(g)
        return out

    def _resolve_call(self, f: Func, sc, n: ast.Call) -> CallSite:
        fn = n.func
        cs = CallSite(f, n)
        # --- registry-indirect dispatch: rule(state, ...) / terminatorRules[i](...)
        src = None
        if isinstance(fn, ast.Name) and sc.is_local(fn.id):
            it = self._iter_source(f, fn.id)
            if it is not None:
                src = it
        elif isinstance(fn, ast.Subscript):
            src = fn.value
        if src is not None:
            rc = self.ruler_chain_of(f, src)
            if rc is not None:
                chain, alt = rc
                regs = self.reg.rules[chain] if alt == "*" else self.reg.chain_members(chain, alt)
                cs.callees = [r.func for r in regs]
                cs.kind = f"dispatch:{chain}:{alt}"
                return cs
            # renderer rule table   self.rules[token.type](...)
            if isinstance(fn, ast.Subscript) and isinstance(fn.value, ast.Attribute) and fn.value.attr == "rules":
                bt = sc.type(fn.value.value)
                if bt == "RendererHTML":
                    cs.callees = list(self.reg.render_rules.values())
                    cs.kind = "render-dispatch"
                    return cs
        # rule = self.rules[kind] / self.rules.get(kind); rule(tokens, idx, options, env)
        def is_rule_lookup(d: ast.AST) -> bool:
            if isinstance(d, ast.Subscript) and isinstance(d.value, ast.Attribute) and d.value.attr == "rules":
                return sc.type(d.value.value) == "RendererHTML"
            if isinstance(d, ast.Call) and isinstance(d.func, ast.Attribute) and d.func.attr == "get" and isinstance(d.func.value, ast.Attribute) \
                    and d.func.value.attr == "rules":
                return sc.type(d.func.value.value) == "RendererHTML"
            return False

        def rule_getter(d: ast.AST) -> list[Func] | None:
            """d = self.<getter>(...) where every return of the getter is a lookup in the rule table or a bound method of the
            renderer (the default): the extra methods it can hand out, or None."""
            if not (isinstance(d, ast.Call) and isinstance(d.func, ast.Attribute) and isinstance(d.func.value, ast.Name) and f.cls
                    and f.node.args.args and d.func.value.id == f.node.args.args[0].arg):
                return None
            g = self.p.method(f.cls, d.func.attr)
            if g is None or g is f:
                return None
            gsc = self.tf.scope(g)
            selfn = g.node.args.args[0].arg if g.node.args.args else "self"
            rets = [x.value for x in own_nodes(g.node) if isinstance(x, ast.Return) and x.value is not None]
            extra: list[Func] = []
            seen_lookup = False
            for rv in rets:
                alts = [rv.body, rv.orelse] if isinstance(rv, ast.IfExp) else [rv]
                for a_ in alts:
                    if (isinstance(a_, ast.Subscript) and isinstance(a_.value, ast.Attribute) and a_.value.attr == "rules"
                            and gsc.type(a_.value.value) == "RendererHTML") or \
                            (isinstance(a_, ast.Call) and isinstance(a_.func, ast.Attribute) and a_.func.attr == "get"
                             and isinstance(a_.func.value, ast.Attribute) and a_.func.value.attr == "rules"):
                        seen_lookup = True
                        if isinstance(a_, ast.Call) and len(a_.args) == 2 and isinstance(a_.args[1], ast.Attribute) \
                                and isinstance(a_.args[1].value, ast.Name) and a_.args[1].value.id == selfn:
                            m_ = self.p.method(g.cls, a_.args[1].attr)
                            if m_ is not None:
                                extra.append(m_)
                    elif isinstance(a_, ast.Attribute) and isinstance(a_.value, ast.Name) and a_.value.id == selfn:
                        m_ = self.p.method(g.cls, a_.attr)
                        if m_ is None:
                            return None
                        extra.append(m_)
                    else:
                        return None
            return extra if seen_lookup else None
        if isinstance(fn, ast.Call):
            ex = rule_getter(fn)
            if ex is not None:
                cs.callees = list(dict.fromkeys(list(self.reg.render_rules.values()) + ex))
                cs.kind = "render-dispatch"
                return cs
        def lookup_alts(d: ast.AST) -> list[Func] | None:
            """d is a rule lookup, a rule getter, a bound method of the renderer (the default renderer), or a conditional / `or`
            expression over those, with at least one lookup: the extra methods it can denote, or None."""
            selfn_ = f.node.args.args[0].arg if f.node.args.args else "self"
            parts = [d.body, d.orelse] if isinstance(d, ast.IfExp) else list(d.values) if isinstance(d, ast.BoolOp) and isinstance(d.op, ast.Or) else [d]
            extra_: list[Func] = []
            seen = False
            for a_ in parts:
                if is_rule_lookup(a_):
                    seen = True
                    if isinstance(a_, ast.Call) and len(a_.args) == 2 and isinstance(a_.args[1], ast.Attribute) and isinstance(a_.args[1].value, ast.Name) \
                            and a_.args[1].value.id == selfn_ and f.cls:
                        m_ = self.p.method(f.cls, a_.args[1].attr)
                        if m_ is not None:
                            extra_.append(m_)
                elif rule_getter(a_) is not None:
                    seen = True
                    extra_ += rule_getter(a_) or []
                elif isinstance(a_, ast.Attribute) and isinstance(a_.value, ast.Name) and a_.value.id == selfn_ and f.cls \
                        and self.p.method(f.cls, a_.attr) is not None:
                    extra_.append(self.p.method(f.cls, a_.attr))          # type: ignore[arg-type]
                else:
                    return None
            return extra_ if seen else None
        if isinstance(fn, ast.Name) and sc.is_local(fn.id):
            ds = [x.value for x in own_nodes(f.node) if isinstance(x, ast.Assign) and any(isinstance(t_, ast.Name) and t_.id == fn.id for t_ in x.targets)]
            if ds and all(lookup_alts(d) is not None for d in ds):
                ex2: list[Func] = []
                for d in ds:
                    ex2 += lookup_alts(d) or []
                cs.callees = list(dict.fromkeys(list(self.reg.render_rules.values()) + ex2))
                cs.kind = "render-dispatch"
                return cs
        # --- ordinary resolution
        t = None
        if isinstance(fn, ast.Name):
            t = sc.lookup(fn.id)
            if t is None and not sc.is_local(fn.id):
                cs.kind, cs.detail = "external", "builtin:" + fn.id
                return cs
            if t is None and fn.id in {a.arg for a in f.node.args.args + f.node.args.kwonlyargs}:
                cs.kind, cs.detail = "param", fn.id
                return cs
        elif isinstance(fn, ast.Attribute):
            bt = sc.type(fn.value)
            t = sc._attr(bt, fn.attr)
            if t is None:
                if bt in ("str", "int", "bool", "float", "Env", "bytes") or (isinstance(bt, tuple) and bt and bt[0] in ("list", "dict", "set", "tuple", "external", "callable", "union")):
                    cs.kind, cs.detail = "external", f"{bt if isinstance(bt, str) else bt[0]}.{fn.attr}"
                    return cs
                if isinstance(bt, str) and bt in self.p.classes:
                    # attribute of a repo class holding a callable / external object (options.highlight, md.linkify...)
                    cs.kind, cs.detail = "external", f"{bt}.{fn.attr}"
                    return cs
                if isinstance(bt, tuple) and bt and bt[0] == "module":
                    cs.kind, cs.detail = "external", f"{bt[1].name}.{fn.attr}"
                    return cs
        elif isinstance(fn, ast.Subscript):
            t = sc.type(fn.value)
            if isinstance(t, tuple) and t and t[0] == "class":
                cs.callees, cs.kind = self._ctor(t[1]), "ctor"
                cs.detail = t[1].name
                return cs
            t = None
        if isinstance(t, tuple) and t:
            if t[0] == "func":
                cs.callees, cs.kind = self._with_overrides(t[1]), "direct" if isinstance(fn, ast.Name) else "method"
                return cs
            if t[0] == "class":
                cs.callees, cs.kind, cs.detail = self._ctor(t[1]), "ctor", t[1].name
                return cs
            if t[0] == "union":
                fs = [x[1] for x in t[1] if isinstance(x, tuple) and x and x[0] == "func"]
                if fs and len(fs) == len(t[1]):
                    cs.callees, cs.kind = [g for x in fs for g in self._with_overrides(x)], "method"
                    return cs
                if not fs:
                    cs.kind, cs.detail = "external", "union of non-repo callables"
                    return cs
            if t[0] in ("external", "callable"):
                cs.kind, cs.detail = "external", str(t[-1])
                return cs
        if isinstance(t, str):
            cs.kind, cs.detail = "external", "value of type " + t
            return cs
        cs.kind = "unknown"
        cs.detail = U(fn)
        return cs

    def _resolve_param_dispatch(self) -> None:
        """`for rule in rules: rule(state, ...)` where `rules` is a *parameter* holding a compiled chain: the chain is
        whatever the callers pass (`self.ruler.getRules("")` or a local bound to it)."""
        for f, sites in self.sites.items():
            params = [a.arg for a in f.node.args.posonlyargs + f.node.args.args]
            for cs in sites:
                if cs.kind.startswith("dispatch:") or cs.callees:
                    continue
                fn = cs.node.func
                src = None
                if isinstance(fn, ast.Name):
                    src = self._iter_source(f, fn.id)
                elif isinstance(fn, ast.Subscript):
                    src = fn.value
                if not (isinstance(src, ast.Name) and src.id in params):
                    continue
                found: set[tuple[str, str]] = set()
                ok = True
                any_site = False
                for g, gsites in self.sites.items():
                    for gs in gsites:
                        if f not in gs.callees:
                            continue
                        any_site = True
                        idx = params.index(src.id)
                        off = 1 if (f.cls and f.outer is None and "staticmethod" not in f.decorators and isinstance(gs.node.func, ast.Attribute)) else 0
                        arg = None
                        if 0 <= idx - off < len(gs.node.args):
                            arg = gs.node.args[idx - off]
                        for k in gs.node.keywords:
                            if k.arg == src.id:
                                arg = k.value
                        rc = self.ruler_chain_of(g, arg) if arg is not None else None
                        if rc is None:
                            ok = False
                        else:
                            found.add(rc)
                if any_site and ok and len(found) == 1:
                    chain, alt = next(iter(found))
                    regs = self.reg.rules[chain] if alt == "*" else self.reg.chain_members(chain, alt)
                    cs.callees = [r.func for r in regs]
                    cs.kind = f"dispatch:{chain}:{alt}"

    def _resolve_param_calls(self) -> None:
        """A call through a parameter (`fn(label)`) resolves to the function values passed at the call sites of the
        enclosing function, when those resolve."""
        for f, sites in self.sites.items():
            for cs in sites:
                if cs.kind != "param":
                    continue
                names = [a.arg for a in f.node.args.args]
                if cs.detail not in names:
                    continue
                idx = names.index(cs.detail)
                found: list[Func] = []
                ok = True
                for g, gsites in self.sites.items():
                    for gs in gsites:
                        if f in gs.callees:
                            off = 1 if (f.cls and f.outer is None and gs.kind == "method") else 0
                            arg = None
                            if idx - off < len(gs.node.args) and idx - off >= 0:
                                arg = gs.node.args[idx - off]
                            for k in gs.node.keywords:
                                if k.arg == cs.detail:
                                    arg = k.value
                            if arg is None:
                                continue      # default used
                            t = self.tf.scope(g).type(arg)
                            if isinstance(t, tuple) and t and t[0] == "func":
                                found.append(t[1])
                            else:
                                ok = False
                if found and ok:
                    cs.callees = found
                    cs.kind = "param-resolved"

    # ---------------------------------------------------------------- queries
    def reachable(self, entries: list[Func]) -> set[Func]:
        seen: set[Func] = set()
        stack = list(entries)
        while stack:
            f = stack.pop()
            if f in seen:
                continue
            seen.add(f)
            stack.extend(self.edges.get(f, ()))
        return seen

    def parse_phase(self) -> set[Func]:
        return self.reachable([self.p.func(q) for q in ("main.py:MarkdownIt.parse", "main.py:MarkdownIt.parseInline")])

    def render_phase(self) -> set[Func]:
        ci = self.p.cls("RendererHTML")
        r = ci.methods.get("render")
        if r is None:
            raise AnchorError("RendererHTML.render not found")
        return self.reachable([r])

    def api_phase(self) -> set[Func]:
        return self.reachable([self.p.func(q) for q in API_ENTRIES])

    def unresolved(self, within: set[Func] | None = None) -> list[CallSite]:
        out = []
        for f, sites in self.sites.items():
            if within is not None and f not in within:
                continue
            out.extend(cs for cs in sites if cs.kind == "unknown")
        return out
