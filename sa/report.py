"""Back end: obligations, rule results, known findings, evidence files, replay files, exit codes."""
from __future__ import annotations

import ast
import json
import os
import pathlib
import re
import time
from dataclasses import dataclass, field
from typing import Any

from .core import Func, U, own_nodes

VERIF = pathlib.Path(__file__).resolve().parent.parent
EVIDENCE_DIR = pathlib.Path(os.environ["VERIF_EVIDENCE_DIR"]) if os.environ.get("VERIF_EVIDENCE_DIR") else VERIF / "evidence"
REPLAY_DIR = EVIDENCE_DIR / "replay"
KNOWN_FINDINGS = VERIF / "known_findings.json"


@dataclass
class Ob:
    rule: str
    key: str
    where: str
    func: str
    construct: str
    verdict: str            # discharged | exempt | violation
    how: str
    extra: dict = field(default_factory=dict)

    def line(self) -> str:
        one = " ".join(str(self.construct).split())          # a construct that spans lines is reported on one line
        return f"{self.where} {self.func}: {one}  [{self.rule}] {self.verdict}: {self.how}"


@dataclass
class RuleResult:
    rule: str
    title: str
    obligations: list[Ob] = field(default_factory=list)
    floor: int = 0
    functions: int = 0
    paths: int = 0
    notes: list[str] = field(default_factory=list)

    def add(self, *a: Any, **k: Any) -> Ob:
        ob = Ob(self.rule, *a, **k)
        self.obligations.append(ob)
        return ob

    @property
    def violations(self) -> list[Ob]:
        return [o for o in self.obligations if o.verdict == "violation"]


def alpha(f: Func, e: ast.AST) -> str:
    """Construct text with every local replaced by a description of where its value comes from, so that renaming a
    local or reformatting does not change an exemption / finding key."""
    params = [a.arg for a in f.node.args.posonlyargs + f.node.args.args + f.node.args.kwonlyargs]
    defs: dict[str, list[str]] = {}
    for n in own_nodes(f.node):
        if isinstance(n, ast.Name) and isinstance(n.ctx, ast.Store):
            par = f.module.parents.get(n)
            d = "<expr>"
            val = None
            if isinstance(par, ast.Assign) and n in par.targets:
                val = par.value
                if isinstance(val, ast.BinOp) and isinstance(val.op, (ast.Add, ast.Sub)) and (
                        (isinstance(val.left, ast.Name) and val.left.id == n.id) or (isinstance(val.right, ast.Name) and val.right.id == n.id)):
                    continue          # x = x + e: a self-update, described like `x += e`
            elif isinstance(par, ast.AnnAssign) and par.target is n:
                val = par.value
            elif isinstance(par, ast.AugAssign):
                continue
            elif isinstance(par, (ast.For, ast.comprehension)):
                d = "<iter>"
            if val is not None:
                if isinstance(val, ast.Call):
                    d = "<" + U(val.func).split(".")[-1] + "()>"
                elif isinstance(val, ast.Constant):
                    d = "<lit>"
                elif isinstance(val, ast.Name) and val.id in params:
                    d = f"<p{params.index(val.id)}>"
                elif isinstance(val, ast.Attribute):
                    d = "<." + val.attr + ">"
                elif isinstance(val, ast.Subscript):
                    d = "<[]>"
                else:
                    d = "<expr>"
            defs.setdefault(n.id, [])
            if d not in defs[n.id]:
                defs[n.id].append(d)

    class R(ast.NodeTransformer):
        def visit_Name(self, node: ast.Name) -> ast.AST:
            if node.id in params:
                i = params.index(node.id)
                return ast.Name(id=f"P{i}", ctx=node.ctx) if node.id not in ("self", "state", "cls") else node
            if node.id in defs:
                return ast.Name(id="L" + re.sub(r"\W", "_", "|".join(sorted(defs[node.id]))), ctx=node.ctx)
            return node
    import copy
    return U(R().visit(copy.deepcopy(e)))


def load_known() -> list[dict]:
    if not KNOWN_FINDINGS.exists():
        return []
    return json.loads(KNOWN_FINDINGS.read_text())["findings"]


class Run:
    """One execution of `check <property>`: collects rule results, prints the report, writes evidence."""

    def __init__(self, prop: str, tier: str, explanation: str, assumptions: list[str]) -> None:
        self.prop, self.tier = prop, tier
        self.explanation, self.assumptions = explanation, assumptions
        self.results: list[RuleResult] = []
        self.t0 = time.time()
        self.seed = int(os.environ.get("VERIF_SEED", "0") or 0)
        self.extra: dict[str, Any] = {}
        self.errors: list[str] = []

    def add(self, r: RuleResult) -> None:
        self.results.append(r)

    def finish(self, digests: dict[str, str] | None = None) -> int:
        known = [k for k in load_known() if k.get("property") == self.prop and k.get("status") == "known"]
        out_lines: list[str] = []
        n_ob = n_dis = n_ex = 0
        unlisted: list[Ob] = []
        listed: list[tuple[Ob, dict]] = []
        floors_broken: list[str] = []
        per_rule = {}
        for r in self.results:
            v = r.violations
            d = sum(1 for o in r.obligations if o.verdict == "discharged")
            e = sum(1 for o in r.obligations if o.verdict == "exempt")
            n_ob += len(r.obligations)
            n_dis += d
            n_ex += e
            per_rule[r.rule] = {"title": r.title, "obligations": len(r.obligations), "discharged": d, "exempt": e,
                                "violations": len(v), "floor": r.floor, "functions": r.functions, "notes": r.notes}
            out_lines.append(f"RULE {r.rule}: {len(r.obligations)} obligations, {d} discharged, {e} exempt, "
                             f"{len(v)} violations (floor {r.floor}; {r.functions} functions) - {r.title}")
            for note in r.notes:
                out_lines.append(f"  note: {note}")
            import math
            need = math.ceil(0.7 * r.floor)      # floor = count confirmed by reading; 30% slack so that a refactor that merges
            if len(r.obligations) < need and not v:   # or splits a few sites is judged on its merits instead of aborting the analysis
                # (a rule that reports a violation and then stops enumerating - its anchor construct is gone - is judged by that
                # violation, which names the construct, not by the count)
                floors_broken.append(f"{r.rule}: {len(r.obligations)} obligations < {need} (70% of the {r.floor} confirmed by reading)")
            for o in v:
                hit = next((k for k in known if k.get("rule") == o.rule
                            and o.key in ([k["key"]] if "key" in k else k.get("keys", []))), None)
                if hit is not None:
                    listed.append((o, hit))
                else:
                    unlisted.append(o)
        for line in out_lines:
            print(line)
        if floors_broken or self.errors:
            for fb in floors_broken:
                print(f"ANALYSIS-ERROR property={self.prop} instance floor not met: {fb} (a rule that matches too few "
                      f"sites would pass vacuously; the anchors it is parameterised on have changed)")
            for er in self.errors:
                print(f"ANALYSIS-ERROR property={self.prop} {er}")
            self._write_evidence(n_ob, n_dis, n_ex, per_rule, unlisted, listed, digests, error=True)
            return 2
        for (o, k) in listed:
            print(f"KNOWN-FINDING: property={self.prop} {k.get('what', o.construct)} [{o.rule} {o.where} {o.func}]")
        rc = 0
        if REPLAY_DIR.is_dir():
            for old in REPLAY_DIR.glob(f"{self.prop}-*.json"):
                old.unlink()
        if unlisted:
            REPLAY_DIR.mkdir(parents=True, exist_ok=True)
            for i, o in enumerate(unlisted):
                path = REPLAY_DIR / f"{self.prop}-{o.rule}-{i}.json"
                path.write_text(json.dumps({"property": self.prop, "rule": o.rule, "key": o.key, "where": o.where,
                                            "function": o.func, "construct": o.construct, "reason": o.how,
                                            "extra": o.extra}, indent=1))
                print(f"  detail: {o.line()}")
                print(f"VIOLATION property={self.prop} replay={path}")
            rc = 1
        self._write_evidence(n_ob, n_dis, n_ex, per_rule, unlisted, listed, digests)
        status = "HELD" if rc == 0 else "VIOLATED"
        print(f"RESULT property={self.prop} tier={self.tier} {status}: {n_ob} obligations, {n_dis} discharged, "
              f"{n_ex} exempt, {len(unlisted)} violations, {len(listed)} known findings, {time.time() - self.t0:.2f}s")
        return rc

    def _write_evidence(self, n_ob, n_dis, n_ex, per_rule, unlisted, listed, digests, error=False) -> None:
        EVIDENCE_DIR.mkdir(parents=True, exist_ok=True)
        samples = []
        for r in self.results:
            picked = [o for o in r.obligations if o.verdict != "discharged"][:3] + \
                     [o for o in r.obligations if o.verdict == "discharged"][:3]
            for o in picked[:4]:
                samples.append({"rule": o.rule, "where": o.where, "function": o.func, "construct": o.construct,
                                "verdict": o.verdict, "by": o.how})
        distinct = len({(o.rule, o.key) for r in self.results for o in r.obligations
                        if o.how and not o.how.startswith("trivial")})
        ev = {
            "property_id": self.prop,
            "tier": self.tier,
            "seed": self.seed,
            "level": "other",
            "coverage": {
                "explanation": self.explanation,
                "obligations": n_ob,
                "discharged": n_dis,
                "exempt": n_ex,
                "evaluations": n_ob,
                "distinct_nontrivial": distinct,
                "rule": "an evaluation is one obligation (a site the rule must justify) examined on the current working "
                        "tree; distinct = distinct (rule, alpha-normalised construct key) pairs; non-trivial = discharged, "
                        "exempted or refuted by a named argument rather than by being syntactically constant",
                "functions_analysed": sum(r.functions for r in self.results),
                "paths": sum(r.paths for r in self.results),
                "per_rule": per_rule,
                "samples": samples,
                "known_findings_matched": [k.get("key") for (_, k) in listed],
                "violations_reported": [o.line() for o in unlisted],
                "file_digests": digests or {},
                "analysis_error": error,
                **self.extra,
            },
            "assumptions": self.assumptions,
            "wall_s": round(time.time() - self.t0, 3),
            "violations": len(unlisted),
        }
        (EVIDENCE_DIR / f"{self.prop}.json").write_text(json.dumps(ev, indent=1, default=str))
