"""Type facts (lite): annotation-driven inference, enough to resolve receivers and callees in a strictly
typed code base.  Unknown is a value (``None`` = top); every client states how it treats it.

Types:  'ClassName' (repo class) | 'str' 'int' 'bool' 'float' 'NoneType' 'bytes'
      | ('list', T) ('dict', T) ('set', T) ('tuple', None)
      | 'Env' (the caller-supplied environment mapping)
      | ('module', Module) | ('func', Func) | ('class', ClassInfo) | ('union', (T1, T2, ...)) | ('external', dotted)
"""
from __future__ import annotations

import ast
from typing import Any

from .core import ClassInfo, Func, Module, Project, U, own_nodes

SCALARS = {"str", "int", "bool", "float", "bytes", "complex"}
LISTY = {"list", "List", "Sequence", "MutableSequence", "Iterable", "Iterator", "Collection", "Generator"}
DICTY = {"dict", "Dict", "Mapping", "MutableMapping", "MutableMappingABC", "OrderedDict", "defaultdict"}
SETTY = {"set", "Set", "frozenset", "FrozenSet", "MutableSet"}


class TypeFacts:
    def __init__(self, p: Project) -> None:
        self.p = p
        self.attr_types: dict[tuple[str, str], Any] = {}
        self.attr_sources: dict[tuple[str, str], list[ast.AST]] = {}     # value expressions assigned to self.<attr>
        self._scopes: dict[Func, "Scope"] = {}
        self._collect_attr_types()

    # ---------------------------------------------------------------- annotations
    def norm(self, m: Module, a: ast.AST | None) -> Any:
        if a is None:
            return None
        if isinstance(a, ast.Constant):
            if isinstance(a.value, str):
                try:
                    return self.norm(m, ast.parse(a.value, mode="eval").body)
                except SyntaxError:
                    return None
            if a.value is None:
                return "NoneType"
            return None
        if isinstance(a, ast.Name):
            n = a.id
            if n in SCALARS:
                return n
            if n in LISTY:
                return ("list", None)
            if n in DICTY:
                return ("dict", None)
            if n in SETTY:
                return ("set", None)
            if n == "tuple":
                return ("tuple", None)
            if n in ("Any", "object"):
                return None
            if n == "None":
                return "NoneType"
            r = self.p.resolve_name(m, n)
            return self._from_resolved(r)
        if isinstance(a, ast.Attribute):
            r = self.p.resolve(m, a)
            return self._from_resolved(r)
        if isinstance(a, ast.BinOp) and isinstance(a.op, ast.BitOr):
            l, r = self.norm(m, a.left), self.norm(m, a.right)
            return self._union([l, r])
        if isinstance(a, ast.Subscript):
            base = U(a.value).split(".")[-1]
            if base in LISTY:
                el = a.slice.elts[0] if isinstance(a.slice, ast.Tuple) and a.slice.elts else a.slice
                return ("list", self.norm(m, el))
            if base in DICTY:
                el = a.slice.elts[1] if isinstance(a.slice, ast.Tuple) and len(a.slice.elts) == 2 else None
                return ("dict", self.norm(m, el))
            if base in SETTY:
                return ("set", self.norm(m, a.slice))
            if base in ("tuple", "Tuple"):
                return ("tuple", None)
            if base == "Optional":
                return self.norm(m, a.slice)
            if base == "Union":
                els = a.slice.elts if isinstance(a.slice, ast.Tuple) else [a.slice]
                return self._union([self.norm(m, e) for e in els])
            if base in ("Literal",):
                vals = a.slice.elts if isinstance(a.slice, ast.Tuple) else [a.slice]
                if all(isinstance(v, ast.Constant) and isinstance(v.value, str) for v in vals):
                    return "str"
                return "int"
            if base in ("Callable", "type", "Type", "ClassVar", "Final"):
                if base in ("ClassVar", "Final"):
                    return self.norm(m, a.slice)
                if base == "Callable" and isinstance(a.slice, ast.Tuple) and len(a.slice.elts) == 2:
                    return ("callable", self.norm(m, a.slice.elts[1]))
                return ("callable", None)
            return self.norm(m, a.value)       # Generic[T] applications: Ruler[X] -> Ruler
        return None

    def _from_resolved(self, r: Any) -> Any:
        if isinstance(r, ClassInfo):
            return r.name
        if isinstance(r, tuple) and r and r[0] == "external":
            return ("external", r[1])
        if isinstance(r, tuple) and r and r[0] == "const":
            _, mod, name, d = r
            if name == "EnvType":
                return "Env"
            val = getattr(d, "value", None)
            if val is not None and isinstance(val, (ast.Subscript, ast.Name, ast.Attribute, ast.BinOp)):
                # a type alias:  X = Callable[...]  /  X = MutableMapping[...]
                return self.norm(mod, val)
        return None

    @staticmethod
    def _union(ts: list[Any]) -> Any:
        flat: list[Any] = []
        for t in ts:
            if isinstance(t, tuple) and t and t[0] == "union":
                flat.extend(t[1])
            else:
                flat.append(t)
        known = [t for t in flat if t is not None and t != "NoneType"]
        uniq: list[Any] = []
        for t in known:
            if t not in uniq:
                uniq.append(t)
        if not uniq:
            return "NoneType" if any(t == "NoneType" for t in flat) else None
        if len(uniq) == 1:
            return uniq[0]
        return ("union", tuple(uniq))

    # ---------------------------------------------------------------- attribute tables
    def _collect_attr_types(self) -> None:
        p = self.p
        for ci in p.classes.values():
            m = ci.module
            for b in ci.node.body:
                if isinstance(b, ast.AnnAssign) and isinstance(b.target, ast.Name):
                    self.attr_types[(ci.name, b.target.id)] = self.norm(m, b.annotation)
                elif isinstance(b, ast.Assign):
                    for t in b.targets:
                        if isinstance(t, ast.Name) and (ci.name, t.id) not in self.attr_types:
                            self.attr_types[(ci.name, t.id)] = self._literal_type(b.value)
            for f in ci.methods.values():
                decos = [U(d) for d in f.node.decorator_list]
                if "property" in decos:
                    self.attr_types[(ci.name, f.name)] = self.norm(m, f.node.returns)
        # self.x = ... inside methods (two rounds so that self.a = self.b style copies settle)
        for _ in range(2):
            for ci in p.classes.values():
                for f in ci.methods.values():
                    if not f.node.args.args:
                        continue
                    selfname = f.node.args.args[0].arg
                    sc = self.scope(f, fresh=True)
                    for s in own_nodes(f.node):
                        tg = val = ann = None
                        if isinstance(s, ast.Assign) and len(s.targets) == 1:
                            tg, val = s.targets[0], s.value
                        elif isinstance(s, ast.AnnAssign):
                            tg, val, ann = s.target, s.value, s.annotation
                        if isinstance(tg, ast.Attribute) and isinstance(tg.value, ast.Name) and tg.value.id == selfname:
                            key = (ci.name, tg.attr)
                            if val is not None:
                                lst = self.attr_sources.setdefault(key, [])
                                if val not in lst:
                                    lst.append(val)
                            ty = self.norm(ci.module, ann) if ann is not None else None
                            if ty is None and val is not None:
                                ty = sc.type(val)
                            if ty is not None and self.attr_types.get(key) is None:
                                self.attr_types[key] = ty

    @staticmethod
    def _literal_type(v: ast.AST) -> Any:
        if isinstance(v, ast.Constant):
            return type(v.value).__name__
        if isinstance(v, (ast.List, ast.ListComp)):
            return ("list", None)
        if isinstance(v, (ast.Dict, ast.DictComp)):
            return ("dict", None)
        if isinstance(v, (ast.Set, ast.SetComp)):
            return ("set", None)
        return None

    def attr_type(self, cname: str, attr: str) -> Any:
        for ci in self.p.mro(cname):
            k = (ci.name, attr)
            if k in self.attr_types and self.attr_types[k] is not None:
                return self.attr_types[k]
            if attr in ci.methods and "property" not in [U(d) for d in ci.methods[attr].node.decorator_list]:
                return ("func", ci.methods[attr])
        return None

    def has_attr(self, cname: str, attr: str) -> bool:
        for ci in self.p.mro(cname):
            if (ci.name, attr) in self.attr_types or attr in ci.methods:
                return True
        return False

    def ret_type(self, f: Func) -> Any:
        return self.norm(f.module, f.node.returns)

    def scope(self, f: Func, fresh: bool = False) -> "Scope":
        if fresh:
            return Scope(self, f)
        sc = self._scopes.get(f)
        if sc is None:
            sc = self._scopes[f] = Scope(self, f)
        return sc


class Scope:
    """Flow-insensitive local type environment of one function."""

    def __init__(self, tf: TypeFacts, f: Func) -> None:
        self.tf, self.f = tf, f
        self.m = f.module
        self.env: dict[str, Any] = {}
        self.locals: set[str] = set()
        node = f.node
        allargs = node.args.posonlyargs + node.args.args + node.args.kwonlyargs
        for a in allargs:
            self.env[a.arg] = tf.norm(self.m, a.annotation)
            self.locals.add(a.arg)
        if node.args.vararg:
            self.env[node.args.vararg.arg] = ("tuple", None)
            self.locals.add(node.args.vararg.arg)
        if node.args.kwarg:
            self.env[node.args.kwarg.arg] = ("dict", None)
            self.locals.add(node.args.kwarg.arg)
        decos = [U(d) for d in node.decorator_list]
        if f.cls and f.outer is None and node.args.args and "staticmethod" not in decos:
            first = node.args.args[0].arg
            self.env[first] = ("class", tf.p.classes[f.cls]) if "classmethod" in decos else f.cls
        # enclosing function scope for nested defs
        self.outer = tf.scope(f.outer) if f.outer is not None else None
        stores = [n for n in own_nodes(node)]
        for n in stores:
            if isinstance(n, ast.Name) and isinstance(n.ctx, (ast.Store, ast.Del)):
                self.locals.add(n.id)
            elif isinstance(n, (ast.FunctionDef, ast.ClassDef)):
                self.locals.add(n.name)
        for sub in ast.iter_child_nodes(node):
            pass
        for _ in range(4):
            changed = False
            for s in stores:
                changed |= self._bind_stmt(s)
            if not changed:
                break

    def _bind(self, name: str, ty: Any) -> bool:
        if ty is not None and self.env.get(name) is None:
            self.env[name] = ty
            return True
        return False

    def _bind_target(self, t: ast.AST, ty: Any) -> bool:
        if isinstance(t, ast.Name):
            return self._bind(t.id, ty)
        if isinstance(t, (ast.Tuple, ast.List)):
            ch = False
            for e in t.elts:
                ch |= self._bind_target(e, None)
            return ch
        return False

    def _bind_stmt(self, s: ast.AST) -> bool:
        ch = False
        if isinstance(s, ast.Assign):
            ty = self.type(s.value)
            for t in s.targets:
                ch |= self._bind_target(t, ty)
        elif isinstance(s, ast.AnnAssign) and isinstance(s.target, ast.Name):
            ty = self.tf.norm(self.m, s.annotation)
            if ty is None and s.value is not None:
                ty = self.type(s.value)
            ch |= self._bind(s.target.id, ty)
        elif isinstance(s, ast.NamedExpr) and isinstance(s.target, ast.Name):
            ch |= self._bind(s.target.id, self.type(s.value))
        elif isinstance(s, (ast.For, ast.comprehension)):
            it, tg = s.iter, s.target
            el = self.elem_type(it)
            if isinstance(it, ast.Call) and isinstance(it.func, ast.Name) and it.func.id == "enumerate" and it.args \
                    and isinstance(tg, ast.Tuple) and len(tg.elts) == 2:
                ch |= self._bind_target(tg.elts[0], "int")
                ch |= self._bind_target(tg.elts[1], self.elem_type(it.args[0]))
            elif isinstance(it, ast.Call) and isinstance(it.func, ast.Attribute) and it.func.attr == "items" \
                    and isinstance(tg, ast.Tuple) and len(tg.elts) == 2:
                bt = self.type(it.func.value)
                ch |= self._bind_target(tg.elts[0], "str")
                ch |= self._bind_target(tg.elts[1], bt[1] if isinstance(bt, tuple) and bt[0] == "dict" else None)
            else:
                ch |= self._bind_target(tg, el)
        elif isinstance(s, ast.With):
            for it in s.items:
                if it.optional_vars is not None:
                    ch |= self._bind_target(it.optional_vars, None)
        return ch

    def elem_type(self, it: ast.AST) -> Any:
        if isinstance(it, ast.Call) and isinstance(it.func, ast.Name) and it.func.id in ("range",):
            return "int"
        if isinstance(it, ast.Call) and isinstance(it.func, ast.Name) and it.func.id in ("reversed", "sorted", "list", "iter") and it.args:
            return self.elem_type(it.args[0])
        if isinstance(it, ast.Subscript) and isinstance(it.slice, ast.Slice):
            return self.elem_type(it.value)
        if isinstance(it, ast.BoolOp):
            for v in it.values:
                t = self.elem_type(v)
                if t is not None:
                    return t
            return None
        ty = self.type(it)
        if isinstance(ty, tuple) and ty[0] == "union":
            for t in ty[1]:
                if isinstance(t, tuple) and t[0] in ("list", "set") and t[1] is not None:
                    return t[1]
        if isinstance(ty, tuple) and ty[0] in ("list", "set"):
            return ty[1]
        if ty == "str":
            return "str"
        if isinstance(it, (ast.List, ast.Tuple)) and it.elts:
            return self.type(it.elts[0])
        return None

    def lookup(self, name: str) -> Any:
        if name in self.env and self.env[name] is not None:
            return self.env[name]
        if name in self.locals:
            return None
        if self.outer is not None:
            return self.outer.lookup(name)
        r = self.tf.p.resolve_name(self.m, name)
        return self._resolved_type(r)

    def _resolved_type(self, r: Any) -> Any:
        if isinstance(r, Module):
            return ("module", r)
        if isinstance(r, Func):
            return ("func", r)
        if isinstance(r, ClassInfo):
            return ("class", r)
        if isinstance(r, tuple) and r and r[0] == "external":
            return ("external", r[1])
        if isinstance(r, tuple) and r and r[0] == "const":
            _, mod, _name, d = r
            if isinstance(d, ast.AnnAssign):
                t = self.tf.norm(mod, d.annotation)
                if t is not None:
                    return t
            val = getattr(d, "value", None)
            if val is None:
                return None
            if isinstance(val, ast.Call):
                fr = self.tf.p.resolve(mod, val.func)
                if isinstance(fr, tuple) and fr and fr[0] == "external":
                    return ("external", fr[1] + "()")
                if isinstance(fr, ClassInfo):
                    return fr.name
                if isinstance(fr, Func):
                    return self.tf.ret_type(fr)
                return None
            return TypeFacts._literal_type(val)
        return None

    def is_local(self, name: str) -> bool:
        if name in self.locals:
            return True
        return self.outer.is_local(name) if self.outer is not None else False

    def type(self, e: ast.AST | None) -> Any:     # noqa: C901
        tf = self.tf
        if e is None:
            return None
        if isinstance(e, ast.Name):
            return self.lookup(e.id)
        if isinstance(e, ast.Constant):
            return type(e.value).__name__
        if isinstance(e, (ast.List, ast.ListComp)):
            if isinstance(e, ast.List) and e.elts:
                return ("list", self.type(e.elts[0]))
            if isinstance(e, ast.ListComp):
                return ("list", None)
            return ("list", None)
        if isinstance(e, (ast.Dict, ast.DictComp)):
            return ("dict", None)
        if isinstance(e, (ast.Set, ast.SetComp)):
            return ("set", None)
        if isinstance(e, ast.Tuple):
            return ("tuple", None)
        if isinstance(e, ast.JoinedStr):
            return "str"
        if isinstance(e, ast.Compare):
            return "bool"
        if isinstance(e, ast.UnaryOp):
            return "bool" if isinstance(e.op, ast.Not) else self.type(e.operand)
        if isinstance(e, ast.BoolOp):
            return tf._union([self.type(v) for v in e.values])
        if isinstance(e, ast.IfExp):
            return tf._union([self.type(e.body), self.type(e.orelse)])
        if isinstance(e, ast.NamedExpr):
            return self.type(e.value)
        if isinstance(e, ast.Attribute):
            return self._attr(self.type(e.value), e.attr)
        if isinstance(e, ast.Subscript):
            bt = self.type(e.value)
            return self._subscript(bt, e)
        if isinstance(e, ast.Call):
            return self._call(e)
        if isinstance(e, ast.BinOp):
            l, r = self.type(e.left), self.type(e.right)
            if isinstance(e.op, ast.Mod) and l == "str":
                return "str"
            return l if l is not None else r
        if isinstance(e, ast.Starred):
            return None
        return None

    def _attr(self, bt: Any, attr: str) -> Any:
        tf = self.tf
        if isinstance(bt, str) and bt in tf.p.classes:
            return tf.attr_type(bt, attr)
        if isinstance(bt, tuple) and bt:
            if bt[0] == "module":
                r = tf.p.resolve_name(bt[1], attr)
                return self._resolved_type(r)
            if bt[0] == "class":
                f = tf.p.method(bt[1].name, attr)
                if f is not None:
                    return ("func", f)
                return tf.attr_type(bt[1].name, attr)
            if bt[0] == "union":
                return tf._union([self._attr(t, attr) for t in bt[1]])
            if bt[0] == "external":
                return ("external", bt[1] + "." + attr)
        return None

    def _subscript(self, bt: Any, e: ast.Subscript) -> Any:
        tf = self.tf
        if isinstance(bt, tuple) and bt and bt[0] in ("list", "dict"):
            if isinstance(e.slice, ast.Slice):
                return bt
            return bt[1]
        if bt == "str":
            return "str"
        if bt == "Env":
            return "Env"
        if isinstance(bt, tuple) and bt and bt[0] == "class":
            return bt[1].name            # Generic application  Rule[T]
        if isinstance(bt, str) and bt in tf.p.classes:
            gi = tf.p.method(bt, "__getitem__")
            if gi is not None:
                keys = self._str_values(e.slice)
                table = _getitem_table(gi)
                if table is not None:
                    sc = tf.scope(gi)
                    if keys is not None and all(k in table for k in keys):
                        return tf._union([sc.type(table[k]) for k in keys])
                    return tf._union([sc.type(v) for v in table.values()])
                return tf.ret_type(gi)
        if isinstance(bt, tuple) and bt and bt[0] == "union":
            return tf._union([self._subscript(t, e) for t in bt[1]])
        return None

    def _str_values(self, k: ast.AST) -> list[str] | None:
        """Constant string values an index expression can take: a literal, or a loop variable over a literal list."""
        if isinstance(k, ast.Constant) and isinstance(k.value, str):
            return [k.value]
        if isinstance(k, ast.Name):
            vals: list[str] = []
            found = False
            for n in own_nodes(self.f.node):
                if isinstance(n, (ast.For, ast.comprehension)) and isinstance(n.target, ast.Name) and n.target.id == k.id:
                    if isinstance(n.iter, (ast.List, ast.Tuple)) and all(isinstance(x, ast.Constant) and isinstance(x.value, str) for x in n.iter.elts):
                        vals.extend(x.value for x in n.iter.elts)
                        found = True
                    else:
                        return None
                elif isinstance(n, ast.Name) and n.id == k.id and isinstance(n.ctx, ast.Store):
                    par = self.m.parents.get(n)
                    if not isinstance(par, (ast.For, ast.comprehension)):
                        return None
            return vals if found else None
        return None

    def _call(self, e: ast.Call) -> Any:
        tf = self.tf
        f = e.func
        if isinstance(f, ast.Name):
            n = f.id
            t = self.lookup(n)
            if isinstance(t, tuple) and t:
                if t[0] == "class":
                    return t[1].name
                if t[0] == "func":
                    return tf.ret_type(t[1])
                if t[0] == "callable":
                    return t[1]
                if t[0] == "external":
                    return ("external", t[1] + "()")
            if not self.is_local(n):
                if n in ("len", "ord", "int", "min", "max", "abs", "sum", "hash", "id"):
                    return "int"
                if n in ("str", "chr", "repr", "format"):
                    return "str"
                if n in ("bool", "isinstance", "callable", "hasattr", "any", "all"):
                    return "bool"
                if n == "type" and len(e.args) == 1:
                    ta = self.type(e.args[0])
                    if isinstance(ta, str) and ta in tf.p.classes:
                        return ("class", tf.p.classes[ta])
                    return None
                if n in ("list", "sorted"):
                    return ("list", self.elem_type(e.args[0]) if e.args else None)
                if n == "reversed":
                    return ("list", self.elem_type(e.args[0]) if e.args else None)
                if n == "dict":
                    return ("dict", None)
                if n in ("set", "frozenset"):
                    return ("set", None)
                if n in ("tuple",):
                    return ("tuple", None)
                if n == "cast" and len(e.args) == 2:
                    return tf.norm(self.m, e.args[0]) or self.type(e.args[1])
                if n in ("range", "enumerate", "zip", "iter"):
                    return ("list", None)
            return None
        if isinstance(f, ast.Subscript):         # Ruler[T]() / Rule[T](...)
            t = self.type(f.value)
            if isinstance(t, tuple) and t and t[0] == "class":
                return t[1].name
            return None
        if isinstance(f, ast.Attribute):
            bt = self.type(f.value)
            at = self._attr(bt, f.attr)
            if isinstance(at, tuple) and at:
                if at[0] == "func":
                    return tf.ret_type(at[1])
                if at[0] == "class":
                    return at[1].name
                if at[0] == "callable":
                    return at[1]
                if at[0] == "external":
                    return ("external", at[1] + "()")
            if bt == "Env":
                return "Env" if f.attr in ("get", "setdefault", "pop") else None
            if bt == "str":
                if f.attr in ("split", "rsplit", "splitlines", "partition"):
                    return ("list", "str")
                if f.attr in ("startswith", "endswith", "isspace", "isdigit", "isalpha"):
                    return "bool"
                if f.attr in ("find", "index", "rfind", "count"):
                    return "int"
                return "str"
            if isinstance(bt, tuple) and bt:
                if bt[0] == "dict":
                    if f.attr in ("get", "setdefault", "pop"):
                        return bt[1]
                    if f.attr == "copy":
                        return bt
                    if f.attr in ("keys", "values", "items"):
                        return ("list", bt[1] if f.attr == "values" else None)
                if bt[0] == "list":
                    if f.attr == "pop":
                        return bt[1]
                    if f.attr == "copy":
                        return bt
                    if f.attr in ("index", "count"):
                        return "int"
                if bt[0] == "set" and f.attr == "copy":
                    return bt
            return None
        return None


def _getitem_table(gi: Func) -> dict[str, ast.AST] | None:
    """`return {<lit>: expr, ...}[name]` -> the dict literal as a table."""
    for n in ast.walk(gi.node):
        if isinstance(n, ast.Return) and isinstance(n.value, ast.Subscript) and isinstance(n.value.value, ast.Dict):
            d = n.value.value
            if all(isinstance(k, ast.Constant) and isinstance(k.value, str) for k in d.keys):
                return {k.value: v for k, v in zip(d.keys, d.values)}      # type: ignore[union-attr]
    return None
