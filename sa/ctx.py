"""Analysis context shared by all rules of one run (lazy, cached)."""
from __future__ import annotations

import ast
from typing import Any, Callable

from .callgraph import CallGraph
from .cfg import CFG
from .core import Func, Project, Registries, loc
from .effects import Effects
from .facts import Facts, analyse
from .typefacts import TypeFacts


class Ctx:
    def __init__(self, project: Project | None = None, tier: str = "quick") -> None:
        self.p = project or Project.load()
        self.tier = tier
        self._reg: Registries | None = None
        self._tf: TypeFacts | None = None
        self._cg: CallGraph | None = None
        self._eff: Effects | None = None
        self._cfg: dict[tuple[Func, bool], CFG] = {}
        self._facts: dict[tuple[Func, str], dict[int, Facts | None]] = {}

    @property
    def reg(self) -> Registries:
        if self._reg is None:
            self._reg = Registries(self.p)
        return self._reg

    @property
    def tf(self) -> TypeFacts:
        if self._tf is None:
            self._tf = TypeFacts(self.p)
        return self._tf

    @property
    def cg(self) -> CallGraph:
        if self._cg is None:
            self._cg = CallGraph(self.p, self.tf, self.reg)
        return self._cg

    @property
    def eff(self) -> Effects:
        if self._eff is None:
            self._eff = Effects(self.p, self.tf, self.cg)
        return self._eff

    def cfg(self, f: Func, may_raise: Callable[[ast.AST], bool] | None = None) -> CFG:
        if may_raise is not None:
            return CFG(f.node, may_raise)
        key = (f, False)
        if key not in self._cfg:
            self._cfg[key] = CFG(f.node)
        return self._cfg[key]

    def facts(self, f: Func, entry: Facts | None = None, tag: str = "") -> tuple[CFG, dict[int, Facts | None]]:
        cfg = self.cfg(f)
        key = (f, tag)
        if key not in self._facts or entry is not None and not tag:
            res = analyse(cfg, entry, self.eff.call_kills(f))
            if tag or entry is None:
                self._facts[key] = res
            return cfg, res
        return cfg, self._facts[key]

    def where(self, f: Func, node: ast.AST) -> str:
        return loc(f.module, node)
