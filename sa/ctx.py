"""Analysis context shared by all rules of one run (lazy, cached)."""
from __future__ import annotations

import ast
from typing import Any, Callable

from .callgraph import CallGraph
from .cfg import CFG
from .core import Func, Project, Registries, loc
from .effects import Effects
from .facts import Facts, analyse
from .typefacts import TypeFacts


class Ctx:
    def __init__(self, project: Project | None = None, tier: str = "quick") -> None:
        self.p = project or Project.load()
        self.tier = tier
        self._reg: Registries | None = None
        self._tf: TypeFacts | None = None
        self._cg: CallGraph | None = None
        self._eff: Effects | None = None
        self._cfg: dict[tuple[Func, bool], CFG] = {}
        self._facts: dict[tuple[Func, str], dict[int, Facts | None]] = {}

    @property
    def reg(self) -> Registries:
        if self._reg is None:
            self._reg = Registries(self.p)
        return self._reg

    @property
    def tf(self) -> TypeFacts:
        if self._tf is None:
            self._tf = TypeFacts(self.p)
        return self._tf

    @property
    def cg(self) -> CallGraph:
        if self._cg is None:
            self._cg = CallGraph(self.p, self.tf, self.reg)
        return self._cg

    @property
    def eff(self) -> Effects:
        if self._eff is None:
            self._eff = Effects(self.p, self.tf, self.cg)
        return self._eff

    def normalised(self, prefix: str) -> "Ctx":
        """The analysis context of the project in which every module whose path starts with `prefix` is replaced by its
        normal form (private helpers inlined, private records dissolved - sa/inline.py); `self` when nothing changes."""
        cache = self.__dict__.setdefault("_norm", {})
        if prefix not in cache:
            from .inline import normalise_source
            priv: dict[str, set[str]] = {}
            for o in self.p.modules.values():
                names: set[str] = set()
                for n in ast.walk(o.tree):
                    if isinstance(n, ast.Name) and n.id.startswith("_"):
                        names.add(n.id)
                    elif isinstance(n, ast.Attribute) and n.attr.startswith("_"):
                        names.add(n.attr)
                    elif isinstance(n, ast.alias) and n.name.startswith("_"):
                        names.add(n.name)
                priv[o.rel] = names
            changed: dict[str, tuple[str, list[str], dict[int, int]]] = {}
            for rel, m in sorted(self.p.modules.items()):
                if not rel.startswith(prefix):
                    continue
                if not any(isinstance(s, (ast.FunctionDef, ast.ClassDef)) and s.name.startswith("_") and not s.name.startswith("__")
                           for s in m.tree.body):
                    continue
                ext = set().union(*[v for k, v in priv.items() if k != rel])
                try:
                    new, log, lm = normalise_source(m.source, ext)
                except (SyntaxError, RecursionError):
                    new = None
                if new is not None:
                    changed[rel] = (new, log, lm)
            if not changed:
                cache[prefix] = self
            else:
                p2 = self.p.with_sources({rel: v[0] for rel, v in changed.items()})
                for rel, v in changed.items():
                    p2.modules[rel].norm_log = v[1]
                    p2.modules[rel].line_map = v[2]
                cache[prefix] = Ctx(p2, self.tier)
        return cache[prefix]

    def internal_helper(self, f: Func) -> bool:
        """f is called only from inside the package, by name: a `_private` function or method, or a module-level function of a
        rule / helper module that is neither a registered rule, nor exported through an `__all__`, nor reached by a dynamic
        dispatch.  Its call sites are then all of its uses on the paths of MarkdownIt.parse / render, and what holds at every
        one of them may be assumed at its entry (a contract derived from - and so validated at - the call sites)."""
        if f.name.startswith("_") and not f.name.startswith("__"):
            return True
        if f.cls is not None:
            return False
        cache = self.__dict__.setdefault("_internal_helper", None)
        if cache is None:
            exported: set[str] = set()
            for m in self.p.modules.values():
                for n in m.tree.body:
                    if isinstance(n, ast.Assign) and any(isinstance(t, ast.Name) and t.id == "__all__" for t in n.targets):
                        exported |= {x.value for x in ast.walk(n.value) if isinstance(x, ast.Constant) and isinstance(x.value, str)}
            rules = {reg.func for ch in self.reg.rules.values() for reg in ch}
            cache = self.__dict__["_internal_helper"] = (exported, rules)
        exported, rules = cache
        if f.name in exported or f in rules or not f.module.rel.startswith(("rules_block/", "rules_inline/", "rules_core/")):
            return False
        sites = self.cg.callers.get(f, [])
        return bool(sites) and all(cs.kind == "direct" for cs in sites)

    def norm_notes(self) -> list[str]:
        out = []
        for rel, m in sorted(self.p.modules.items()):
            if m.norm_log:
                out.append(f"{rel} analysed in normal form ({len(m.norm_log)} rewriting steps: " + "; ".join(dict.fromkeys(m.norm_log)) + ")")
        return out

    def cfg(self, f: Func, may_raise: Callable[[ast.AST], bool] | None = None) -> CFG:
        if may_raise is not None:
            return CFG(f.node, may_raise)
        key = (f, False)
        if key not in self._cfg:
            self._cfg[key] = CFG(f.node)
        return self._cfg[key]

    def facts(self, f: Func, entry: Facts | None = None, tag: str = "") -> tuple[CFG, dict[int, Facts | None]]:
        cfg = self.cfg(f)
        key = (f, tag)
        if key not in self._facts or entry is not None and not tag:
            res = analyse(cfg, entry, self.eff.call_kills(f), self.bool_summary)
            if tag or entry is None:
                self._facts[key] = res
            return cfg, res
        return cfg, self._facts[key]

    def bool_summary(self, call: ast.Call, value: bool):
        """Difference constraints over the caller's terms implied by `call` (a boolean helper of the repository) returning
        the constant `value`: the join of the helper's facts at its `return <value>` statements, with the helper's parameters
        replaced by the actual arguments."""
        import re
        cs = self.cg.site_of.get(call)
        if cs is None or len(cs.callees) != 1 or cs.kind not in ("direct", "method"):
            return []
        h = cs.callees[0]
        cache = self.__dict__.setdefault("_bool_summ", {})
        if h not in cache:
            cfg = self.cfg(h)
            res = analyse(cfg, None, self.eff.call_kills(h))
            per: dict[bool, Facts | None] = {}
            nret: dict[bool, int] = {True: 0, False: 0}
            other = False
            for n in cfg.nodes:
                if n.kind == "stmt" and isinstance(n.ast, ast.Return) and res.get(n.id) is not None:
                    v = n.ast.value
                    if isinstance(v, ast.Constant) and isinstance(v.value, bool):
                        vals = [v.value]
                    elif v is not None and h.node.returns is not None and ast.unparse(h.node.returns) == "bool":
                        vals = [True, False]          # a computed boolean: this return may give either result
                    else:
                        other = True
                        continue
                    for val in vals:
                        z = res[n.id]
                        per[val] = z.copy() if val not in per or per[val] is None else per[val].join(z)
                        nret[val] += 1
            cache[h] = None if other else per
        per = cache[h]
        if not per or per.get(value) is None:
            return []
        z = per[value]
        z.close()
        params = [a.arg for a in h.node.args.posonlyargs + h.node.args.args]
        sub: dict[str, str] = {}
        for pn in params:
            a = self.eff.arg_for_param(cs, h, pn)
            if a is not None and isinstance(a, (ast.Name, ast.Attribute)):
                sub[pn] = ast.unparse(a)
        out = []
        ident = re.compile(r"[A-Za-z_][A-Za-z_0-9]*")

        def tr(t: str) -> str | None:
            if t == "0":
                return t
            roots = {m.group(0) for m in re.finditer(r"(?<![\w.])[A-Za-z_]\w*", t)}
            roots = {r_ for r_ in roots if r_ not in ("len", "ord", "int", "abs")}
            if not roots <= set(sub):
                return None
            return re.sub(r"(?<![\w.])([A-Za-z_]\w*)", lambda m: sub.get(m.group(1), m.group(1)), t)
        for (x, y), k in z.d.items():
            tx, ty = tr(x), tr(y)
            if tx is not None and ty is not None and tx != ty:
                out.append((tx, ty, k))
        return out

    def where(self, f: Func, node: ast.AST) -> str:
        return loc(f.module, node)
