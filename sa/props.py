"""Property -> rule families table, with the explanation / assumptions written into the evidence."""
from __future__ import annotations

from typing import Callable

from .ctx import Ctx
from .report import RuleResult

Rule = Callable[[Ctx], RuleResult]


class Prop:
    def __init__(self, pid: str, clause: str, rules: list[Rule], thorough: list[Rule] | None = None,
                 assumptions: list[str] | None = None, not_decided: str = "") -> None:
        self.pid, self.clause, self.rules = pid, clause, rules
        self.thorough = thorough or []
        self.assumptions = assumptions or []
        self.not_decided = not_decided


COMMON_ASSUMPTIONS = [
    "CPython's ast parser is correct; the engine (/verif/sa) is validated both ways by /verif/selftest",
    "the analysed program is /repo/markdown_it as on disk; plugins and monkey-patching are out of scope",
    "third-party mdurl / linkify_it / re are pure and total",
]


def table() -> dict[str, Prop]:
    from .rules import ruler_rules as RR
    props: dict[str, Prop] = {}

    def reg(p: Prop) -> None:
        props[p.pid] = p

    reg(Prop("C11", "typestate over every path (normal and raising) of every Ruler method: rule state is never left mutated "
             "with a possibly valid chain cache; only class Ruler writes the rule list, the cache and Rule fields; the "
             "compiled chains are exactly the enabled rules filtered by chain, in registration order",
             [RR.rule_cache, RR.rule_wmw, RR.rule_chain],
             assumptions=["exceptions considered: explicit raise statements and raising exits of other Ruler methods "
                          "(a user-supplied iterable that raises while being iterated is not modelled)"],
             not_decided="the 'obvious set semantics' of the reported set after a partially applied failing call"))
    return props


WIP = "check not yet implemented in this revision (work in progress); see DESIGN.md section 4"
NOT_APPLICABLE = {f"C{i:02d}": WIP for i in range(1, 21)}
NOT_APPLICABLE["C06"] = ("a metamorphic relation between the parses of two different inputs (document vs quoted / list-indented "
                         "document): its truth lies in column and line arithmetic over runtime tables of two executions, which no "
                         "sound static rule in reach can bound; the structural necessary conditions (context restoration, column "
                         "frames) are claimed under C07 and C17 instead")

TECHNIQUE = {
    "C11": "typestate analysis over per-method CFGs with exceptional edges and interprocedural method summaries; "
           "who-may-write effect query; truth-table simulation of the chain-compilation loop",
}
