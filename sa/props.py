"""Property -> rule families table, with the explanation / assumptions written into the evidence."""
from __future__ import annotations

from typing import Callable

from .ctx import Ctx
from .report import RuleResult

Rule = Callable[[Ctx], RuleResult]


class Prop:
    def __init__(self, pid: str, clause: str, rules: list[Rule], thorough: list[Rule] | None = None,
                 assumptions: list[str] | None = None, not_decided: str = "") -> None:
        self.pid, self.clause, self.rules = pid, clause, rules
        self.thorough = thorough or []
        self.assumptions = assumptions or []
        self.not_decided = not_decided


COMMON_ASSUMPTIONS = [
    "CPython's ast parser is correct; the engine (/verif/sa) is validated both ways by /verif/selftest",
    "the analysed program is /repo/markdown_it as on disk; plugins and monkey-patching are out of scope",
    "third-party mdurl / linkify_it / re are pure and total",
]


def table() -> dict[str, Prop]:
    from .rules import ruler_rules as RR
    props: dict[str, Prop] = {}

    def reg(p: Prop) -> None:
        props[p.pid] = p

    reg(Prop("C11", "typestate over every path (normal and raising) of every Ruler method: rule state is never left mutated "
             "with a possibly valid chain cache; only class Ruler writes the rule list, the cache and Rule fields; the "
             "compiled chains are exactly the enabled rules filtered by chain, in registration order; each mutator changes only what "
             "its contract says (SETSEM); the -1 sentinel of the name lookup is excluded, by a test on the lookup's own result, "
             "before the result is used as a position (FOUND)",
             [RR.rule_cache, RR.rule_wmw, RR.rule_chain, RR.rule_setsem, RR.rule_found],
             assumptions=["exceptions considered: explicit raise statements and raising exits of other Ruler methods "
                          "(a user-supplied iterable that raises while being iterated is not modelled)"],
             not_decided="the reported set after a *partially applied failing* call (which names were switched before the raise)"))
    from .rules import eff_rules as EF
    reg(Prop("C12", "parse/render-reachable code writes no module, class or instance state other than per-call objects (effect "
             "classification by the type of the object written); no mutable default / class-level mutable; preset objects never "
             "reach an instance uncopied and configuration objects are built per instance; no ambient inputs; creating and "
             "configuring an instance writes nothing at module or class level (EFFCFG)",
             [EF.rule_eff, EF.rule_alias, EF.rule_ambient],
             assumptions=["type facts come from the repository's annotations (mypy --strict clean upstream)"],
             not_decided="nothing further of this property is declined: together the rules are the non-interference argument, modulo "
                         "the stated assumptions (pure third-party code, the `re` module's internal cache)"))
    reg(Prop("C13", "two calls on one instance share nothing they write except the lazily compiled chain cache (EFF), and that "
             "cache is published only when complete and never mutated afterwards; callers of getRules only read (PUB)",
             [EF.rule_eff, RR.rule_pub],
             assumptions=["a single attribute store / load is atomic in CPython"],
             not_decided="the interleaving semantics itself (decided is: no shared write exists that an interleaving could expose)"))
    reg(Prop("C14", "parse/render write per-call objects only, so unwinding from any callback has nothing to undo (EFF); every "
             "@contextmanager runs its post-yield code on the exceptional edge too, and no class-based context manager's __exit__ "
             "returns a truthy value (CTXMGR); reset_rules puts the flags back through enableOnly on all four rulers (FANOUT) and a "
             "ruler never serves a chain compiled before its flags were last written (CACHE)",
             [EF.rule_eff, RR.rule_ctxmgr],
             not_decided="equality of results before and after the failed call (follows from the absence of writes; not separately shown)"))
    reg(Prop("C15", "the render phase's only write to a stream token is the image alt attribute, recomputed from the token's own "
             "children (idempotent); the fence renderer's scratch token owns a copy of the attrs (RWRITE); from_dict hands every "
             "field to the constructor or assigns it back on every path, and the tree builder pairs by nesting, never by level (SERIAL); "
             "a node is found among its siblings by `list.index`, so node equality stays identity - no __eq__ on the node classes (IDENT)",
             [EF.rule_rwrite, EF.rule_serial, EF.rule_ident],
             not_decided="equality of the round-tripped values themselves (as_dict / from_dict / SyntaxTreeNode are value-level "
                         "identities over runtime data; decided is only that no field is dropped structurally and that the tree builder "
                         "depends on nesting alone)"))
    from .rules import render_rules as RN, url_rules as UR
    reg(Prop("C04", "escape discipline of the HTML renderer: every returned value is built from literals, escapeHtml(...) results, the "
             "literal tag vocabulary and other render methods; raw pass-through only for the two html kinds, which are pushed only "
             "under a true test of option html; tags and attribute names are literals; every empty-tag kind has a render rule; a "
             "token is moved in the stream only across closers of its own pair (MOVE)",
             [RN.rule_esc, RN.rule_raw, RN.rule_vocab, RN.rule_rendex],
             assumptions=["the highlight callback returns trusted HTML (documented; excluded by the property's quantifier)"],
             not_decided="global well-nestedness of the emitted tags (follows from the pairing discipline of C02, not shown here)"))
    reg(Prop("C05", "every value reaching an href/src sink is normalizeLink(...) output on which validateLink(...) was tested true on "
             "every path (or a constant, or an env reference entry written by such a sink); the facade delegates to the sanitizer; "
             "the validator computes (not bad-scheme) or whitelisted-data-image on the lower-cased url; regex language facts of both "
             "patterns; normalizeLink returns only mdurl.encode output; the cursor passes a parsed destination only behind a successful "
             "validateLink test (a rejected destination is not consumed)",
             [UR.rule_url, UR.rule_urlre],
             assumptions=["mdurl.encode yields percent-encoded URL-safe ASCII (third party)",
                          "the regex facts are decided by handing the extracted *constant* pattern to the re engine; no repository code runs"],
             not_decided="that a rejected destination renders as exactly its literal text (behaviour of the fallback path; decided is only "
                         "that it is not consumed)"))
    from .rules import bnd_rules as BN, prog_rules as PG, total_rules as TT
    reg(Prop("C01", "structural necessary conditions of totality: no unguarded index into a source string (BND) or into a token / "
             "delimiter list (TOKBND); every while loop has a variant that each cyclic path strictly moves, and the dispatchers step the "
             "cursor themselves when no rule matched (LOOPVAR); the nesting cap consumes its range (GUARD); line tables "
             "with their sentinel stay in lockstep (SENT); every recursive rule dispatch is capped by maxNesting (NEST); code "
             "points are validated before chr(), and the validity predicate itself rejects every surrogate and everything above "
             "U+10FFFF (CHR, decided over intervals); a rule that reports a match has advanced the cursor, one that does not has "
             "left it alone (PROG); no local can be read before assignment (DEF); no undocumented raise / assert in the phase "
             "(RAISE); partial operations stay in their domain - a dict read has its key, a regex match is tested before use, "
             "index / next cannot miss (PARTIAL); the CLI decodes file content leniently, and no decoder other than UTF-8 / ASCII "
             "/ Latin hands back text unchecked for surrogates, so that what the CLI prints can be encoded (CLI)",
             [BN.rule_bnd, TT.rule_sent, TT.rule_nest, TT.rule_chr, TT.rule_intarg, PG.rule_prog, TT.rule_def, TT.rule_raise, TT.rule_cli],
             assumptions=["negative indices wrap in Python and cannot raise on a non-empty string: only upper bounds are obligations",
                          "endLine arguments of ParserBlock.tokenize are <= lineMax (all resolved callers pass lineMax, their own "
                          "endLine or a scanned nextLine)",
                          "image re-enters the inline parser on a fresh state; its depth is bounded by the label scan's skipToken guard (not checked)"],
             not_decided="totality itself: strictness of the advance of a *matching* rule in the two dispatch loops (a contract between "
                         "dispatcher and rules: decided is that a match writes the cursor, and that every other loop has a variant), "
                         "absence of every exception class (RecursionError inside re, TypeError from plugin-supplied values)"))
    from .rules import token_rules as TK
    reg(Prop("C02", "construction discipline of the token stream: the token constructors keep level bookkeeping (LVL); every rule and "
             "dispatcher is level-neutral on every path and open/close literals agree (PAIR); only push adds tokens / stores the "
             "level in the rule modules (PUSH); validation mode is pure (SILENT); children only on inline / image carriers (KIDS); "
             "the placeholder kind text_special is eliminated in every list the inline parser can fill (LIFE); two stream "
             "positions are exchanged only across closing tokens of the moving rule's own pair (MOVE)",
             [TK.rule_lvl, TK.rule_pair, TK.rule_push, TK.rule_silent, TK.rule_kids, TK.rule_life],
             not_decided="that delimiter matching (balance_pairs) pairs correctly for every delimiter sequence, that adjacent text is "
                         "always merged, and markup equality of the retyped emphasis pairs beyond the literals (index arithmetic "
                         "over runtime lists)"))
    from .rules import map_rules as MP
    from .rules import linecap_rules as LC
    reg(Prop("C03", "map identity: a block token's map is [the line the rule was entered on, the cursor the rule returns with]; "
             "placeholder ends ([x, 0]) are patched with the cursor on every path to return True; the reference table's map "
             "entries obey the same identity (MAP); the cursor - hence every map end - never exceeds lineMax, which starts as the "
             "number of lines and is only shrunk within the region or restored: state.line <= state.lineMax at every return of "
             "every block rule and of the dispatcher, as a co-inductive contract validated at every dispatch (LINECAP); the line scans "
             "behind paragraphs, setext headings and reference definitions step over a line only after isEmpty of that line failed, "
             "so those blocks contain and end on non-blank lines, and a scan that steps over blank lines on purpose (indented code) "
             "returns with a cursor that lies right after a non-blank line (NONBLANK)",
             [MP.rule_map, LC.rule_linecap],
             not_decided="b < e, non-blank first line and non-blank last line of the other block kinds, nesting inside the parent's map, ordering of siblings and coverage of "
                         "every non-blank line (line arithmetic over runtime tables); for the line count of a reference definition only its "
                         "provenance is decided - it sums line-feed counts of the raw source text (NLCOUNT) - not that the sum is the "
                         "number of lines the definition occupies"))
    from .rules import ctx_rules as CX
    reg(Prop("C07", "no parser state leaks out of a block rule: blkIndent, listIndent, lineMax and every line-table cell a rule writes "
             "hold their entry values at every return of every block rule and of the dispatcher (CTX); the two unrestored fields "
             "are dead at rule exit - tight is rewritten after every dispatch and before its only read, parentType is a literal of "
             "the dispatching rule wherever its only (validation-mode) reader can run (FRESH); the nesting level by PAIR; "
             "blockquote's save lists stay in lockstep with the lines they save (LOCK)",
             [CX.rule_ctx, CX.rule_fresh, CX.rule_lock, TK.rule_pair],
             not_decided="the concatenation law itself (that the blocks of A + blank + B are those of A followed by those of B)"))
    from .rules import frame_rules as FR
    reg(Prop("C17", "input normalisation is first and complete: normalize is the first core rule in the table and in every preset, "
             "and the string it stores back has, on every path, no CR LF pair, no lone CR and no NUL left (NORM, with the regex "
             "constants decided as languages); column frames: every tab stop outside the constructor is computed on an absolute "
             "column - on every alternative of a conditional column expression -, stores to bsCount keep it absolute, per-line marker "
             "flags in column arithmetic come from their own line, and a line-table cell used through a local is not hoisted out of a "
             "loop that moves to other lines, nor read once before a loop over lines (FRAME); a regular expression applied by a block "
             "rule accepts a tab wherever it accepts a space (SPACETAB)",
             [FR.rule_norm, FR.rule_frame],
             assumptions=["the regex language facts are decided by handing the extracted constant patterns to the re engine on all "
                          "strings over a three-letter alphabet up to length 5; no repository code runs"],
             not_decided="full tab / space equivalence of structural whitespace (column arithmetic over runtime tables), and that no "
                         "later rule re-introduces CR / NUL into content"))
    from .rules import payload_rules as PL
    reg(Prop("C08", "provenance of recorded text: the content of code_block / fence / html_block / code_inline, the markup and info of "
             "block tokens and the ordered-list start are built from source slices (src[a:b], src[i], getLines) by an allowed-"
             "transform list only (PROV); the indent handed to getLines is a column quantity (UNIT); no Unicode-blank-sensitive "
             "predicate on a verbatim payload, and the code-span padding is removed only under the three documented tests (UBLANK); "
             "both ends of a raw source slice in a block rule derive from the line-table cells of one and the same line on every "
             "path, so that text crossing a line boundary goes through getLines (ONELINE); a markup string built by repeating the "
             "marker has as many characters as the scan consumed (COUNT: the repetition count against the scan counter, by value "
             "numbering); the tab stops getLines re-pads on are absolute columns of the line being cut (FRAME)",
             [PL.rule_prov, PL.rule_unit, PL.rule_ublank],
             not_decided="column-exact indentation removal inside getLines beyond the frame of its tab stops, and counts other than "
                         "the repetition-built markup (COUNT)"))
    reg(Prop("C09", "the four tables of escapable characters (escape rule, ASCII-punctuation predicate, unescapeAll, ESCAPE_CHAR) denote "
             "one set, the 32 ASCII punctuation characters; escape and entity emit the placeholder kind text_special carrying the "
             "literal (TABLES); the placeholder is turned back into text in every list the inline parser fills, image descriptions "
             "included, by an eliminator no return of which bypasses its loop and which calls itself on the children of every "
             "element (LIFE); text accumulators are never overwritten inside their loop, and table rows are cut at pipes only by the "
             "escape-aware splitter (ACCUM); numeric character references are recognised in either case by both decoders (TABLES); the "
             "alt attribute of an image is recomputed from the image's own children, never taken from raw source (RWRITE)",
             [PL.rule_tables, TK.rule_life, PL.rule_accum],
             not_decided="literalness in each of the seven inline contexts for every text t (behaviour of the inline rules on runtime "
                         "strings), in particular the escape handling inside link titles / destinations"))
    from .rules import switch_rules as SW
    reg(Prop("C10", "switch discipline: compiled chains contain exactly the enabled rules filtered by chain (CHAIN) and are never served "
             "after a flag changed (CACHE); token kind -> "
             "producing rules equals the reviewed table, rule functions are reached only through dispatch, and the zero preset can "
             "only produce paragraph / text (PRODUCERS); html kinds are pushed only under a true test of option html (RAW); the "
             "facade applies each rule-management request to all four rulers with the same names (FANOUT); item access, attribute "
             "read and attribute write of an option hit one cell (OPTKEY); every effect of table / strikethrough is dominated by "
             "its trigger test (TRIG); option-gated statements are confined to their documented addition (GATE); every empty-tag "
             "kind - `definition` included - has a render rule (RENDEX)",
             [RR.rule_chain, SW.rule_producers, RN.rule_raw, SW.rule_fanout, SW.rule_optkey, SW.rule_trig, SW.rule_gate, RN.rule_rendex],
             not_decided="identity of the token stream with an extension on vs off for all trigger-free inputs (decided is only that "
                         "no effect escapes the trigger test), and equality of env / HTML under inline_definitions / store_labels"))
    from .rules import ref_rules as RF
    reg(Prop("C16", "references act through env: the caller's env object reaches every parser state by identity (ENV); every access to "
             "env['references'] is keyed by normalizeReference, the table is created only when absent, the first definition wins "
             "and later ones go to duplicate_refs (REFKEY); normalizeReference trims, collapses blanks and applies a full case "
             "fold (FOLD, RESUB); definition, link and image share the destination / title helpers and normalizeLink (SIB); the "
             "recorded map of a definition obeys the map identity (MAP); the definition's text is cut by getLines, never by a raw "
             "slice across lines that would keep the prefixes of enclosing containers (ONELINE); the number of lines a definition "
             "claims sums line-feed counts of its raw source text only, never of decoded text, and the scans that count move one "
             "character at a time, leaving no character untested for LF (NLCOUNT)",
             [RF.rule_env, RF.rule_refkey, RF.rule_fold, RF.rule_resub, RF.rule_sib, MP.rule_map],
             not_decided="that parsing with a seeded env equals parsing the prepended definitions (equality of two parses), that the "
                         "reference form and the inline form yield equal tokens, and that the line count of a multi-line definition is "
                         "exact (decided: its provenance and that no scanned character escapes the LF test)"))
    from .rules import typo_rules as TY
    reg(Prop("C18", "renderer-only options (xhtmlOut, breaks, langPrefix, highlight) are read only by their documented render methods, "
             "by nothing in the parse phase, and the self-closing spelling hangs on xhtmlOut's true branch at every site (OPTREAD); "
             "the inline phase is closed over (content, md, env, token list) - nothing reachable from ParserInline.parse sees a block "
             "or core state, every core rule that walks the block stream visits all of it, and every inline token reaches the inline "
             "parser on every path of the loop that fills them (INCLOSE); the parse phase writes per-call objects only (EFF); the "
             "placeholder eliminator also runs in inline mode, i.e. covers every inline token of the stream (LIFE)",
             [TY.rule_optread, TY.rule_inclose, EF.rule_eff, TK.rule_life],
             not_decided="that each block context hands the inline text over unchanged (trimming / cell splitting are behaviour of the "
                         "block rules), and parseInline == the single paragraph's children as an equality of two parses"))
    reg(Prop("C19", "the typographic rules write only `.content` of tokens under a `type == 'text'` fact (and, for the replacements, "
             "outside autolinks, whose bookkeeping no path can bypass), never restructure a token list or build tokens; replaceAt "
             "substitutes exactly one character and is called with the apostrophe / configured quotes; positions taken from one regex "
             "match are translated by the same offset everywhere in a function, and are applied to the text only while the searched "
             "snapshot is current (TYPO); the core pipeline runs "
             "inline < replacements, smartquotes < text_join (ORDER); escape / entity emit text_special, never plain text (TABLES)",
             [TY.rule_typo, TY.rule_order, PL.rule_tables],
             not_decided="index bookkeeping of replaceAt for multi-character quotes (pos arithmetic), and that smartquotes leaves "
                         "autolink text alone (it does not on the pinned tree; the property's statement does not require it)"))
    from .rules import guard_rules as GD
    reg(Prop("C20", "the complexity guards whose removal changes no output are present and consulted on every path: skipToken's memo "
             "(lookup dominates dispatch, stored on every exit past a miss), the backtick closer cache, the delimiter lower bounds "
             "(read key == written key, jump table used on every step), the paren-depth cap inside the destination scan, cursor-to-"
             "end when the nesting cap is hit, the autolink scan gives up at the next `<` (GUARD); every recursive dispatch is capped "
             "by maxNesting (NEST); a block rule "
             "consumes what it scans (SCAN); every while loop has a variant (LOOPVAR)",
             [GD.rule_guard, TT.rule_nest, GD.rule_scan],
             not_decided="the growth law itself (work per character as the input doubles) and regex backtracking inside `re`"))
    # rules shared across properties (appended here because their modules are imported above)
    props["C01"].rules.append(GD.rule_guard)           # cap branch must consume its range (else: non-termination)
    from .rules import loop_rules as LP
    props["C01"].rules.append(LP.rule_loopvar)         # every while loop has a variant (no hang)
    from .rules import bnd_rules as BN2
    props["C01"].rules.append(BN2.rule_tokbnd)         # token / delimiter list subscripts are in range
    props["C20"].rules.append(LP.rule_loopvar)
    props["C17"].rules.append(FR.rule_spacetab)        # block-rule regexes accept tab wherever they accept space
    props["C02"].rules.append(TK.rule_move)            # a token is moved only across closers of its own pair
    props["C04"].rules.append(TK.rule_move)
    from .rules import partial_rules as PT
    props["C01"].rules.append(PT.rule_partial)         # dict reads, optional regex matches, index / remove / next stay in their domain
    props["C03"].rules.append(RF.rule_nlcount)         # the lines a reference definition claims are the line feeds of its source text
    props["C16"].rules.append(RF.rule_nlcount)
    props["C03"].rules.append(MP.rule_nonblank)        # inline containers / reference definitions contain and end on non-blank lines
    props["C03"].rules.append(TT.rule_unisplit)        # lines are split at LF only (no Unicode-aware splitlines on the source)
    props["C17"].rules.append(TT.rule_unisplit)
    props["C11"].rules.append(SW.rule_fanout)          # the same coherence through the facade
    props["C09"].rules.append(EF.rule_rwrite)          # the alt attribute is recomputed from the image's children, never from raw source
    props["C10"].rules.append(RR.rule_cache)           # a stale compiled chain keeps running a rule that was switched off
    props["C14"].rules.append(RR.rule_cache)           # ... and makes the restored flags of reset_rules ineffective
    props["C14"].rules.append(RR.rule_swallow)         # an exception from user code propagates
    props["C14"].rules.append(SW.rule_fanout)          # reset_rules restores all four rulers with enableOnly
    props["C08"].rules.append(PL.rule_oneline)         # raw source slices never span lines
    props["C16"].rules.append(PL.rule_oneline)
    props["C08"].rules.append(PL.rule_count)           # repetition-built markup has the scanned number of characters
    props["C08"].rules.append(FR.rule_frame)           # getLines re-pads partial tabs on the absolute column of the line it cuts
    props["C12"].rules.append(EF.rule_eff_config)      # creating / configuring one instance writes nothing shared
    props["C13"].rules.append(EF.rule_alias)           # class-level mutables are shared between concurrent parses too
    return props


WIP = "check not yet implemented in this revision (work in progress); see DESIGN.md section 4"
NOT_APPLICABLE = {f"C{i:02d}": WIP for i in range(1, 21)}
NOT_APPLICABLE["C06"] = ("a metamorphic relation between the parses of two different inputs (document vs quoted / list-indented "
                         "document): its truth lies in column and line arithmetic over runtime tables of two executions, which no "
                         "sound static rule in reach can bound; the structural necessary conditions (context restoration, column "
                         "frames) are claimed under C07 and C17 instead")

TECHNIQUE = {
    "C20": "dominance and must-pass-through checks of the memo / cache / bound guards on per-function CFGs; structural equality "
           "of the lower-bound table's read and write keys; copy-origin (reaching definitions) analysis of the line cursor "
           "against the lookahead cursor; loop-variant check of every while loop; exit-condition check of the autolink scan",
    "C18": "enumeration of every option read into a key -> reader table checked against the documented readers over the call "
           "graph; type-based closure check of the inline phase; iteration-form and must-pass-through checks of the core rules' "
           "loops over the block stream; write-effect classification",
    "C19": "who-may-write analysis of the typographic rule modules with predicate dominance (type == 'text', autolink counter) "
           "over per-function CFGs; must-pass-through check of the autolink bookkeeping; sibling agreement of match-position "
           "translations; must-equal dataflow between the searched snapshot and the rewritten text; rule-table order check",
    "C16": "alias-chain check of the env object over the resolved call graph; reaching-definition check that every reference-table "
           "key is a normalizeReference result; predicate dominance of the first-wins guard; transform-chain recognition of the "
           "label normaliser; sibling agreement of the three destination / title consumers; one-line check of raw source slices; "
           "provenance analysis (reaching definitions through helper returns, tuples and record fields) of the line count that "
           "moves the block cursor past a definition",
    "C10": "truth-table simulation of the chain-compilation loop; call-graph computation of token-kind producers against a "
           "reviewed table; edge-dominance of effects by trigger / option tests on per-function CFGs; sibling agreement of the "
           "facade's fan-out and of the option accessors; typestate of the compiled-chain cache over the Ruler methods",
    "C08": "provenance (taint-style) analysis over reaching definitions with an allowed-transform grammar; unit (column vs "
           "character) typing of getLines arguments; predicate-dominance check of the padding strip; reaching-definition / "
           "value-numbering check that both ends of a source slice belong to one line; value-numbering relation between a "
           "repetition count and the scan counter; dimension check of getLines' tab stops",
    "C09": "set equality of character tables extracted from literals and regex ASTs; traversal-coverage analysis of the "
           "placeholder eliminator (coverage, totality, closure under children); accumulator-overwrite and escape-unaware-"
           "operation lints; regex-language probes of the numeric-reference patterns; must-pass-through check that the driver hands "
           "every stream element to the eliminator; effect analysis of the renderer's alt computation",
    "C17": "forward dataflow of normalisation facts (no-CRLF / no-CR / no-NUL) through the normalize rule; regex-language "
           "decision of the extracted constants; dimension (absolute vs relative column) check of all tab-stop arithmetic and "
           "bsCount stores (every alternative of conditional expressions); per-iteration definite assignment of the marker "
           "flags; stale-hoist check of line-table cells (on the normal form of the block-rule modules, sa/inline.py); regex-AST "
           "lint: space accepted without tab",
    "C07": "value numbering with symbolic entry values (context fields and line-table cells restored at every return, "
           "co-inductive over the rule set); must-pass-through / dominance checks for the freshness of tight and parentType; "
           "reaching-definition check that the tight value stored after a dispatch predates the dispatch; sibling lockstep of the save "
           "lists; the block-rule modules are first brought to a normal form by behaviour-"
           "preserving inlining of private helpers and dissolution of private records (sa/inline.py)",
    "C03": "value numbering with symbolic entry values over per-rule CFGs (map end == cursor identity) plus a must-pass-through "
           "path check for placeholder patches; zone (difference-bound) dataflow with trace partitioning on a flag for the "
           "cursor <= lineMax contract, assumed co-inductively after each dispatch and validated at every call site; must-dataflow of "
           "`isEmpty(cursor)` outcomes at every step of the paragraph-like line scans; provenance of the reference line count",
    "C02": "typestate (flag valuation x level offset) over per-function CFGs with co-inductive callee summaries; value numbering "
           "of the push bodies specialised on the nesting literal; literal-agreement and who-may-write queries; dominance of "
           "`not silent` via predicate dataflow; traversal-coverage analysis of the placeholder eliminator; guard check of the loop "
           "that decides how far a token is moved",
    "C01": "zone (difference-bound) dataflow over per-function CFGs for index bounds with validated entry contracts; value "
           "numbering with symbolic entry values for cursor progress / restoration; definite-assignment dataflow with flag "
           "correlation (origin classes); loop-variant check of every while loop (zone facts against a ghost snapshot of the "
           "iteration start, must-pass-through for the dispatcher fallback); sibling lockstep and who-may-raise queries; "
           "must-dataflow of guard facts (key present / match tested) with two-literal disjunctions for the partial operations; "
           "interval evaluation of the code-point validity predicate; codec classification of every decoder call",
    "C04": "taint-style decomposition of renderer return values over reaching definitions; dominance of the html-option test "
           "via predicate dataflow; literal-vocabulary check of all token construction sites",
    "C05": "forward dataflow over per-function CFGs with a sanitizer lattice (Const/Env/NormChecked/NormUnchecked/Raw); "
           "truth-table simulation of validateLink; regex-AST facts; edge dominance of the destination cursor store by the "
           "validator test",
    "C12": "write-effect classification by inferred object type over the API-reachable call graph; alias/taint check of preset "
           "objects; import allow-list; the same effect classification over the construction / configuration phase",
    "C13": "write-effect classification (no shared writes) plus a CFG reachability check that nothing mutates the chain cache "
           "after its publication",
    "C14": "write-effect classification plus CFG comparison of the normal and the exceptional successor sets of every yield in a "
           "@contextmanager; return-value check of every __exit__; typestate of the chain cache and fan-out agreement of reset_rules",
    "C15": "effect analysis of the render phase restricted to Token-typed receivers; freshness (copy) check of scratch tokens; "
           "class-hierarchy query that node equality is identity wherever a node is searched for by equality",
    "C11": "typestate analysis over per-method CFGs with exceptional edges and interprocedural method summaries; "
           "who-may-write effect query; truth-table simulation of the chain-compilation loop; zone / predicate dataflow (with trace "
           "partitioning on a flag) that the -1 sentinel of the name lookup is excluded before the result is used as a position",
}
