"""Small syntactic normalisers shared by the rules, so that equivalent spellings are recognised alike:
comparisons in either operand order, `x += c` vs `x = x + c`."""
from __future__ import annotations

import ast

U = ast.unparse
_FLIP = {ast.Lt: ast.Gt, ast.Gt: ast.Lt, ast.LtE: ast.GtE, ast.GtE: ast.LtE, ast.Eq: ast.Eq, ast.NotEq: ast.NotEq}


def cmp_oriented(test: ast.AST, is_subject) -> tuple[ast.AST, type, ast.AST] | None:
    """For a two-operand comparison, return (subject, op type, other) with the operand satisfying `is_subject` on the left
    (flipping the operator if needed); None if the test is not such a comparison."""
    if not (isinstance(test, ast.Compare) and len(test.ops) == 1):
        return None
    a, b, op = test.left, test.comparators[0], type(test.ops[0])
    if is_subject(a):
        return a, op, b
    if is_subject(b) and op in _FLIP:
        return b, _FLIP[op], a
    return None


def incr_of(stmt: ast.AST) -> tuple[str, ast.AST, bool] | None:
    """(target text, amount expr, is_add) for `x += e`, `x -= e`, `x = x + e`, `x = e + x`, `x = x - e`."""
    if isinstance(stmt, ast.AugAssign) and isinstance(stmt.op, (ast.Add, ast.Sub)):
        return U(stmt.target), stmt.value, isinstance(stmt.op, ast.Add)
    if isinstance(stmt, ast.Assign) and len(stmt.targets) == 1 and isinstance(stmt.value, ast.BinOp) and isinstance(stmt.value.op, (ast.Add, ast.Sub)):
        t = U(stmt.targets[0])
        if U(stmt.value.left) == t:
            return t, stmt.value.right, isinstance(stmt.value.op, ast.Add)
        if isinstance(stmt.value.op, ast.Add) and U(stmt.value.right) == t:
            return t, stmt.value.left, True
    return None


def const_int(e: ast.AST) -> int | None:
    if isinstance(e, ast.Constant) and isinstance(e.value, int) and not isinstance(e.value, bool):
        return e.value
    if isinstance(e, ast.UnaryOp) and isinstance(e.op, ast.USub) and isinstance(e.operand, ast.Constant) and isinstance(e.operand.value, int):
        return -e.operand.value
    return None
