"""Finite typestate propagation over a CFG (per path, including exceptional exits)."""
from __future__ import annotations

from typing import Callable, Hashable, Iterable

from .cfg import CFG, Node

Step = Callable[[Node, Hashable, str, Node], Iterable[Hashable]]


def propagate(cfg: CFG, entry_states: Iterable[Hashable], step: Step) -> dict[int, set]:
    """IN[node] = set of abstract states that can reach the entry of node. `step(n, s, label, succ)` yields the
    states flowing along n --label--> succ when n is entered in state s."""
    IN: dict[int, set] = {n.id: set() for n in cfg.nodes}
    IN[cfg.entry.id] = set(entry_states)
    work = [cfg.entry]
    it = 0
    while work:
        n = work.pop()
        it += 1
        if it > 500000:
            raise RuntimeError("typestate propagation does not terminate")
        for (m, label) in n.succ:
            out = set()
            for s in IN[n.id]:
                out.update(step(n, s, label, m))
            if not out <= IN[m.id]:
                IN[m.id] |= out
                work.append(m)
    return IN
