"""Semantics-preserving normalisation of one module before structure-bound rules look at it:

  * calls of the module's private helper functions (``_name``) are inlined into their callers,
  * private ``NamedTuple`` records become plain tuples (``rec.field`` -> ``rec[k]``),
  * a private record class whose instance never leaves the function is replaced by one local per attribute
    (scalar replacement), its ``__init__`` and methods inlined.

The rules that check the *shape* of a function (which cells it saves, in which loop it restores them, which tab-stop
computation uses which offset) are written against the function body.  An extract-function / introduce-record
refactoring keeps the behaviour and moves the shape into helpers; rather than teach every rule every carrier, the
module is brought back to the one-function form and the rules run on that.  Every rewriting step below is applied only
under a side condition that makes it behaviour-preserving; where a condition fails the call is left alone (and the rules
see the helper, as before).  Nothing is executed.

Side conditions
  helper h        module-level ``def _h`` without decorators, *args / **kwargs, nested defs / lambdas, yield, await,
                  global / nonlocal; not (mutually) recursive; every ``return`` is in tail position (last statement of the
                  body, or of an ``if`` branch in tail position; the statements after an ``if`` that returns on one branch
                  are moved into the other) - no return inside a loop, ``try`` or ``with``.
  call site       the call is the first thing the statement evaluates that can have an effect: it is the statement's
                  value, or sits under unary ops, the left / first operand of a binary / boolean / compare op, list /
                  tuple elements or call arguments whose earlier siblings are call-free.  Never in a ``while`` test, a
                  comprehension or a lambda (there, only *expression helpers* - body ``return <expr>`` - are substituted,
                  and only with effect-free actuals).
  parameters      a parameter the helper never assigns whose actual is a name or a constant is substituted; any other
                  actual is evaluated once, in order, into a fresh local.
  locals          a helper local keeps its name unless the caller already has a name like it; then it gets a suffix.
"""
from __future__ import annotations

import ast
import copy
from typing import Any

U = ast.unparse


class _No(Exception):
    pass


def _own_walk(node: ast.AST):
    """ast.walk that does not descend into nested function / class definitions or lambdas (the root is always yielded)."""
    todo = [node]
    first = True
    while todo:
        n = todo.pop()
        if not first and isinstance(n, (ast.FunctionDef, ast.AsyncFunctionDef, ast.ClassDef, ast.Lambda)):
            continue
        first = False
        yield n
        todo.extend(ast.iter_child_nodes(n))


def _stored_names(fn: ast.AST) -> set[str]:
    out: set[str] = set()
    for n in ast.walk(fn):
        if isinstance(n, ast.Name) and isinstance(n.ctx, (ast.Store, ast.Del)):
            out.add(n.id)
        elif isinstance(n, ast.ExceptHandler) and n.name:
            out.add(n.name)
        elif isinstance(n, ast.arg):
            out.add(n.arg)
    return out


def _has_call(e: ast.AST) -> bool:
    return any(isinstance(x, (ast.Call, ast.NamedExpr, ast.Await, ast.Yield, ast.YieldFrom)) for x in ast.walk(e))


def _alloc_class(v: ast.AST | None) -> str | None:
    """Cls for `Cls(...)` and for the allocation marker `Cls.__new__(Cls)`."""
    if isinstance(v, ast.Call) and isinstance(v.func, ast.Name):
        return v.func.id
    if isinstance(v, ast.Call) and isinstance(v.func, ast.Attribute) and v.func.attr == "__new__" and isinstance(v.func.value, ast.Name) \
            and len(v.args) == 1 and U(v.args[0]) == v.func.value.id:
        return v.func.value.id
    return None


def _contains_return(s: ast.AST) -> bool:
    return any(isinstance(x, ast.Return) for x in _own_walk(s))


class Normaliser:
    def __init__(self, src: str, external_names: set[str] | frozenset[str] = frozenset(), max_depth: int = 6) -> None:
        self.tree = ast.parse(src)
        self.external = set(external_names)
        self.max_depth = max_depth
        self.funcs: dict[str, ast.FunctionDef] = {}
        self.classes: dict[str, ast.ClassDef] = {}
        for s in self.tree.body:
            if isinstance(s, ast.FunctionDef):
                self.funcs[s.name] = s
            elif isinstance(s, ast.ClassDef):
                self.classes[s.name] = s
        self.log: list[str] = []
        self.counter = 0
        self._undataclass()
        # (mutually) recursive definitions are never inlined
        edges: dict[str, set[str]] = {}
        defs: dict[str, ast.FunctionDef] = dict(self.funcs)
        for cn, cd in self.classes.items():
            for m in cd.body:
                if isinstance(m, ast.FunctionDef):
                    defs[f"{cn}.{m.name}"] = m
        for name, d in defs.items():
            edges[name] = set()
            for n in ast.walk(d):
                if isinstance(n, ast.Call):
                    if isinstance(n.func, ast.Name) and n.func.id in self.funcs:
                        edges[name].add(n.func.id)
                    elif isinstance(n.func, ast.Attribute):
                        edges[name] |= {k for k in defs if k.endswith("." + n.func.attr)}
        self.recursive: set[str] = set()
        for name in defs:
            seen: set[str] = set()
            todo = list(edges[name])
            while todo:
                x = todo.pop()
                if x in seen:
                    continue
                seen.add(x)
                todo.extend(edges.get(x, ()))
            if name in seen:
                self.recursive.add(name)
        self._ready: dict[int, ast.FunctionDef] = {}
        self._stack: list[str] = []
        self._site_names: dict[tuple[int, str, int], dict[str, str]] = {}
        self._caller_locals: dict[int, set[str]] = {}
        self._keep: list[set[str]] = []          # keeps the name sets alive (their id() is a key)

    def _undataclass(self) -> None:
        """A private `@dataclass` that is only ever constructed without arguments (an accumulator: `saved = _SavedLines()`) is the
        plain class with the `__init__` the decorator generates: every field set to its default (`field(default_factory=F)` ->
        `F()`, evaluated per construction).  The generated __eq__ / __repr__ are not reproduced: the rewrite is applied only when
        the class name occurs in the module as a no-argument constructor call or inside annotations, nowhere else."""
        for name, cd in list(self.classes.items()):
            if not name.startswith("_") or name in self.external or len(cd.decorator_list) != 1 or cd.keywords or cd.bases:
                continue
            d = cd.decorator_list[0]
            if U(d) not in ("dataclass", "dataclasses.dataclass", "dataclass()", "dataclasses.dataclass()"):
                continue
            if any(isinstance(m, ast.FunctionDef) and m.name in ("__init__", "__post_init__", "__new__") for m in cd.body):
                continue
            fields: list[tuple[str, ast.AST]] = []
            ok = True
            for st in cd.body:
                if isinstance(st, ast.AnnAssign) and isinstance(st.target, ast.Name):
                    v = st.value
                    if isinstance(v, ast.Constant):
                        fields.append((st.target.id, v))
                    elif isinstance(v, ast.Call) and U(v.func) in ("field", "dataclasses.field") and not v.args and len(v.keywords) == 1 \
                            and v.keywords[0].arg == "default_factory" and isinstance(v.keywords[0].value, ast.Name) \
                            and v.keywords[0].value.id in ("list", "dict", "set"):
                        fields.append((st.target.id, ast.Call(func=ast.Name(id=v.keywords[0].value.id, ctx=ast.Load()), args=[], keywords=[])))
                    elif isinstance(v, ast.Call) and U(v.func) in ("field", "dataclasses.field") and not v.args and len(v.keywords) == 1 \
                            and v.keywords[0].arg == "default" and isinstance(v.keywords[0].value, ast.Constant):
                        fields.append((st.target.id, v.keywords[0].value))
                    else:
                        ok = False
                elif isinstance(st, ast.Assign):
                    ok = False
            if not ok or not fields:
                continue
            # uses of the class name: no-argument constructor calls, or inside annotations / string annotations
            ann_ids: set[int] = set()
            for n in ast.walk(self.tree):
                for a in ([n.annotation] if isinstance(n, (ast.AnnAssign, ast.arg)) and n.annotation is not None else []) + \
                         ([n.returns] if isinstance(n, ast.FunctionDef) and n.returns is not None else []):
                    ann_ids |= {id(x) for x in ast.walk(a)}
            ctor_ids: set[int] = set()
            for n in ast.walk(self.tree):
                if isinstance(n, ast.Call) and isinstance(n.func, ast.Name) and n.func.id == name:
                    if n.args or n.keywords:
                        ok = False
                    ctor_ids.add(id(n.func))
            for n in ast.walk(self.tree):
                if isinstance(n, ast.Name) and n.id == name and id(n) not in ann_ids and id(n) not in ctor_ids:
                    ok = False
            if not ok:
                continue
            body: list[ast.stmt] = [ast.Assign(targets=[ast.Attribute(value=ast.Name(id="self", ctx=ast.Load()), attr=fn_, ctx=ast.Store())], value=v_, lineno=cd.lineno)
                                    for fn_, v_ in fields]
            init = ast.FunctionDef(name="__init__", args=ast.arguments(posonlyargs=[], args=[ast.arg(arg="self")], kwonlyargs=[], kw_defaults=[], defaults=[]),
                                   body=body, decorator_list=[], returns=ast.Constant(value=None), lineno=cd.lineno, col_offset=cd.col_offset + 4)
            for st in cd.body:
                if isinstance(st, ast.AnnAssign):
                    st.value = None
            cd.decorator_list = []
            first_def = next((i for i, st in enumerate(cd.body) if isinstance(st, ast.FunctionDef)), len(cd.body))
            cd.body.insert(first_def, init)
            ast.fix_missing_locations(cd)
            self.log.append(f"{name}: @dataclass replaced by the __init__ it generates")

    # ------------------------------------------------------------------------------------------ classification
    def _helper_ok(self, h: ast.FunctionDef) -> bool:
        if h.decorator_list or h.args.vararg or h.args.kwarg or h.args.posonlyargs:
            return False
        for n in ast.walk(h):
            if n is not h and isinstance(n, (ast.FunctionDef, ast.AsyncFunctionDef, ast.ClassDef, ast.Lambda)):
                return False
            if isinstance(n, (ast.Yield, ast.YieldFrom, ast.Await, ast.Global, ast.Nonlocal)):
                return False
        for d in list(h.args.defaults) + [d for d in h.args.kw_defaults if d is not None]:
            if not isinstance(d, ast.Constant):
                return False
        return True

    def namedtuples(self) -> dict[str, list[str]]:
        out: dict[str, list[str]] = {}
        for name, cd in self.classes.items():
            if not name.startswith("_") or name in self.external:
                continue
            if len(cd.bases) != 1 or U(cd.bases[0]) not in ("NamedTuple", "typing.NamedTuple"):
                continue
            fields = []
            ok = True
            for s in cd.body:
                if isinstance(s, ast.Expr) and isinstance(s.value, ast.Constant):
                    continue
                if isinstance(s, ast.AnnAssign) and isinstance(s.target, ast.Name) and s.value is None:
                    fields.append(s.target.id)
                else:
                    ok = False
            if ok and fields:
                out[name] = fields
        return out

    def record_classes(self) -> dict[str, ast.ClassDef]:
        out = {}
        for name, cd in self.classes.items():
            if not name.startswith("_") or name in self.external or cd.decorator_list or cd.keywords:
                continue
            if any(U(b) != "object" for b in cd.bases):
                continue
            ok = True
            for s in cd.body:
                if isinstance(s, ast.Expr) and isinstance(s.value, ast.Constant):
                    continue
                if isinstance(s, ast.AnnAssign) and s.value is None:
                    continue
                if isinstance(s, ast.Assign) and len(s.targets) == 1 and U(s.targets[0]) == "__slots__":
                    continue
                if isinstance(s, ast.FunctionDef) and self._helper_ok(s) and s.args.args and not (s.name.startswith("__") and s.name != "__init__"):
                    continue
                ok = False
            if ok:
                out[name] = cd
        return out

    # ------------------------------------------------------------------------------------------ tail form
    def _tailify(self, stmts: list[ast.stmt], res: str | None, as_return: bool) -> tuple[list[ast.stmt], bool]:
        """Rewrite returns in tail position into `res = value` (or keep them, as_return); raise _No when a return is not
        in tail position.  Second component: every path through the result ends in a (rewritten) return."""
        out: list[ast.stmt] = []
        if as_return:
            # the call is itself returned: the helper's returns are the caller's, wherever they stand
            return list(stmts) + [ast.Return(value=ast.Constant(value=None))], True
        for i, s in enumerate(stmts):
            if isinstance(s, ast.Return):
                out.extend(self._store_result(res, s))
                return out, True
            if isinstance(s, (ast.While, ast.For)) and _contains_return(s) and not s.orelse and self._search_loop_ok(s):
                # a search loop: `while c: ... return X ...` followed by the not-found tail.  With no `break` of its own, the loop
                # ends normally exactly when no return was taken, so the tail is its `else` clause and every return becomes
                # "store the result, break".
                rest, rest_always = self._tailify(stmts[i + 1:], res, False)
                if not rest_always:
                    rest = rest + self._store_result(res, ast.copy_location(ast.Return(value=ast.Constant(value=None)), s))
                loop = copy.copy(s)
                loop.body = self._returns_to_breaks(s.body, res)
                # `while True:` never ends normally: its else clause would be dead code
                loop.orelse = [] if isinstance(s, ast.While) and isinstance(s.test, ast.Constant) and s.test.value is True else rest
                out.append(loop)
                return out, True
            if isinstance(s, ast.If) and _contains_return(s):
                rest = stmts[i + 1:]
                b, br = self._tailify(list(s.body) + copy.deepcopy(rest), res, as_return)
                o, orr = self._tailify(list(s.orelse) + copy.deepcopy(rest), res, as_return)
                out.append(ast.copy_location(ast.If(test=s.test, body=b or [ast.Pass()], orelse=o), s))
                return out, br and orr
            if _contains_return(s):
                raise _No("return inside a loop / try / with")
            out.append(s)
        return out, False

    def _store_result(self, res, ret: ast.Return) -> list[ast.stmt]:
        """Statements that deliver the value of `return <value>` to the call site: res is None (value unused), a name, or a
        tuple of names (the call was unpacked)."""
        v = ret.value or ast.Constant(value=None)
        if res is None:
            return [ast.copy_location(ast.Expr(value=v), ret)] if ret.value is not None and _has_call(v) else []
        if isinstance(res, str):
            return [ast.copy_location(ast.Assign(targets=[ast.Name(id=res, ctx=ast.Store())], value=v, lineno=ret.lineno), ret)]
        names = list(res)
        if isinstance(v, ast.Tuple) and len(v.elts) == len(names) and not any(isinstance(e, ast.Starred) for e in v.elts):
            # a, b = E1, E2  ->  a = E1; b = E2   when no later component reads an earlier target
            ok = True
            for k, e in enumerate(v.elts):
                if {x.id for x in ast.walk(e) if isinstance(x, ast.Name)} & set(names[:k]):
                    ok = False
            if ok:
                return [ast.copy_location(ast.Assign(targets=[ast.Name(id=n_, ctx=ast.Store())], value=e, lineno=ret.lineno), ret)
                        for n_, e in zip(names, v.elts)]
        tgt = ast.Tuple(elts=[ast.Name(id=n_, ctx=ast.Store()) for n_ in names], ctx=ast.Store())
        return [ast.copy_location(ast.Assign(targets=[tgt], value=v, lineno=ret.lineno), ret)]

    def _search_loop_ok(self, loop: ast.AST) -> bool:
        """No `break` that belongs to this loop, and every `return` inside it is at the loop's own level (inside `if`s, but not
        inside an inner loop, `try` or `with`)."""
        def scan(stmts: list[ast.stmt]) -> bool:
            for s_ in stmts:
                if isinstance(s_, ast.Break):
                    return False
                if isinstance(s_, ast.If):
                    if not (scan(s_.body) and scan(s_.orelse)):
                        return False
                elif isinstance(s_, (ast.While, ast.For)):
                    if _contains_return(s_):
                        return False
                elif isinstance(s_, ast.Try):
                    # `return` in a try body / handler becomes `break`: handlers and finally clauses run the same way
                    if any(_contains_return(x) for x in s_.finalbody):
                        return False
                    if not (scan(s_.body) and scan(s_.orelse) and all(scan(h.body) for h in s_.handlers) and scan(s_.finalbody)):
                        return False
                elif isinstance(s_, ast.With):
                    if not scan(s_.body):
                        return False
            return True
        return scan(loop.body)

    def _returns_to_breaks(self, stmts: list[ast.stmt], res) -> list[ast.stmt]:
        out: list[ast.stmt] = []
        for s_ in stmts:
            if isinstance(s_, ast.Return):
                out.extend(self._store_result(res, s_))
                out.append(ast.copy_location(ast.Break(), s_))
                return out
            if isinstance(s_, ast.If) and _contains_return(s_):
                n_ = copy.copy(s_)
                n_.body = self._returns_to_breaks(s_.body, res) or [ast.Pass()]
                n_.orelse = self._returns_to_breaks(s_.orelse, res)
                out.append(n_)
            elif isinstance(s_, ast.Try) and _contains_return(s_):
                n_ = copy.copy(s_)
                n_.body = self._returns_to_breaks(s_.body, res) or [ast.Pass()]
                n_.orelse = self._returns_to_breaks(s_.orelse, res)
                n_.handlers = []
                for h in s_.handlers:
                    h2 = copy.copy(h)
                    h2.body = self._returns_to_breaks(h.body, res) or [ast.Pass()]
                    n_.handlers.append(h2)
                out.append(n_)
            elif isinstance(s_, ast.With) and _contains_return(s_):
                n_ = copy.copy(s_)
                n_.body = self._returns_to_breaks(s_.body, res) or [ast.Pass()]
                out.append(n_)
            else:
                out.append(s_)
        return out

    # ------------------------------------------------------------------------------------------ one call
    def _resolve(self, call: ast.Call, fn: ast.FunctionDef, cls_of: dict[str, str]) -> tuple[ast.FunctionDef, ast.AST | None, str] | None:
        """(callee definition, bound self, name) of a call that may be inlined."""
        f = call.func
        if isinstance(f, ast.Name) and f.id.startswith("_") and f.id in self.funcs and f.id not in _stored_names(fn):
            h = self.funcs[f.id]
            if self._helper_ok(h) and f.id not in self.recursive:
                return h, None, f.id
        if isinstance(f, ast.Attribute) and isinstance(f.value, ast.Name) and f.value.id in cls_of:
            cd = self.record_classes().get(cls_of[f.value.id])
            if cd is not None:
                m = next((s for s in cd.body if isinstance(s, ast.FunctionDef) and s.name == f.attr), None)
                if m is not None and f"{cd.name}.{m.name}" not in self.recursive:
                    return m, f.value, f"{cd.name}.{m.name}"
        return None

    def _bind(self, h: ast.FunctionDef, call: ast.Call, self_arg: ast.AST | None) -> dict[str, ast.AST]:
        params = [a.arg for a in h.args.args]
        actual: dict[str, ast.AST] = {}
        pos = list(call.args)
        if any(isinstance(a, ast.Starred) for a in pos) or any(k.arg is None for k in call.keywords):
            raise _No("star args")
        if self_arg is not None:
            pos = [self_arg] + pos
        if len(pos) > len(params):
            raise _No("arity")
        for p, a in zip(params, pos):
            actual[p] = a
        kwonly = [a.arg for a in h.args.kwonlyargs]
        for k in call.keywords:
            if k.arg in actual or k.arg not in params + kwonly:
                raise _No("keyword")
            actual[k.arg] = k.value          # type: ignore[index]
        nd = len(h.args.defaults)
        for p, d in zip(params[len(params) - nd:], h.args.defaults):
            actual.setdefault(p, d)
        for p, d in zip(kwonly, h.args.kw_defaults):
            if d is not None:
                actual.setdefault(p, d)
        for p in params + kwonly:
            if p not in actual:
                raise _No("missing argument")
        # keyword arguments are evaluated after positionals, in call order: keep only calls whose order is the parameter order
        order = [p for p in params + kwonly if p in actual]
        seq = [actual[p] for p in order if _has_call(actual[p])]
        src_order = [a for a in list(call.args) + [k.value for k in call.keywords] if _has_call(a)]
        if [id(x) for x in seq] != [id(x) for x in src_order]:
            raise _No("argument evaluation order")
        return actual

    def _instantiate(self, h: ast.FunctionDef, call: ast.Call, self_arg: ast.AST | None, caller_names: set[str],
                     res: str | None, as_return: bool) -> list[ast.stmt]:
        """Statements equivalent to evaluating `call` (result in `res`)."""
        h = self.prepared(h)
        actual = self._bind(h, call, self_arg)
        body = copy.deepcopy(h.body)
        if body and isinstance(body[0], ast.Expr) and isinstance(body[0].value, ast.Constant) and isinstance(body[0].value.value, str):
            body = body[1:]
        stored = set()
        for s in body:
            stored |= _stored_names(s)
        params = [a.arg for a in h.args.args] + [a.arg for a in h.args.kwonlyargs]
        hlocals = stored | set(params)
        free = {n.id for s in body for n in ast.walk(s) if isinstance(n, ast.Name)} - hlocals
        caller_locals = self._caller_locals.setdefault(id(caller_names), set(caller_names))
        if free & caller_locals:
            # a global of the helper that the caller shadows with a local
            raise _No("free name of the helper is a local of the caller")
        rename: dict[str, str] = {}
        subst: dict[str, ast.AST] = {}
        pre: list[ast.stmt] = []
        taken = set(caller_names) | ({res} if isinstance(res, str) else set(res) if res else set())
        # a second call of the same helper in the same caller reuses the locals of the first (the helper assigns each of
        # its locals before reading it, so nothing is carried over)
        reuse = self._site_names.setdefault((id(caller_names), h.name, id(h)), {})

        def fresh(name: str) -> str:
            if name in reuse:
                return reuse[name]
            reuse[name] = fresh0(name)
            return reuse[name]

        def fresh0(name: str) -> str:
            if name not in taken:
                taken.add(name)
                return name
            k = 1
            while f"{name}_{k}" in taken:
                k += 1
            taken.add(f"{name}_{k}")
            return f"{name}_{k}"
        for p in params:
            a = actual[p]
            if p not in stored and isinstance(a, (ast.Name, ast.Constant)) and not (isinstance(a, ast.Name) and a.id in stored):
                subst[p] = a
            else:
                rename[p] = fresh(p)
                pre.append(ast.copy_location(ast.Assign(targets=[ast.Name(id=rename[p], ctx=ast.Store())], value=copy.deepcopy(a),
                                                        lineno=call.lineno), call))
        for n in sorted(stored - set(params)):
            rename[n] = fresh(n)
        caller_names |= taken
        caller_locals |= set(rename.values())

        class R(ast.NodeTransformer):
            def visit_Name(self, node: ast.Name) -> ast.AST:
                if node.id in subst and isinstance(node.ctx, ast.Load):
                    return copy.deepcopy(subst[node.id])
                if node.id in rename:
                    return ast.copy_location(ast.Name(id=rename[node.id], ctx=node.ctx), node)
                return node

            def visit_ExceptHandler(self, node: ast.ExceptHandler) -> ast.AST:
                self.generic_visit(node)
                if node.name in rename:
                    node.name = rename[node.name]
                return node
        body = [R().visit(s) for s in body]
        new, _always = self._tailify(body, res, as_return)
        if res is not None and not _always and not as_return:
            # falling off the end returns None
            if not isinstance(res, str):
                raise _No("an unpacked call of a helper that can fall off its end")
            new = [ast.Assign(targets=[ast.Name(id=res, ctx=ast.Store())], value=ast.Constant(value=None), lineno=call.lineno)] + new
        return pre + new

    # ------------------------------------------------------------------------------------------ expression helpers
    def _expr_inline(self, call: ast.Call, fn: ast.FunctionDef, cls_of: dict[str, str]) -> ast.AST | None:
        r = self._resolve(call, fn, cls_of)
        if r is None:
            return None
        h, self_arg, name = r
        if name in self._stack:
            return None
        h = self.prepared(h)
        body = [s for s in h.body if not (isinstance(s, ast.Expr) and isinstance(s.value, ast.Constant))]
        if len(body) != 1 or not isinstance(body[0], ast.Return) or body[0].value is None:
            return None
        e = body[0].value
        try:
            actual = self._bind(h, call, self_arg)
        except _No:
            return None
        if any(isinstance(n, (ast.NamedExpr, ast.ListComp, ast.SetComp, ast.DictComp, ast.GeneratorExp)) for n in ast.walk(e)):
            return None
        uses: dict[str, int] = {}
        for n in ast.walk(e):
            if isinstance(n, ast.Name):
                uses[n.id] = uses.get(n.id, 0) + 1
        e_calls = any(isinstance(n, ast.Call) for n in ast.walk(e))
        caller_locals = _stored_names(fn)
        free = set(uses) - set(actual)
        if free & caller_locals:
            return None
        for p, a in actual.items():
            if isinstance(a, (ast.Name, ast.Constant)):
                continue
            if _has_call(a):
                return None
            if e_calls and uses.get(p, 0) > 1:
                return None
        # parameters must appear in evaluation order only matters for calls - excluded above

        class R(ast.NodeTransformer):
            def visit_Name(self, node: ast.Name) -> ast.AST:
                if node.id in actual and isinstance(node.ctx, ast.Load):
                    return copy.deepcopy(actual[node.id])
                return node
        self.log.append(f"{fn.name}: expression helper {name} substituted")
        return R().visit(copy.deepcopy(e))

    # ------------------------------------------------------------------------------------------ hoisting
    def _first_effect_call(self, e: ast.AST, want: ast.Call) -> bool:
        """Is `want` the first effectful thing the evaluation of e reaches?"""
        if e is want:
            return True
        if isinstance(e, ast.UnaryOp):
            return self._first_effect_call(e.operand, want)
        if isinstance(e, ast.BinOp):
            if any(x is want for x in ast.walk(e.left)):
                return self._first_effect_call(e.left, want)
            return not _has_call(e.left) and self._first_effect_call(e.right, want)
        if isinstance(e, ast.BoolOp):
            return self._first_effect_call(e.values[0], want)
        if isinstance(e, ast.Compare):
            if any(x is want for x in ast.walk(e.left)):
                return self._first_effect_call(e.left, want)
            if len(e.comparators) == 1 and not _has_call(e.left):
                return self._first_effect_call(e.comparators[0], want)
            return False
        if isinstance(e, (ast.List, ast.Tuple)):
            for x in e.elts:
                if any(y is want for y in ast.walk(x)):
                    return self._first_effect_call(x, want)
                if _has_call(x):
                    return False
            return False
        if isinstance(e, ast.Call):
            f = e.func
            if not (isinstance(f, ast.Name) or (isinstance(f, ast.Attribute) and not _has_call(f.value))):
                return False
            for x in list(e.args) + [k.value for k in e.keywords]:
                if any(y is want for y in ast.walk(x)):
                    return self._first_effect_call(x, want)
                if _has_call(x):
                    return False
            return False
        if isinstance(e, ast.Subscript):
            if any(x is want for x in ast.walk(e.value)):
                return self._first_effect_call(e.value, want)
            return not _has_call(e.value) and self._first_effect_call(e.slice, want)
        if isinstance(e, ast.Attribute):
            return self._first_effect_call(e.value, want)
        if isinstance(e, ast.IfExp):
            return self._first_effect_call(e.test, want)
        return False

    def _stmt_head(self, s: ast.stmt) -> ast.AST | None:
        """The expression a statement evaluates first (before any target / body)."""
        if isinstance(s, (ast.Expr, ast.Return)):
            return s.value
        if isinstance(s, ast.Assign):
            # subscript / attribute targets are evaluated after the value; their sub-expressions must be call-free
            if all(not _has_call(t) for t in s.targets):
                return s.value
            return None
        if isinstance(s, ast.AnnAssign):
            return s.value if isinstance(s.target, ast.Name) else None
        if isinstance(s, ast.AugAssign):
            return s.value if isinstance(s.target, ast.Name) else None
        if isinstance(s, ast.If):
            return s.test
        if isinstance(s, ast.For):
            return s.iter
        if isinstance(s, ast.Assert):
            return None
        return None

    def _inline_in_block(self, stmts: list[ast.stmt], fn: ast.FunctionDef, cls_of: dict[str, str], names: set[str], depth: int) -> tuple[list[ast.stmt], bool]:
        changed = False
        out: list[ast.stmt] = []
        for s in stmts:
            # recurse into compound statements first (bodies)
            for fld in ("body", "orelse", "finalbody"):
                sub = getattr(s, fld, None)
                if isinstance(sub, list) and sub and isinstance(sub[0], ast.stmt):
                    new, ch = self._inline_in_block(sub, fn, cls_of, names, depth)
                    setattr(s, fld, new)
                    changed |= ch
            if isinstance(s, ast.Try):
                for hd in s.handlers:
                    hd.body, ch = self._inline_in_block(hd.body, fn, cls_of, names, depth)
                    changed |= ch
            head = self._stmt_head(s)
            done = False
            if head is not None:
                for call in [n for n in _own_walk(head) if isinstance(n, ast.Call)]:
                    if any(isinstance(p, (ast.ListComp, ast.SetComp, ast.DictComp, ast.GeneratorExp)) and any(x is call for x in ast.walk(p))
                           for p in ast.walk(head)):
                        continue
                    r = self._resolve(call, fn, cls_of)
                    if r is None:
                        continue
                    h, self_arg, name = r
                    if name in self._stack or depth <= 0:
                        continue
                    if not self._first_effect_call(head, call):
                        continue
                    # arguments of the call itself: evaluated before the body - they stay where they are or go to temporaries
                    try:
                        self._stack.append(name)
                        if isinstance(s, ast.Return) and s.value is call:
                            new = self._instantiate(h, call, self_arg, names, None, True)
                            out.extend(new)
                        elif isinstance(s, ast.Expr) and s.value is call:
                            new = self._instantiate(h, call, self_arg, names, None, False)
                            out.extend(new or [ast.Pass()])
                        elif isinstance(s, ast.Assign) and s.value is call and len(s.targets) == 1 and isinstance(s.targets[0], ast.Name):
                            new = self._instantiate(h, call, self_arg, names, s.targets[0].id, False)
                            out.extend(new)
                        elif isinstance(s, ast.Assign) and s.value is call and len(s.targets) == 1 and isinstance(s.targets[0], ast.Tuple) \
                                and all(isinstance(t, ast.Name) for t in s.targets[0].elts) \
                                and not any(isinstance(a_, ast.Name) and a_.id in {t.id for t in s.targets[0].elts} for a_ in ast.walk(call)):
                            # a, b = helper(...): each `return X, Y` of the helper stores the components directly
                            new = self._instantiate(h, call, self_arg, names, tuple(t.id for t in s.targets[0].elts), False)
                            out.extend(new)
                        else:
                            self.counter += 1
                            res = f"_ret_{name.replace('.', '_').lstrip('_')}_{self.counter}"
                            new = self._instantiate(h, call, self_arg, names, res, False)
                            names.add(res)

                            class Sub(ast.NodeTransformer):
                                def visit_Call(self_, node: ast.Call) -> ast.AST:       # noqa: N805
                                    if node is call:
                                        return ast.copy_location(ast.Name(id=res, ctx=ast.Load()), node)
                                    self_.generic_visit(node)
                                    return node
                            s2 = Sub().visit(s)
                            out.extend(new)
                            out.append(s2)
                        self.log.append(f"{fn.name}: call of {name} inlined")
                        changed = True
                        done = True
                    except _No as e:
                        self.log.append(f"{fn.name}: call of {name} left alone ({e})")
                    finally:
                        self._stack.pop()
                    if done:
                        break
            if not done:
                out.append(s)
        return out, changed

    def _class_typed_locals(self, fn: ast.FunctionDef) -> dict[str, str]:
        """local name -> record class, when every definition of the name in fn is `Cls(...)` (or the parameter is annotated Cls)."""
        recs = self.record_classes()
        defs: dict[str, list[ast.AST | None]] = {}
        for n in _own_walk(fn):
            if isinstance(n, ast.Assign):
                for t in n.targets:
                    for x in ast.walk(t):
                        if isinstance(x, ast.Name) and isinstance(x.ctx, ast.Store):
                            defs.setdefault(x.id, []).append(n.value if x is t else None)
            elif isinstance(n, ast.AnnAssign) and isinstance(n.target, ast.Name):
                defs.setdefault(n.target.id, []).append(n.value)
            elif isinstance(n, (ast.AugAssign, ast.For, ast.comprehension, ast.With, ast.NamedExpr)):
                tgt = n.target if hasattr(n, "target") else None
                if tgt is not None:
                    for x in ast.walk(tgt):
                        if isinstance(x, ast.Name):
                            defs.setdefault(x.id, []).append(None)
            elif isinstance(n, ast.ExceptHandler) and n.name:
                defs.setdefault(n.name, []).append(None)
        out: dict[str, str] = {}
        for name, vs in defs.items():
            cl = {_alloc_class(v) for v in vs}
            if len(cl) == 1 and None not in cl and next(iter(cl)) in recs and name not in {a.arg for a in fn.args.args}:
                out[name] = next(iter(cl))          # type: ignore[assignment]
        for a in fn.args.args + fn.args.kwonlyargs:
            if a.annotation is not None and U(a.annotation) in recs and a.arg not in defs:
                out[a.arg] = U(a.annotation)
        return out

    def prepared(self, fn: ast.FunctionDef) -> ast.FunctionDef:
        """fn with the inlinable calls in its own body inlined (bottom-up, memoised)."""
        if id(fn) in self._ready:
            return self._ready[id(fn)]
        self._ready[id(fn)] = fn            # recursion guard: a recursive reference sees the untouched definition
        # every name the caller mentions is taken: a helper local must not capture a global / builtin the caller uses
        names = _stored_names(fn) | {n.id for n in ast.walk(fn) if isinstance(n, ast.Name)}
        self._caller_locals[id(names)] = _stored_names(fn)
        self._keep.append(names)
        self._stack.append(fn.name)
        try:
            return self._prepare(fn, names)
        finally:
            self._stack.pop()

    def _prepare(self, fn: ast.FunctionDef, names: set[str]) -> ast.FunctionDef:
        for _ in range(self.max_depth):
            cls_of = self._class_typed_locals(fn)
            # expression helpers anywhere (while tests, nested expressions)
            exp_changed = False

            outer = self

            class E(ast.NodeTransformer):
                def visit_Lambda(self, node: ast.Lambda) -> ast.AST:
                    return node

                def visit_FunctionDef(self, node: ast.FunctionDef) -> ast.AST:
                    if node is fn:
                        self.generic_visit(node)
                    return node

                def visit_Call(self, node: ast.Call) -> ast.AST:
                    nonlocal exp_changed
                    self.generic_visit(node)
                    new = outer._expr_inline(node, fn, cls_of)
                    if new is not None:
                        exp_changed = True
                        return ast.copy_location(new, node)
                    return node
            E().visit(fn)
            fn.body, ch = self._inline_in_block(fn.body, fn, cls_of, names, self.max_depth)
            ch |= self._init_inline(fn, names)
            if not (ch or exp_changed):
                break
        return fn

    def _init_inline(self, fn: ast.FunctionDef, names: set[str]) -> bool:
        """`x = Cls(args)` of a record class: keep the allocation as a marker `x = Cls.__new__(Cls)` and inline __init__."""
        recs = self.record_classes()
        changed = False

        def walk(stmts: list[ast.stmt]) -> list[ast.stmt]:
            nonlocal changed
            out: list[ast.stmt] = []
            for s in stmts:
                for fld in ("body", "orelse", "finalbody"):
                    sub = getattr(s, fld, None)
                    if isinstance(sub, list) and sub and isinstance(sub[0], ast.stmt):
                        setattr(s, fld, walk(sub))
                if isinstance(s, ast.Try):
                    for hd in s.handlers:
                        hd.body = walk(hd.body)
                if (isinstance(s, ast.Assign) and len(s.targets) == 1 and isinstance(s.targets[0], ast.Name) and isinstance(s.value, ast.Call)
                        and isinstance(s.value.func, ast.Name) and s.value.func.id in recs):
                    cd = recs[s.value.func.id]
                    x = s.targets[0].id
                    init = next((m for m in cd.body if isinstance(m, ast.FunctionDef) and m.name == "__init__"), None)
                    if any(_has_call(a) for a in s.value.args) and any(isinstance(n, ast.Name) and n.id == x for a in s.value.args for n in ast.walk(a)):
                        out.append(s)
                        continue
                    alloc = ast.copy_location(ast.Assign(targets=[ast.Name(id=x, ctx=ast.Store())], value=ast.Call(
                        func=ast.Attribute(value=ast.Name(id=cd.name, ctx=ast.Load()), attr="__new__", ctx=ast.Load()),
                        args=[ast.Name(id=cd.name, ctx=ast.Load())], keywords=[]), lineno=s.lineno), s)
                    try:
                        body = self._instantiate(init, s.value, ast.Name(id=x, ctx=ast.Load()), names, None, False) if init is not None else []
                    except _No:
                        out.append(s)
                        continue
                    out.append(alloc)
                    out.extend(body)
                    changed = True
                    self.log.append(f"{fn.name}: {cd.name}.__init__ inlined for `{x}`")
                    continue
                out.append(s)
            return out
        fn.body = walk(fn.body)
        return changed

    # ------------------------------------------------------------------------------------------ scalar replacement
    def _sroa(self, fn: ast.FunctionDef) -> bool:
        recs = self.record_classes()
        changed = False
        allocs: dict[str, list[ast.Assign]] = {}
        for n in _own_walk(fn):
            if isinstance(n, ast.Assign) and len(n.targets) == 1 and isinstance(n.targets[0], ast.Name) and isinstance(n.value, ast.Call) \
                    and isinstance(n.value.func, ast.Attribute) and n.value.func.attr == "__new__" and isinstance(n.value.func.value, ast.Name) \
                    and n.value.func.value.id in recs:
                allocs.setdefault(n.targets[0].id, []).append(n)
        parents: dict[ast.AST, ast.AST] = {}
        for p in ast.walk(fn):
            for ch in ast.iter_child_nodes(p):
                parents[ch] = p
        names = _stored_names(fn)
        for x, als in allocs.items():
            ok = True
            attrs: set[str] = set()
            for n in ast.walk(fn):
                if isinstance(n, ast.Name) and n.id == x:
                    p = parents.get(n)
                    if isinstance(p, ast.Assign) and p in als and n is p.targets[0]:
                        continue
                    if isinstance(p, ast.Attribute) and p.value is n:
                        gp = parents.get(p)
                        if isinstance(gp, ast.Call) and gp.func is p:
                            ok = False          # a method call that was not inlined
                        attrs.add(p.attr)
                        continue
                    ok = False
            if not ok:
                self.log.append(f"{fn.name}: record `{x}` escapes or has residual method calls - kept")
                continue
            new_names = {}
            for a in sorted(attrs):
                cand = f"{x}_{a}"
                k = 0
                while cand in names:
                    k += 1
                    cand = f"{x}_{a}_{k}"
                names.add(cand)
                new_names[a] = cand

            class R(ast.NodeTransformer):
                def visit_Attribute(self, node: ast.Attribute) -> ast.AST:
                    if isinstance(node.value, ast.Name) and node.value.id == x:
                        return ast.copy_location(ast.Name(id=new_names[node.attr], ctx=node.ctx), node)
                    self.generic_visit(node)
                    return node

                def visit_AnnAssign(self, node: ast.AnnAssign) -> ast.AST:
                    self.generic_visit(node)
                    if isinstance(node.target, ast.Name):
                        node.simple = 1
                    return node
            R().visit(fn)

            def drop(stmts: list[ast.stmt]) -> list[ast.stmt]:
                out = []
                for s in stmts:
                    if any(s is a for a in als):
                        continue
                    for fld in ("body", "orelse", "finalbody"):
                        sub = getattr(s, fld, None)
                        if isinstance(sub, list) and sub and isinstance(sub[0], ast.stmt):
                            setattr(s, fld, drop(sub) or [ast.Pass()])
                    if isinstance(s, ast.Try):
                        for hd in s.handlers:
                            hd.body = drop(hd.body) or [ast.Pass()]
                    out.append(s)
                return out
            fn.body = drop(fn.body) or [ast.Pass()]
            changed = True
            self.log.append(f"{fn.name}: record `{x}` replaced by locals {sorted(new_names.values())}")
        return changed

    # ------------------------------------------------------------------------------------------ named tuples
    def _untuple(self, phase: int = 1) -> bool:
        """phase 1 (before inlining): NamedTuple records -> tuples.  phase 2 (after): an unpacking store into cells /
        attributes from a local known to hold an n-tuple display -> n single stores."""
        nts = self.namedtuples()
        if not nts and phase == 1:
            return False
        changed = False
        ret_type: dict[str, str] = {}
        for name, h in self.funcs.items():
            if h.returns is not None:
                ret_type[name] = U(h.returns)

        def norm(t: str | None) -> str | None:
            if t is None:
                return None
            t = t.strip("'\"")
            if t in nts:
                return t
            if t.startswith(("tuple[", "Tuple[")) and "..." not in t and t.count("[") == 1:
                return f"tup{t.count(',') + 1}"
            for pre in ("list[", "List[", "Sequence[", "Iterable[", "Iterator[", "MutableSequence["):
                if t.startswith(pre) and t.endswith("]") and t[len(pre):-1] in nts:
                    return "list[" + t[len(pre):-1] + "]"
            return None
        parents: dict[ast.AST, ast.AST] = {}
        for p_ in ast.walk(self.tree):
            for ch_ in ast.iter_child_nodes(p_):
                parents[ch_] = p_
        # constructor calls outside any function (module / class level) escape
        in_func: set[int] = set()
        for fn in [n for n in ast.walk(self.tree) if isinstance(n, ast.FunctionDef)]:
            in_func |= {id(x) for x in ast.walk(fn)}
        for n in ast.walk(self.tree):
            if isinstance(n, ast.Call) and isinstance(n.func, ast.Name) and n.func.id in nts and id(n) not in in_func:
                nts.pop(n.func.id)
        passes = ([0] if phase == 1 else []) + [phase]
        escaped: set[str] = set()
        for pass_, fn in [(ps, n) for ps in passes for n in ast.walk(self.tree) if isinstance(n, ast.FunctionDef)]:
            if pass_ == phase and escaped:
                for k in escaped:
                    if k in nts:
                        self.log.append(f"record {k} escapes the functions that build it - kept")
                        nts.pop(k)
                escaped = set()
                if not nts and phase == 1:
                    return False
            types: dict[str, str] = {}
            for a in fn.args.args + fn.args.kwonlyargs:
                t = norm(U(a.annotation)) if a.annotation is not None else None
                if t:
                    types[a.arg] = t

            def etype(e: ast.AST) -> str | None:
                if isinstance(e, ast.Name):
                    return types.get(e.id)
                if isinstance(e, ast.Call):
                    if isinstance(e.func, ast.Name):
                        if e.func.id in nts:
                            return e.func.id
                        if e.func.id in ret_type:
                            return norm(ret_type[e.func.id])
                        if e.func.id in ("reversed", "list", "sorted", "tuple") and e.args:
                            return etype(e.args[0])
                    if isinstance(e.func, ast.Attribute) and e.func.attr == "pop":
                        t = etype(e.func.value)
                        return t[5:-1] if t and t.startswith("list[") else None
                    return None
                if isinstance(e, ast.Tuple) and not any(isinstance(x, ast.Starred) for x in e.elts):
                    return f"tup{len(e.elts)}"
                if isinstance(e, ast.List) and e.elts:
                    ts = {etype(x) for x in e.elts}
                    if len(ts) == 1 and (next(iter(ts)) in nts or str(next(iter(ts))).startswith("tup")):
                        return f"list[{next(iter(ts))}]"
                    return None
                if isinstance(e, ast.Subscript):
                    t = etype(e.value)
                    if t and t.startswith("list["):
                        return t if isinstance(e.slice, ast.Slice) else t[5:-1]
                    return None
                if isinstance(e, ast.IfExp):
                    a, b = etype(e.body), etype(e.orelse)
                    return a if a == b else None
                return None

            def bind(target: ast.AST, it: ast.AST) -> bool:
                """for target in it"""
                if isinstance(it, ast.Call) and isinstance(it.func, ast.Name) and it.func.id == "enumerate" and it.args:
                    if isinstance(target, ast.Tuple) and len(target.elts) == 2:
                        return bind(target.elts[1], it.args[0])
                    return False
                if isinstance(it, ast.Call) and isinstance(it.func, ast.Name) and it.func.id == "zip":
                    ch = False
                    if isinstance(target, ast.Tuple) and len(target.elts) == len(it.args):
                        for t_, a_ in zip(target.elts, it.args):
                            ch |= bind(t_, a_)
                    return ch
                t = etype(it)
                if t and t.startswith("list[") and isinstance(target, ast.Name) and types.get(target.id) != t[5:-1]:
                    types[target.id] = t[5:-1]
                    return True
                return False
            for _ in range(6):
                ch = False
                for n in _own_walk(fn):
                    if isinstance(n, ast.Assign) and len(n.targets) == 1 and isinstance(n.targets[0], ast.Name):
                        t = etype(n.value)
                        if t and types.get(n.targets[0].id) != t:
                            types[n.targets[0].id] = t
                            ch = True
                    elif isinstance(n, ast.AnnAssign) and isinstance(n.target, ast.Name):
                        t = norm(U(n.annotation)) or (etype(n.value) if n.value is not None else None)
                        if t and types.get(n.target.id) != t:
                            types[n.target.id] = t
                            ch = True
                    elif isinstance(n, ast.Expr) and isinstance(n.value, ast.Call) and isinstance(n.value.func, ast.Attribute) \
                            and n.value.func.attr == "append" and isinstance(n.value.func.value, ast.Name) and n.value.args:
                        t = etype(n.value.args[0])
                        if t and (t in nts or t.startswith("tup")) and types.get(n.value.func.value.id) != f"list[{t}]":
                            types[n.value.func.value.id] = f"list[{t}]"
                            ch = True
                    elif isinstance(n, (ast.For, ast.comprehension)):
                        ch |= bind(n.target, n.iter)
                if not ch:
                    break

            if pass_ == 0:
                private_ret = fn.name.startswith("_") and fn.name in self.funcs and fn.name not in self.external

                def nt_of(t: str | None) -> str | None:
                    if t is None:
                        return None
                    t = t[5:-1] if t.startswith("list[") else t
                    return t if t in nts else None

                def ok_use(n: ast.AST) -> bool:
                    """n is an expression of record (list) type: is its context one the rewriting understands?"""
                    p = parents.get(n)
                    if isinstance(p, ast.Attribute) and p.value is n:
                        gp = parents.get(p)
                        if isinstance(gp, ast.Call) and gp.func is p:
                            if p.attr == "append" and gp.args and nt_of(etype(gp.args[0])) == nt_of(etype(n)):
                                return True
                            return p.attr in ("pop", "clear", "reverse") and isinstance(parents.get(gp), ast.Expr) or p.attr == "pop" and ok_use(gp)
                        return isinstance(p.ctx, ast.Load) and etype(n) in nts and p.attr in nts[etype(n)]          # type: ignore[index]
                    if isinstance(p, ast.Subscript) and p.value is n:
                        return isinstance(p.ctx, ast.Load) and (etype(p) is None or ok_use(p))
                    if isinstance(p, ast.Assign) and p.value is n:
                        return len(p.targets) == 1 and (isinstance(p.targets[0], ast.Name) or (
                            isinstance(p.targets[0], ast.Tuple) and all(not isinstance(x, ast.Starred) for x in p.targets[0].elts)
                            and etype(n) in nts and len(p.targets[0].elts) == len(nts[etype(n)])))          # type: ignore[index]
                    if isinstance(p, ast.AnnAssign) and p.value is n:
                        return isinstance(p.target, ast.Name)
                    if isinstance(p, (ast.For, ast.comprehension)) and p.iter is n:
                        return isinstance(p.target, ast.Name) or isinstance(p.target, ast.Tuple)
                    if isinstance(p, ast.Call) and isinstance(p.func, ast.Name) and any(a is n for a in p.args):
                        if p.func.id == "len":
                            return True
                        if p.func.id in ("enumerate", "zip", "reversed"):
                            gp = parents.get(p)
                            while isinstance(gp, ast.Call) and isinstance(gp.func, ast.Name) and gp.func.id in ("enumerate", "zip", "reversed"):
                                gp = parents.get(gp)
                            return isinstance(gp, (ast.For, ast.comprehension))
                        return False
                    if isinstance(p, ast.Call) and isinstance(p.func, ast.Attribute) and p.func.attr == "append" and any(a is n for a in p.args):
                        return isinstance(p.func.value, ast.Name) and types.get(p.func.value.id) == f"list[{etype(n)}]"
                    if isinstance(p, ast.List) and any(x is n for x in p.elts):
                        return etype(p) is not None and ok_use(p)
                    if isinstance(p, ast.Return):
                        return private_ret and fn.returns is not None and norm(U(fn.returns)) == etype(n)
                    if isinstance(p, (ast.If, ast.While)) and p.test is n:
                        return True
                    if isinstance(p, ast.UnaryOp) and isinstance(p.op, ast.Not):
                        return True
                    if isinstance(p, ast.Expr):
                        return True
                    return False
                for n in _own_walk(fn):
                    if isinstance(n, (ast.Name, ast.Call, ast.Subscript, ast.List)) and isinstance(getattr(n, "ctx", ast.Load()), ast.Load):
                        k = nt_of(etype(n))
                        if k and not ok_use(n):
                            escaped.add(k)
                    # attribute reads of a field name on something untyped are not a problem by themselves (other classes share names)
                for a in fn.args.args + fn.args.kwonlyargs:
                    k = nt_of(types.get(a.arg))
                    if k and not (fn.name.startswith("_") and fn.name in self.funcs and fn.name not in self.external):
                        escaped.add(k)
                if fn.returns is not None and nt_of(norm(U(fn.returns))) and not private_ret:
                    escaped.add(nt_of(norm(U(fn.returns))))          # type: ignore[arg-type]
                continue
            if phase == 2:
                # a name is a reliable n-tuple only if every definition agrees: recompute strictly
                conflict: set[str] = set()
                for n in _own_walk(fn):
                    if isinstance(n, ast.Assign):
                        for t_ in n.targets:
                            for x in ast.walk(t_):
                                if isinstance(x, ast.Name) and isinstance(x.ctx, ast.Store) and x.id in types:
                                    if not (x is t_ and etype(n.value) == types[x.id]):
                                        conflict.add(x.id)
                    elif isinstance(n, ast.AugAssign) and isinstance(n.target, ast.Name):
                        conflict.add(n.target.id)
                    elif isinstance(n, (ast.For, ast.comprehension)):
                        before_ = dict(types)
                        for x in ast.walk(n.target):
                            if isinstance(x, ast.Name) and x.id in types:
                                types.pop(x.id)
                        bind(n.target, n.iter)
                        for x in ast.walk(n.target):
                            if isinstance(x, ast.Name) and x.id in before_ and types.get(x.id) != before_[x.id]:
                                conflict.add(x.id)
                        types.update(before_)
                # lists: every append / literal must agree
                for n in _own_walk(fn):
                    if isinstance(n, ast.Call) and isinstance(n.func, ast.Attribute) and isinstance(n.func.value, ast.Name) \
                            and types.get(n.func.value.id, "").startswith("list["):
                        lt = types[n.func.value.id]
                        if n.func.attr == "append" and n.args and f"list[{etype(n.args[0])}]" == lt:
                            continue
                        if n.func.attr in ("pop", "clear", "reverse", "copy", "index", "count"):
                            continue
                        conflict.add(n.func.value.id)
                    elif isinstance(n, ast.Subscript) and isinstance(n.ctx, ast.Store) and isinstance(n.value, ast.Name) \
                            and types.get(n.value.id, "").startswith("list["):
                        conflict.add(n.value.id)
                elem_src: dict[str, set[str]] = {}

                def split(stmts: list[ast.stmt]) -> list[ast.stmt]:
                    nonlocal changed
                    out: list[ast.stmt] = []
                    for s_ in stmts:
                        for fld in ("body", "orelse", "finalbody"):
                            sub = getattr(s_, fld, None)
                            if isinstance(sub, list) and sub and isinstance(sub[0], ast.stmt):
                                setattr(s_, fld, split(sub))
                        if isinstance(s_, ast.Try):
                            for hd in s_.handlers:
                                hd.body = split(hd.body)
                        if (isinstance(s_, ast.Assign) and len(s_.targets) == 1 and isinstance(s_.targets[0], ast.Tuple)
                                and isinstance(s_.value, ast.Name) and s_.value.id not in conflict
                                and not any(isinstance(t_, ast.Starred) for t_ in s_.targets[0].elts)
                                and any(not isinstance(t_, ast.Name) for t_ in s_.targets[0].elts)
                                and not any(isinstance(x, ast.Name) and x.id == s_.value.id for t_ in s_.targets[0].elts for x in ast.walk(t_))):
                            t = types.get(s_.value.id)
                            n_ = len(nts[t]) if t in nts else int(t[3:]) if t and t.startswith("tup") and t[3:].isdigit() else None
                            if n_ == len(s_.targets[0].elts) and self._tuple_source_ok(fn, s_.value.id, types, conflict):
                                for k, t_ in enumerate(s_.targets[0].elts):
                                    out.append(ast.copy_location(ast.Assign(targets=[t_], value=ast.Subscript(
                                        value=ast.Name(id=s_.value.id, ctx=ast.Load()), slice=ast.Constant(value=k), ctx=ast.Load()),
                                        lineno=s_.lineno), s_))
                                changed = True
                                self.log.append(f"{fn.name}: unpacking store from `{s_.value.id}` split into {n_} stores")
                                continue
                        out.append(s_)
                    return out
                fn.body = split(fn.body)
                continue

            class A(ast.NodeTransformer):
                def visit_Attribute(self, node: ast.Attribute) -> ast.AST:
                    nonlocal changed
                    self.generic_visit(node)
                    t = etype(node.value)
                    if t in nts and node.attr in nts[t] and isinstance(node.ctx, ast.Load):
                        changed = True
                        return ast.copy_location(ast.Subscript(value=node.value, slice=ast.Constant(value=nts[t].index(node.attr)), ctx=ast.Load()), node)
                    return node
            A().visit(fn)
        if phase == 2:
            return changed
        # constructor calls -> tuple displays (after the attribute rewrite, which needs them for typing)
        outer = self

        class C(ast.NodeTransformer):
            def visit_Call(self, node: ast.Call) -> ast.AST:
                nonlocal changed
                self.generic_visit(node)
                if isinstance(node.func, ast.Name) and node.func.id in nts:
                    fields = nts[node.func.id]
                    vals: dict[str, ast.AST] = {}
                    if any(isinstance(a, ast.Starred) for a in node.args) or any(k.arg is None for k in node.keywords):
                        return node
                    for f_, a in zip(fields, node.args):
                        vals[f_] = a
                    kw_calls = False
                    for k in node.keywords:
                        vals[k.arg] = k.value          # type: ignore[index]
                        kw_calls |= _has_call(k.value)
                    if set(vals) != set(fields) or len(node.args) > len(fields):
                        return node
                    if kw_calls and [k.arg for k in node.keywords] != fields[len(node.args):]:
                        return node
                    changed = True
                    outer.log.append(f"{node.func.id}(...) -> tuple")
                    return ast.copy_location(ast.Tuple(elts=[vals[f_] for f_ in fields], ctx=ast.Load()), node)
                return node
        C().visit(self.tree)
        return changed

    def _tuple_source_ok(self, fn: ast.FunctionDef, name: str, types: dict[str, str], conflict: set[str]) -> bool:
        """`name` is bound only by `for` targets over lists that are themselves conflict-free, or by assignments of displays."""
        for n in _own_walk(fn):
            if isinstance(n, (ast.For, ast.comprehension)) and any(isinstance(x, ast.Name) and x.id == name for x in ast.walk(n.target)):
                for x in ast.walk(n.iter):
                    if isinstance(x, ast.Name) and x.id in conflict:
                        return False
                if not any(isinstance(x, ast.Name) and types.get(x.id, "").startswith("list[") for x in ast.walk(n.iter)):
                    return False
        return name not in {a.arg for a in fn.args.args + fn.args.kwonlyargs}

    # ------------------------------------------------------------------------------------------ driver
    def run(self) -> str | None:
        """Normalised source text, or None when nothing applies."""
        changed = self._untuple()
        all_funcs = [n for n in ast.walk(self.tree) if isinstance(n, ast.FunctionDef)]
        before = ast.dump(self.tree)
        for fn in all_funcs:
            self.prepared(fn)
        for fn in all_funcs:
            self._sroa(fn)
        self._untuple(phase=2)
        changed |= ast.dump(self.tree) != before
        if not changed:
            return None
        # drop private helpers / classes nothing refers to any more (annotations are inert and do not count)
        while True:
            dead = []
            for s in self.tree.body:
                if not (isinstance(s, (ast.FunctionDef, ast.ClassDef)) and s.name.startswith("_") and not s.name.startswith("__")
                        and s.name not in self.external):
                    continue
                live = False
                for o in self.tree.body:
                    if o is s:
                        continue
                    ann = set()
                    for n in ast.walk(o):
                        anns = []
                        if isinstance(n, (ast.arg, ast.AnnAssign)) and n.annotation is not None:
                            anns.append(n.annotation)
                        if isinstance(n, ast.FunctionDef) and n.returns is not None:
                            anns.append(n.returns)
                        for a in anns:
                            ann |= {id(x) for x in ast.walk(a)}
                    for n in ast.walk(o):
                        if isinstance(n, ast.Name) and n.id == s.name and id(n) not in ann:
                            live = True
                        elif isinstance(n, ast.Constant) and n.value == s.name and id(n) not in ann:
                            live = True          # __all__, getattr(...)
                if not live:
                    dead.append(s)
            if not dead:
                break
            for s in dead:
                self.log.append(f"unreferenced private definition {s.name} dropped")
            self.tree.body = [s for s in self.tree.body if not any(s is d for d in dead)]
        ast.fix_missing_locations(self.tree)
        return ast.unparse(self.tree) + "\n"


def line_map(transformed: ast.AST, new_src: str) -> dict[int, int]:
    """new line -> line of the original file the node came from (nodes keep their original positions through the rewrite)."""
    try:
        re = ast.parse(new_src)
    except SyntaxError:
        return {}
    out: dict[int, int] = {}
    a = list(ast.walk(transformed))
    b = list(ast.walk(re))
    if len(a) != len(b):
        return {}
    for x, y in zip(a, b):
        if type(x) is not type(y):
            return {}
        lx, ly = getattr(x, "lineno", None), getattr(y, "lineno", None)
        if lx is not None and ly is not None and isinstance(y, ast.stmt):
            out.setdefault(ly, lx)
    return out


def normalise_source(src: str, external_names: set[str] | frozenset[str] = frozenset()) -> tuple[str | None, list[str], dict[int, int]]:
    """The rewriting is repeated on its own result (at most three rounds): a record that escaped into a helper's parameter list no
    longer escapes once the helper has been inlined, and is dissolved in the next round."""
    nz = Normaliser(src, external_names)
    new = nz.run()
    if new is None:
        return None, nz.log, {}
    log = list(nz.log)
    lmap = line_map(nz.tree, new)
    for _ in range(2):
        nz2 = Normaliser(new, external_names)
        nxt = nz2.run()
        if nxt is None or nxt == new:
            break
        m2 = line_map(nz2.tree, nxt)
        lmap = {k: lmap.get(v, v) for k, v in m2.items()} if m2 and lmap else {}
        log += [x for x in nz2.log if not x.endswith("- kept")]
        log = [x for x in log if not (x.endswith("- kept") and any(y.startswith("record " + x.split()[1] + " ") or x.split()[1] in y for y in nz2.log if "dissolved" in y))]
        new = nxt
    return new, log, lmap
