"""One forward worklist solver used by all dataflow instances.

A node's input is always *recomputed* from the outputs of its predecessors (never accumulated), widening is
applied at loop heads only, followed by narrowing rounds (plain recomputation: still a post-fixpoint).
"""
from __future__ import annotations

from typing import Any, Callable

from .cfg import CFG, Node
from .core import AnalysisError


class Problem:
    """Interface of a dataflow instance. States are opaque; `None` is bottom (unreachable)."""

    def entry_state(self) -> Any:
        raise NotImplementedError

    def edge(self, n: Node, state: Any, label: str, succ: Node) -> Any:
        """State flowing along the edge n --label--> succ, given the state at the entry of n (None = infeasible)."""
        raise NotImplementedError

    def join(self, a: Any, b: Any, at: Node) -> Any:
        raise NotImplementedError

    def equal(self, a: Any, b: Any) -> bool:
        return a == b

    def widen(self, old: Any, new: Any, at: Node) -> Any:
        return new


def solve(cfg: CFG, prob: Problem, *, widen_after: int = 3, narrow_rounds: int = 2, max_iter: int = 200000) -> dict[int, Any]:
    IN: dict[int, Any] = {n.id: None for n in cfg.nodes}
    IN[cfg.entry.id] = prob.entry_state()
    heads = cfg.loop_heads()
    order = cfg.rpo()
    rank = {n.id: i for i, n in enumerate(order)}

    def compute_in(m: Node) -> Any:
        acc = None
        for (p, label) in m.pred:
            s = IN.get(p.id)
            if s is None:
                continue
            out = prob.edge(p, s, label, m)
            if out is None:
                continue
            acc = out if acc is None else prob.join(acc, out, m)
        return acc

    import heapq
    work: list[tuple[int, int]] = []
    inq: set[int] = set()
    byid = {n.id: n for n in cfg.nodes}

    def push(n: Node) -> None:
        if n.id not in inq and n.id in rank:
            inq.add(n.id)
            heapq.heappush(work, (rank[n.id], n.id))

    for (m, _) in cfg.entry.succ:
        push(m)
    visits: dict[int, int] = {}
    it = 0
    while work:
        _, nid = heapq.heappop(work)
        inq.discard(nid)
        m = byid[nid]
        it += 1
        if it > max_iter:
            raise AnalysisError(f"dataflow did not reach a fixpoint in {cfg.fn.name}")
        if m is cfg.entry:
            continue
        new = compute_in(m)
        old = IN[nid]
        if nid in heads and old is not None and new is not None:
            visits[nid] = visits.get(nid, 0) + 1
            if visits[nid] > widen_after:
                new = prob.widen(old, prob.join(old, new, m), m)
        if (old is None) != (new is None) or (new is not None and not prob.equal(old, new)):
            IN[nid] = new
            for (x, _) in m.succ:
                push(x)
    for _ in range(narrow_rounds):
        for m in order:
            if m is cfg.entry:
                continue
            if IN[m.id] is not None:
                IN[m.id] = compute_in(m)
    return IN
