"""Front end of the static-analysis engine: loader, resolver, registries, constant folding.

Everything here works on *source text* only (``ast``); no module of ``markdown_it`` is imported or run.
A `Project` can be built from the working tree (`Project.load`) or from an in-memory mapping of relative
path -> source text (used by the self-test, which mutates sources in memory).
"""
from __future__ import annotations

import ast
import hashlib
import os
import pathlib
from dataclasses import dataclass, field
from typing import Any, Iterator

U = ast.unparse
PKG = "markdown_it"


class AnalysisError(Exception):
    """The analysis itself cannot proceed (syntax error, vanished anchor, internal inconsistency).
    Reported as ``ANALYSIS-ERROR`` with exit status 2 - never as a violation and never as a pass."""


class AnchorError(AnalysisError):
    """A function / class / table a rule is parameterised on cannot be found in the tree."""


def repo_root() -> pathlib.Path:
    return pathlib.Path(os.environ.get("VERIF_REPO", "/repo"))


# --------------------------------------------------------------------------------------------- model
@dataclass
class Module:
    rel: str                      # e.g. 'rules_block/heading.py'
    name: str                     # dotted, e.g. 'markdown_it.rules_block.heading'
    source: str
    tree: ast.Module
    sha256: str
    parents: dict[ast.AST, ast.AST] = field(default_factory=dict, repr=False)
    imports: dict[str, tuple] = field(default_factory=dict, repr=False)   # local -> ('mod', dotted) | ('obj', dotted_mod, attr)
    defs: dict[str, ast.AST] = field(default_factory=dict, repr=False)    # module-level name -> defining node (last wins)
    is_pkg: bool = False
    line_map: dict[int, int] = field(default_factory=dict, repr=False)    # normalised text line -> line of the file (sa/inline.py)
    norm_log: list[str] = field(default_factory=list, repr=False)


@dataclass(eq=False)
class Func:
    module: Module
    cls: str | None
    name: str
    node: ast.FunctionDef
    outer: "Func | None" = None

    @property
    def qual(self) -> str:
        parts = []
        f: Func | None = self
        while f is not None:
            parts.append(f.name)
            last = f
            f = f.outer
        parts.reverse()
        head = (last.cls + ".") if last.cls else ""
        suffix = "@setter" if self.is_setter else ""
        return f"{self.module.rel}:{head}{'.'.join(parts)}{suffix}"

    @property
    def decorators(self) -> list[str]:
        return [U(d) for d in self.node.decorator_list]

    @property
    def is_setter(self) -> bool:
        return any(d.endswith(".setter") for d in self.decorators)

    @property
    def is_property(self) -> bool:
        return "property" in self.decorators

    @property
    def is_overload_stub(self) -> bool:
        return any(d.split(".")[-1] == "overload" for d in self.decorators)

    @property
    def short(self) -> str:
        return self.qual.split(":", 1)[1]

    def __repr__(self) -> str:
        return f"<Func {self.qual}>"

    def __hash__(self) -> int:
        return id(self)


@dataclass(eq=False)
class ClassInfo:
    module: Module
    name: str
    node: ast.ClassDef
    bases: list[str]
    methods: dict[str, Func] = field(default_factory=dict)
    setters: dict[str, Func] = field(default_factory=dict)

    def __hash__(self) -> int:
        return id(self)


def build_parents(tree: ast.AST) -> dict[ast.AST, ast.AST]:
    parents: dict[ast.AST, ast.AST] = {}
    for p in ast.walk(tree):
        for c in ast.iter_child_nodes(p):
            parents[c] = p
    return parents


class Project:
    def __init__(self, sources: dict[str, str], origin: str = "<memory>") -> None:
        self.origin = origin
        self.sources = dict(sources)
        self.modules: dict[str, Module] = {}
        self.by_name: dict[str, Module] = {}
        self.funcs: dict[str, Func] = {}
        self.classes: dict[str, ClassInfo] = {}
        self.func_of_node: dict[ast.AST, Func] = {}
        self.class_of_node: dict[ast.AST, ClassInfo] = {}
        for rel in sorted(sources):
            self._add_module(rel, sources[rel])
        for m in self.modules.values():
            self._index_module(m)
        self._const_cache: dict[tuple[str, str], Any] = {}

    # ---------------------------------------------------------------- construction
    @classmethod
    def load(cls, root: pathlib.Path | None = None) -> "Project":
        root = pathlib.Path(root) if root else repo_root()
        pkg = root / PKG
        if not pkg.is_dir():
            raise AnalysisError(f"package directory not found: {pkg}")
        sources = {}
        for f in sorted(pkg.rglob("*.py")):
            try:
                sources[f.relative_to(pkg).as_posix()] = f.read_text(encoding="utf8")
            except (OSError, UnicodeDecodeError) as e:
                raise AnalysisError(f"cannot read {f}: {e}")
        if len(sources) < 40:
            raise AnalysisError(f"only {len(sources)} modules under {pkg}; expected the whole library")
        return cls(sources, origin=str(pkg))

    def with_sources(self, changed: dict[str, str]) -> "Project":
        s = dict(self.sources)
        s.update(changed)
        return Project(s, origin=self.origin + "+mutant")

    def _add_module(self, rel: str, src: str) -> None:
        try:
            tree = ast.parse(src, filename=rel)
        except SyntaxError as e:
            raise AnalysisError(f"syntax error in {rel}: {e}")
        parts = rel[:-3].split("/")
        is_pkg = parts[-1] == "__init__"
        if is_pkg:
            parts = parts[:-1]
        name = ".".join([PKG] + parts)
        m = Module(rel, name, src, tree, hashlib.sha256(src.encode()).hexdigest(), build_parents(tree), is_pkg=is_pkg)
        self.modules[rel] = m
        self.by_name[name] = m

    def _index_module(self, m: Module) -> None:
        pkg_parts = m.name.split(".") if m.is_pkg else m.name.split(".")[:-1]

        def resolve_from(level: int, mod: str | None) -> str:
            if level == 0:
                return mod or ""
            base = pkg_parts[: len(pkg_parts) - (level - 1)]
            return ".".join(base + (mod.split(".") if mod else []))

        def scan_imports(stmts: list[ast.stmt]) -> None:
            for s in stmts:
                if isinstance(s, ast.Import):
                    for a in s.names:
                        local = a.asname or a.name.split(".")[0]
                        m.imports[local] = ("mod", a.name if a.asname else a.name.split(".")[0])
                elif isinstance(s, ast.ImportFrom):
                    base = resolve_from(s.level, s.module)
                    for a in s.names:
                        local = a.asname or a.name
                        sub = f"{base}.{a.name}" if base else a.name
                        pkg = self.by_name.get(base)
                        # `from pkg import x`: an attribute the package's __init__ binds shadows the submodule x
                        if sub in self.by_name and not (pkg is not None and _binds(pkg, a.name)):
                            m.imports[local] = ("mod", sub)
                        else:
                            m.imports[local] = ("obj", base, a.name)
                elif isinstance(s, ast.If):
                    scan_imports(s.body)
                    scan_imports(s.orelse)
                elif isinstance(s, ast.Try):
                    scan_imports(s.body)
                    for h in s.handlers:
                        scan_imports(h.body)
                    scan_imports(s.orelse)

        scan_imports(m.tree.body)

        def add_func(node: ast.FunctionDef, cls: str | None, outer: Func | None) -> Func:
            f = Func(m, cls, node.name, node, outer)
            self.func_of_node[node] = f
            if f.is_overload_stub:
                return f                     # typing stubs: not code
            self.funcs[f.qual] = f
            for sub in _direct_inner_defs(node):
                add_func(sub, cls, f)
            return f

        def scan_defs(stmts: list[ast.stmt]) -> None:
            for s in stmts:
                if isinstance(s, (ast.FunctionDef, ast.AsyncFunctionDef)):
                    m.defs[s.name] = s
                    add_func(s, None, None)          # type: ignore[arg-type]
                elif isinstance(s, ast.ClassDef):
                    m.defs[s.name] = s
                    cname = s.name if s.name not in self.classes else f"{s.name}@{m.rel}"
                    ci = ClassInfo(m, cname, s, [U(b).split("[")[0] for b in s.bases])
                    self.classes[cname] = ci
                    self.class_of_node[s] = ci
                    for b in s.body:
                        if isinstance(b, (ast.FunctionDef, ast.AsyncFunctionDef)):
                            mf = add_func(b, cname, None)   # type: ignore[arg-type]
                            if mf.is_overload_stub:
                                continue
                            if mf.is_setter:
                                ci.setters[b.name] = mf
                            else:
                                ci.methods[b.name] = mf
                elif isinstance(s, ast.Assign):
                    for t in s.targets:
                        for n in ast.walk(t):
                            if isinstance(n, ast.Name):
                                m.defs[n.id] = s
                elif isinstance(s, ast.AnnAssign) and isinstance(s.target, ast.Name):
                    m.defs[s.target.id] = s
                elif isinstance(s, ast.If):
                    scan_defs(s.body)
                    scan_defs(s.orelse)
                elif isinstance(s, ast.Try):
                    scan_defs(s.body)
                    for h in s.handlers:
                        scan_defs(h.body)

        scan_defs(m.tree.body)

    # ---------------------------------------------------------------- lookups
    def module(self, rel: str) -> Module:
        try:
            return self.modules[rel]
        except KeyError:
            raise AnchorError(f"module {rel} not found")

    def func(self, qual: str) -> Func:
        try:
            return self.funcs[qual]
        except KeyError:
            raise AnchorError(f"function {qual} not found")

    def cls(self, name: str) -> ClassInfo:
        try:
            return self.classes[name]
        except KeyError:
            raise AnchorError(f"class {name} not found")

    def all_funcs(self) -> list[Func]:
        return list(self.funcs.values())

    def mro(self, cname: str) -> list[ClassInfo]:
        out: list[ClassInfo] = []
        todo = [cname]
        while todo:
            c = todo.pop(0)
            ci = self.classes.get(c)
            if ci is None or ci in out:
                continue
            out.append(ci)
            todo.extend(ci.bases)
        return out

    def method(self, cname: str, mname: str) -> Func | None:
        for ci in self.mro(cname):
            if mname in ci.methods:
                return ci.methods[mname]
        return None

    def enclosing_func(self, m: Module, node: ast.AST) -> Func | None:
        p = node
        while p in m.parents:
            p = m.parents[p]
            if isinstance(p, (ast.FunctionDef, ast.AsyncFunctionDef)):
                return self.func_of_node.get(p)
        return None

    # ---------------------------------------------------------------- name resolution
    def resolve(self, m: Module, expr: ast.AST, _depth: int = 0) -> Any:
        """Resolve a Name / dotted Attribute used in module `m` to a definition:
        Func | ClassInfo | Module | ('const', Module, name, node) | ('external', dotted) | None."""
        if _depth > 12:
            return None
        if isinstance(expr, ast.Name):
            return self.resolve_name(m, expr.id, _depth)
        if isinstance(expr, ast.Attribute):
            base = self.resolve(m, expr.value, _depth + 1)
            if isinstance(base, Module):
                return self.resolve_name(base, expr.attr, _depth + 1)
            if isinstance(base, ClassInfo):
                f = self.method(base.name, expr.attr)
                return f
            if isinstance(base, tuple) and base[0] == "external":
                return ("external", base[1] + "." + expr.attr)
            return None
        if isinstance(expr, ast.Subscript):      # Ruler[T]() style generics
            return self.resolve(m, expr.value, _depth + 1)
        return None

    def resolve_name(self, m: Module, name: str, _depth: int = 0) -> Any:
        if _depth > 12:
            return None
        d = m.defs.get(name)
        if d is not None:
            if isinstance(d, (ast.FunctionDef, ast.AsyncFunctionDef)):
                return self.func_of_node.get(d)
            if isinstance(d, ast.ClassDef):
                return self.class_of_node.get(d)
            # alias assignment  X = Y  (e.g. js_default = default)
            val = d.value if isinstance(d, (ast.Assign, ast.AnnAssign)) else None
            if isinstance(val, (ast.Name, ast.Attribute)):
                r = self.resolve(m, val, _depth + 1)
                if r is not None:
                    return r
            return ("const", m, name, d)
        imp = m.imports.get(name)
        if imp is not None:
            if imp[0] == "mod":
                mod = self.by_name.get(imp[1])
                return mod if mod is not None else ("external", imp[1])
            _, base, attr = imp
            mod = self.by_name.get(base)
            if mod is None:
                return ("external", f"{base}.{attr}")
            return self.resolve_name(mod, attr, _depth + 1)
        return None

    # ---------------------------------------------------------------- constants
    def const_value(self, m: Module, name: str) -> Any:
        """Fold a module-level constant (strings, +, join of constant tuples, literals). Raises KeyError if not foldable."""
        key = (m.rel, name)
        if key in self._const_cache:
            return self._const_cache[key]
        d = m.defs.get(name)
        if d is None:
            r = self.resolve_name(m, name)
            if isinstance(r, tuple) and r[0] == "const":
                v = self.const_value(r[1], r[2])
                self._const_cache[key] = v
                return v
            raise KeyError(name)
        val = getattr(d, "value", None)
        if val is None:
            raise KeyError(name)
        v = self.fold(m, val)
        self._const_cache[key] = v
        return v

    def fold(self, m: Module, e: ast.AST) -> Any:
        if isinstance(e, ast.Constant):
            return e.value
        if isinstance(e, ast.Name):
            return self.const_value(m, e.id)
        if isinstance(e, ast.Attribute):
            if e.attr == "pattern" and isinstance(e.value, ast.Name):
                # NAME.pattern of a compiled regex constant: the (foldable) pattern it was compiled from
                tgt = self.resolve_name(m, e.value.id)
                dm, dn = (tgt[1], tgt[2]) if isinstance(tgt, tuple) and tgt and tgt[0] == "const" else (m, e.value.id)
                d = dm.defs.get(dn)
                v = getattr(d, "value", None)
                if isinstance(v, ast.Call) and U(v.func) == "re.compile" and v.args:
                    return self.fold(dm, v.args[0])
            r = self.resolve(m, e)
            if isinstance(r, tuple) and r[0] == "const":
                return self.const_value(r[1], r[2])
            if isinstance(r, tuple) and r[0] == "external" and r[1].startswith("string.") and r[1].count(".") == 1:
                import string as _s           # data constants of the standard library (string.punctuation, string.digits ...)
                v = getattr(_s, r[1].split(".")[1], None)
                if isinstance(v, str):
                    return v
            raise KeyError(U(e))
        if isinstance(e, ast.BinOp) and isinstance(e.op, ast.Add):
            return self.fold(m, e.left) + self.fold(m, e.right)
        if isinstance(e, ast.JoinedStr):
            out = ""
            for v in e.values:
                if isinstance(v, ast.Constant):
                    out += v.value
                elif isinstance(v, ast.FormattedValue) and v.format_spec is None and v.conversion == -1:
                    out += str(self.fold(m, v.value))
                else:
                    raise KeyError(U(e))
            return out
        if isinstance(e, (ast.Tuple, ast.List)):
            return [self.fold(m, x) for x in e.elts]
        if isinstance(e, ast.Set):
            return {self.fold(m, x) for x in e.elts}
        if isinstance(e, ast.Dict):
            return {self.fold(m, k): self.fold(m, v) for k, v in zip(e.keys, e.values) if k is not None}
        if isinstance(e, ast.Call) and isinstance(e.func, ast.Attribute) and e.func.attr == "join" and len(e.args) == 1:
            sep = self.fold(m, e.func.value)
            return sep.join(self.fold(m, e.args[0]))
        if isinstance(e, ast.UnaryOp) and isinstance(e.op, ast.USub):
            return -self.fold(m, e.operand)
        if isinstance(e, ast.UnaryOp) and isinstance(e.op, ast.Not):
            return not self.fold(m, e.operand)
        if isinstance(e, ast.BoolOp):
            v: Any = None
            for x in e.values:
                v = self.fold(m, x)
                if (isinstance(e.op, ast.And) and not v) or (isinstance(e.op, ast.Or) and v):
                    return v
            return v
        if isinstance(e, ast.IfExp):
            return self.fold(m, e.body) if self.fold(m, e.test) else self.fold(m, e.orelse)
        # pure methods of str applied to a foldable string (classification predicates, case, strip ...)
        if isinstance(e, ast.Call) and isinstance(e.func, ast.Attribute) and not e.keywords and e.func.attr in (
                "isalnum", "isalpha", "isdigit", "isdecimal", "isspace", "isupper", "islower", "isascii", "isprintable", "upper", "lower",
                "strip", "lstrip", "rstrip", "startswith", "endswith", "replace", "split", "casefold") and e.func.attr != "join":
            recv = self.fold(m, e.func.value)
            if not isinstance(recv, str):
                raise KeyError(U(e))
            try:
                return getattr(recv, e.func.attr)(*[self.fold(m, a) for a in e.args])
            except KeyError:
                raise
            except Exception:
                raise KeyError(U(e))
        # pure builtin constructors / conversions applied to foldable arguments
        if isinstance(e, ast.Call) and isinstance(e.func, ast.Name) and not e.keywords and e.func.id in (
                "set", "frozenset", "tuple", "list", "sorted", "chr", "ord", "str", "len", "range", "dict"):
            args = [self.fold(m, a) for a in e.args]
            try:
                v = {"set": set, "frozenset": frozenset, "tuple": tuple, "list": list, "sorted": sorted, "chr": chr, "ord": ord,
                     "str": str, "len": len, "range": range, "dict": dict}[e.func.id](*args)
            except Exception:
                raise KeyError(U(e))
            return list(v) if isinstance(v, range) else v
        if isinstance(e, (ast.SetComp, ast.ListComp, ast.GeneratorExp)) and all(
                isinstance(g.target, ast.Name) and not g.is_async for g in e.generators):
            import copy

            def subst(node: ast.AST, env: dict[str, Any]) -> ast.AST:
                class S(ast.NodeTransformer):
                    def visit_Name(self, n: ast.Name):
                        if n.id in env:
                            v = env[n.id]
                            if isinstance(v, (list, tuple)):          # an inner iterable bound by an outer generator (a range)
                                return ast.copy_location(ast.List(elts=[ast.Constant(value=x) for x in v], ctx=ast.Load()), n)
                            return ast.copy_location(ast.Constant(value=v), n)
                        return n
                return S().visit(copy.deepcopy(node))
            out_items: list[Any] = []
            budget = [20000]

            def run(k: int, env: dict[str, Any]) -> None:
                if k == len(e.generators):
                    out_items.append(self.fold(m, subst(e.elt, env)))
                    return
                g = e.generators[k]
                items = self.fold(m, subst(g.iter, env))
                for it in items:
                    budget[0] -= 1
                    if budget[0] < 0:
                        raise KeyError("comprehension too large to fold")
                    env2 = {**env, g.target.id: it}
                    if all(self.fold(m, subst(c_, env2)) for c_ in g.ifs):
                        run(k + 1, env2)
            run(0, {})
            return set(out_items) if isinstance(e, ast.SetComp) else out_items
        if isinstance(e, ast.Compare) and len(e.ops) == 1:
            a, b = self.fold(m, e.left), self.fold(m, e.comparators[0])
            op = e.ops[0]
            try:
                if isinstance(op, ast.Eq):
                    return a == b
                if isinstance(op, ast.NotEq):
                    return a != b
                if isinstance(op, ast.Lt):
                    return a < b
                if isinstance(op, ast.LtE):
                    return a <= b
                if isinstance(op, ast.Gt):
                    return a > b
                if isinstance(op, ast.GtE):
                    return a >= b
                if isinstance(op, ast.In):
                    return a in b
                if isinstance(op, ast.NotIn):
                    return a not in b
            except Exception:
                raise KeyError(U(e))
        if isinstance(e, ast.BinOp) and isinstance(e.op, (ast.BitOr, ast.Sub)):
            a, b = self.fold(m, e.left), self.fold(m, e.right)
            if isinstance(a, (set, frozenset)) and isinstance(b, (set, frozenset)):
                return a | b if isinstance(e.op, ast.BitOr) else a - b
        raise KeyError(U(e))

    def regex_constants(self) -> list[tuple[Module, str, str, int, ast.AST]]:
        """All module-level  NAME = re.compile(<foldable>[, flags])  as (module, name, pattern, flags, node)."""
        import re as _re
        out = []
        for m in self.modules.values():
            for s in ast.walk(m.tree):
                if not (isinstance(s, ast.Call) and U(s.func) == "re.compile" and s.args):
                    continue
                try:
                    pat = self.fold(m, s.args[0])
                except KeyError:
                    continue
                flags = 0
                fl = list(s.args[1:]) + [k.value for k in s.keywords if k.arg == "flags"]
                for f in fl:
                    for n in ast.walk(f):
                        if isinstance(n, ast.Attribute) and isinstance(n.value, ast.Name) and n.value.id == "re":
                            flags |= int(getattr(_re, n.attr, 0))
                par = m.parents.get(s)
                name = ""
                if isinstance(par, ast.Assign) and isinstance(par.targets[0], ast.Name):
                    name = par.targets[0].id
                out.append((m, name, pat, flags, s))
        return out

    def digests(self) -> dict[str, str]:
        return {rel: m.sha256[:16] for rel, m in self.modules.items()}


def _binds(pkg: Module, name: str) -> bool:
    """Does the package's __init__ bind `name` itself (def/assign/from-import of an object)?"""
    for s in ast.walk(pkg.tree):
        if isinstance(s, (ast.FunctionDef, ast.ClassDef)) and s.name == name:
            return True
        if isinstance(s, ast.Assign) and any(isinstance(t, ast.Name) and t.id == name for t in s.targets):
            return True
        if isinstance(s, ast.ImportFrom) and s.module is not None and s.level >= 1:
            # from .normalize import normalize  binds the object, shadowing the submodule
            for a in s.names:
                if (a.asname or a.name) == name and s.module.split(".")[-1] != "":
                    return True
    return False


def _class_by_node(p: Project, node: ast.ClassDef) -> ClassInfo | None:
    for ci in p.classes.values():
        if ci.node is node:
            return ci
    return None


def _direct_inner_defs(fn: ast.AST) -> Iterator[ast.FunctionDef]:
    """Function definitions nested directly inside fn (not inside a deeper def/class)."""
    stack = list(ast.iter_child_nodes(fn))
    while stack:
        n = stack.pop()
        if isinstance(n, (ast.FunctionDef, ast.AsyncFunctionDef)):
            yield n            # type: ignore[misc]
            continue
        if isinstance(n, (ast.ClassDef, ast.Lambda)):
            continue
        stack.extend(ast.iter_child_nodes(n))


def own_nodes(fn: ast.AST) -> Iterator[ast.AST]:
    """ast.walk restricted to the function's own body (nested defs/lambdas/classes excluded, their headers too)."""
    stack = list(ast.iter_child_nodes(fn))
    while stack:
        n = stack.pop()
        if isinstance(n, (ast.FunctionDef, ast.AsyncFunctionDef, ast.ClassDef, ast.Lambda)):
            continue
        yield n
        stack.extend(ast.iter_child_nodes(n))


def own_nodes_ordered(fn: ast.AST) -> list[ast.AST]:
    out = list(own_nodes(fn))
    out.sort(key=lambda n: (getattr(n, "lineno", 0), getattr(n, "col_offset", 0)))
    return out


# --------------------------------------------------------------------------------------------- registries
@dataclass
class RuleReg:
    chain: str            # 'core' | 'block' | 'inline' | 'inline2'
    name: str
    func: Func
    alt: list[str]
    index: int


class Registries:
    """The literal rule tables of the three parsers and the renderer's rule table, read from source."""

    TABLES = [
        ("core", "parser_core.py", "_rules", "ParserCore", "ruler"),
        ("block", "parser_block.py", "_rules", "ParserBlock", "ruler"),
        ("inline", "parser_inline.py", "_rules", "ParserInline", "ruler"),
        ("inline2", "parser_inline.py", "_rules2", "ParserInline", "ruler2"),
    ]

    def __init__(self, p: Project) -> None:
        self.p = p
        self.rules: dict[str, list[RuleReg]] = {}
        for chain, rel, var, cls, attr in self.TABLES:
            m = p.module(rel)
            d = m.defs.get(var)
            val = getattr(d, "value", None)
            as_dict = isinstance(val, ast.Dict)
            if as_dict and all(isinstance(k, ast.Constant) for k in val.keys):
                # an insertion-ordered {name: fn} (or {name: (fn, alt)}) table, pushed with `for name, x in table.items()`
                elts = []
                for k, v in zip(val.keys, val.values):
                    parts = [k] + (list(v.elts) if isinstance(v, ast.Tuple) else [v])
                    elts.append(ast.Tuple(elts=parts, ctx=ast.Load()))
                val = ast.List(elts=elts, ctx=ast.Load())
            if not isinstance(val, (ast.List, ast.Tuple)):
                raise AnchorError(f"{rel}: rule table {var} is not a list literal")
            regs = []
            for i, e in enumerate(val.elts):
                if not (isinstance(e, ast.Tuple) and len(e.elts) in (2, 3) and isinstance(e.elts[0], ast.Constant)):
                    raise AnchorError(f"{rel}: entry {i} of {var} is not a (name, fn[, alt]) tuple literal")
                fn = p.resolve(m, e.elts[1])
                if not isinstance(fn, Func):
                    raise AnchorError(f"{rel}: cannot resolve rule function {U(e.elts[1])} of {var}")
                alt: list[str] = []
                if len(e.elts) == 3:
                    try:
                        alt = list(ast.literal_eval(e.elts[2]))
                    except Exception:
                        raise AnchorError(f"{rel}: alt of {U(e.elts[0])} is not a literal")
                regs.append(RuleReg(chain, e.elts[0].value, fn, alt, i))
            self.rules[chain] = regs
            self._check_ctor_loop(cls, var, attr, chain)
        self.render_rules = self._render_rules()

    def _check_ctor_loop(self, cls: str, var: str, attr: str, chain: str) -> None:
        """The constructor must push the table entries, in order, into the ruler (`for ... in <var>: self.<attr>.push(...)`)."""
        init = self.p.method(cls, "__init__")
        if init is None:
            raise AnchorError(f"{cls}.__init__ not found")
        for s in ast.walk(init.node):
            it = s.iter if isinstance(s, ast.For) else None
            if isinstance(it, ast.Call) and isinstance(it.func, ast.Attribute) and it.func.attr == "items" and not it.args:
                it = it.func.value
            if isinstance(s, ast.For) and isinstance(it, ast.Name) and it.id == var:
                calls = [c for c in ast.walk(s) if isinstance(c, ast.Call) and U(c.func) == f"self.{attr}.push"]
                if len(calls) == 1 and len(s.body) == 1:
                    tg = [n.id for n in ast.walk(s.target) if isinstance(n, ast.Name)]
                    args = calls[0].args
                    if len(args) >= 2 and isinstance(args[0], ast.Name) and isinstance(args[1], ast.Name) \
                            and args[0].id == tg[0] and args[1].id == tg[1]:
                        if len(tg) == 3:
                            # alt must be forwarded:  {"alt": alt}
                            if not (len(args) == 3 and isinstance(args[2], ast.Dict) and len(args[2].keys) == 1
                                    and isinstance(args[2].keys[0], ast.Constant) and args[2].keys[0].value == "alt"
                                    and isinstance(args[2].values[0], ast.Name) and args[2].values[0].id == tg[2]):
                                continue
                        return
        raise AnchorError(f"{cls}.__init__ does not push table {var} into self.{attr} in the recognised form")

    def _render_rules(self) -> dict[str, Func]:
        """The renderer's rule table: `inspect.getmembers(self, predicate=inspect.ismethod)` filtered on names that do not start
        with 'render' or '_' - built in the constructor or (lazily) in any other method / property of the class.  Static methods
        and properties are not bound methods, so they are not collected."""
        ci = self.p.cls("RendererHTML")
        builders = []
        for fn in [n for n in ast.walk(ci.node) if isinstance(n, (ast.FunctionDef, ast.AsyncFunctionDef))]:
            src = U(fn)
            consts = {n.value for n in ast.walk(fn) if isinstance(n, ast.Constant) and isinstance(n.value, str)}
            # prefixes kept in a class-level (or module-level) constant the builder names: self._NON_RULE_PREFIXES
            named = {n.attr for n in ast.walk(fn) if isinstance(n, ast.Attribute) and isinstance(n.value, ast.Name) and n.value.id in ("self", "cls")} \
                | {n.id for n in ast.walk(fn) if isinstance(n, ast.Name)}
            for st_ in list(ci.node.body) + list(ci.module.tree.body):
                tg_ = st_.targets if isinstance(st_, ast.Assign) else [st_.target] if isinstance(st_, ast.AnnAssign) and st_.value is not None else []
                if any(isinstance(t, ast.Name) and t.id in named for t in tg_):
                    consts |= {n.value for n in ast.walk(st_.value) if isinstance(n, ast.Constant) and isinstance(n.value, str)}
            if "getmembers" in src and "startswith" in src and {"render", "_"} <= consts:
                builders.append(fn)
        if not builders:
            raise AnchorError("RendererHTML does not build its rule table in the recognised form (bound methods of the instance "
                              "whose names do not start with 'render' or '_')")
        self.render_table_builders = builders
        out = {}
        for n, f in ci.methods.items():
            if n.startswith("render") or n.startswith("_"):
                continue
            decos = {U(d).split(".")[-1].split("(")[0] for d in f.node.decorator_list}
            if decos & {"staticmethod", "property", "setter", "getter", "cached_property"}:
                continue
            out[n] = f
        return out

    def all_rule_funcs(self) -> list[RuleReg]:
        return [r for regs in self.rules.values() for r in regs]

    def by_func(self) -> dict[Func, list[RuleReg]]:
        out: dict[Func, list[RuleReg]] = {}
        for r in self.all_rule_funcs():
            out.setdefault(r.func, []).append(r)
        return out

    def chain_members(self, chain: str, alt: str) -> list[RuleReg]:
        """Rules of `chain` that are compiled into the named alt chain ('' = all)."""
        return [r for r in self.rules[chain] if not alt or alt in r.alt]


def presets(p: Project) -> dict[str, dict]:
    """Evaluate the make() bodies of the presets (commonmark, default, zero): a literal return, or straight-line code that builds
    the mapping from literals, other presets' make() and item stores (constant folding of a closed, argument-free function)."""
    import copy
    memo: dict[str, dict] = {}

    def ev(name: str, depth: int = 0) -> dict:
        if name in memo:
            return copy.deepcopy(memo[name])
        if depth > 3:
            raise AnchorError("presets refer to each other in a cycle")
        f = p.func(f"presets/{name}.py:make")
        env: dict[str, Any] = {}

        def val(e: ast.AST) -> Any:
            if isinstance(e, ast.Constant):
                return e.value
            if isinstance(e, ast.Name):
                if e.id in env:
                    return env[e.id]
                raise KeyError(e.id)
            if isinstance(e, ast.Dict):
                out_: dict = {}
                for k, v in zip(e.keys, e.values):
                    if k is None:
                        out_.update(val(v))          # {**other}
                    else:
                        out_[val(k)] = val(v)
                return out_
            if isinstance(e, (ast.List, ast.Tuple)):
                xs = [val(x) for x in e.elts]
                return xs if isinstance(e, ast.List) else tuple(xs)
            if isinstance(e, ast.Subscript):
                return val(e.value)[val(e.slice)]
            if isinstance(e, ast.UnaryOp) and isinstance(e.op, ast.USub):
                return -val(e.operand)
            if isinstance(e, ast.Call) and not e.args and not e.keywords:
                # <other preset>.make()
                fn = e.func
                if isinstance(fn, ast.Attribute) and fn.attr == "make" and isinstance(fn.value, ast.Name):
                    r_ = p.resolve(f.module, fn.value)
                    if isinstance(r_, Module) and r_.rel.startswith("presets/"):
                        return ev(r_.rel[len("presets/"):-3], depth + 1)
                if isinstance(fn, ast.Name):
                    r_ = p.resolve(f.module, fn)
                    if isinstance(r_, Func) and r_.name == "make" and r_.module.rel.startswith("presets/"):
                        return ev(r_.module.rel[len("presets/"):-3], depth + 1)
            if isinstance(e, ast.Call) and isinstance(e.func, ast.Name) and e.func.id in ("dict", "list") and len(e.args) == 1 and not e.keywords:
                return copy.deepcopy(val(e.args[0]))
            if isinstance(e, ast.Call) and isinstance(e.func, ast.Attribute) and e.func.attr == "copy" and not e.args:
                return copy.copy(val(e.func.value))
            if isinstance(e, ast.Call) and isinstance(e.func, ast.Name) and e.func.id == "deepcopy" and len(e.args) == 1:
                return copy.deepcopy(val(e.args[0]))
            raise KeyError(U(e))
        try:
            for s_ in f.node.body:
                if isinstance(s_, ast.Expr) and isinstance(s_.value, ast.Constant):
                    continue
                if isinstance(s_, ast.Return) and s_.value is not None:
                    memo[name] = val(s_.value)
                    return copy.deepcopy(memo[name])
                if isinstance(s_, (ast.Assign, ast.AnnAssign)) and getattr(s_, "value", None) is not None:
                    v = val(s_.value)
                    for t in (s_.targets if isinstance(s_, ast.Assign) else [s_.target]):
                        if isinstance(t, ast.Name):
                            env[t.id] = v
                        elif isinstance(t, ast.Subscript):
                            val(t.value)[val(t.slice)] = v
                        else:
                            raise KeyError(U(t))
                    continue
                if isinstance(s_, ast.Expr) and isinstance(s_.value, ast.Call) and isinstance(s_.value.func, ast.Attribute) \
                        and s_.value.func.attr in ("update", "append", "extend", "remove", "pop") and not s_.value.keywords:
                    getattr(val(s_.value.func.value), s_.value.func.attr)(*[val(a) for a in s_.value.args])
                    continue
                raise KeyError(type(s_).__name__)
        except AnchorError:
            raise
        except Exception as ex:          # noqa: BLE001
            raise AnchorError(f"presets/{name}.py:make does not return a literal (and is not straight-line code over literals: {ex})")
        raise AnchorError(f"presets/{name}.py:make has no return")
    return {name: ev(name) for name in ("commonmark", "default", "zero")}


def loc(m: Module, node: ast.AST) -> str:
    ln = getattr(node, 'lineno', 0)
    if m.line_map:
        # the module was normalised (helpers inlined): report the line of the file the construct came from
        k = ln
        while k > 0 and k not in m.line_map:
            k -= 1
        ln = m.line_map.get(k, ln)
    return f"{PKG}/{m.rel}:{ln}"
