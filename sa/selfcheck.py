"""`bin/check --self`: engine smoke test on built-in snippets (used as MANIFEST.setup_cmd)."""
from __future__ import annotations

import ast


def smoke() -> int:
    from .cfg import CFG
    from .facts import Facts, analyse
    src = '''
def f(s, pos, n):
    try:
        if pos < n:
            x = s[pos]
        while pos < n:
            pos += 1
            if s[pos - 1] == "a":
                return 1
    finally:
        n = 0
    return 2
'''
    fn = ast.parse(src).body[0]
    cfg = CFG(fn)
    res = analyse(cfg)
    ok = True
    subs = [n for n in ast.walk(fn) if isinstance(n, ast.Subscript)]
    for sub in subs:
        for node in cfg.owner(sub):
            z = res[node.id]
            if z is None:
                continue
            from .facts import lin, T
            t, k = lin(sub.slice)
            if not z.entails(T(t), "n", -1 - k):
                ok = False
    # return inside try/finally must pass through the finally copy
    rets = [n for n in cfg.nodes if n.kind == "stmt" and isinstance(n.ast, ast.Return)]
    for rnode in rets:
        nxt = [m for (m, l) in rnode.succ if l == "return"]
        if isinstance(rnode.ast.value, ast.Constant) and rnode.ast.value.value == 1:
            if not (nxt and nxt[0].kind == "stmt" and isinstance(nxt[0].ast, ast.Assign)):
                ok = False
    print("engine smoke test:", "ok" if ok else "FAILED")
    return 0 if ok else 2
