"""Truth-table simulation of small decision code: evaluate tests over named boolean atoms and walk the CFG.

Used where a property is a boolean function of a few atoms (chain filter; URL validator) and any equivalent
restructuring of the code must be accepted: the code is evaluated under every assignment of the atoms and
compared with the required function."""
from __future__ import annotations

import ast
from typing import Callable

from .cfg import CFG, Node

Atom = Callable[[ast.AST], "bool | None"]


def beval(e: ast.AST, atom: Atom, env: dict[str, bool] | None = None):
    """-> True / False / None (unknown)."""
    env = env if env is not None else {}
    v = atom(e)
    if v is not None:
        return v
    if isinstance(e, ast.Constant):
        return bool(e.value)
    if isinstance(e, ast.Name) and e.id in env:
        return env[e.id]
    if isinstance(e, ast.UnaryOp) and isinstance(e.op, ast.Not):
        x = beval(e.operand, atom, env)
        return None if x is None else (not x)
    if isinstance(e, ast.BoolOp):
        vals = [beval(v, atom, env) for v in e.values]
        if isinstance(e.op, ast.And):
            if any(v is False for v in vals):
                return False
            return None if any(v is None for v in vals) else True
        if any(v is True for v in vals):
            return True
        return None if any(v is None for v in vals) else False
    if isinstance(e, ast.IfExp):
        t = beval(e.test, atom, env)
        if t is None:
            a, b = beval(e.body, atom, env), beval(e.orelse, atom, env)
            return a if a == b else None
        return beval(e.body if t else e.orelse, atom, env)
    if isinstance(e, ast.Call) and isinstance(e.func, ast.Name) and e.func.id == "bool" and len(e.args) == 1:
        return beval(e.args[0], atom, env)
    if isinstance(e, ast.Compare) and len(e.ops) == 1 and isinstance(e.comparators[0], ast.Constant) and e.comparators[0].value is None:
        x = beval(e.left, atom, env)
        if x is None:
            return None
        if isinstance(e.ops[0], (ast.IsNot, ast.NotEq)):
            return x
        if isinstance(e.ops[0], (ast.Is, ast.Eq)):
            return not x
    if isinstance(e, ast.NamedExpr):
        return beval(e.value, atom, env)
    return None


def simulate_return(cfg: CFG, atom: Atom, max_steps: int = 2000):
    """Walk the function from its entry under the atom assignment; -> (bool|None value of the return, 'ret'|'raise'|'unknown')."""
    env: dict[str, bool] = {}
    cur: Node | None = cfg.entry
    steps = 0
    while cur is not None and steps < max_steps:
        steps += 1
        if cur is cfg.exit:
            return None, "ret"
        if cur is cfg.raise_exit:
            return None, "raise"
        if cur.kind == "test":
            v = beval(cur.ast, atom, env)
            if v is None:
                return None, "unknown"
            cur = next((m for (m, l) in cur.succ if l == ("T" if v else "F")), None)
            continue
        if cur.kind == "stmt":
            a = cur.ast
            if isinstance(a, ast.Return):
                if a.value is None:
                    return None, "ret"
                return beval(a.value, atom, env), "ret"
            if isinstance(a, ast.Raise):
                return None, "raise"
            if isinstance(a, ast.Assign) and len(a.targets) == 1 and isinstance(a.targets[0], ast.Name):
                v = beval(a.value, atom, env)
                if v is None:
                    env.pop(a.targets[0].id, None)
                else:
                    env[a.targets[0].id] = v
        nxt = [m for (m, l) in cur.succ if l not in ("exc",)]
        cur = nxt[0] if nxt else None
    return None, "unknown"
