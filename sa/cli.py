"""Command line: check <property> [--tier quick|thorough] [--replay path] | --all | --self | --list"""
from __future__ import annotations

import argparse
import json
import os
import sys
import traceback

from .core import AnalysisError


def run_property(pid: str, tier: str, replay: str | None = None) -> int:
    from .ctx import Ctx
    from .props import COMMON_ASSUMPTIONS, table
    from .report import Run
    props = table()
    if pid not in props:
        print(f"ANALYSIS-ERROR property={pid} no check is registered for this property")
        return 2
    prop = props[pid]
    expl = (f"static analysis of /repo/markdown_it (source only, nothing executed). Decided clause: {prop.clause}. "
            f"Not decided: {prop.not_decided or 'see DESIGN.md'}.")
    run = Run(pid, tier, expl, COMMON_ASSUMPTIONS + prop.assumptions)
    try:
        c = Ctx(tier=tier)
        if os.environ.get("VERIF_EXPERIMENT_NORMALISE_ALL"):
            c = c.normalised("")          # experiment only (not used by any registered command): every rule on the normal form
        rules = list(prop.rules) + (list(prop.thorough) if tier == "thorough" else [])
        for rule in rules:
            res = rule(c)
            run.add(res)
        if replay:
            want = json.load(open(replay))
            hit = [o for r in run.results for o in r.obligations if o.rule == want.get("rule") and o.key == want.get("key")]
            for o in hit:
                print("REPLAY", o.line())
            if not hit:
                print(f"REPLAY obligation {want.get('rule')} {want.get('key')} no longer exists on the current tree")
            bad = [o for o in hit if o.verdict == "violation"]
            if bad:
                print(f"VIOLATION property={pid} replay={replay}")
                return 1
            return 0
        if tier == "thorough" and not os.environ.get("VERIF_NO_ADVISORY"):
            # cross-check the engine's call resolution against mypy's inference (mypy ships in the repository's own environment)
            import pathlib
            import subprocess
            import tempfile
            tool = pathlib.Path(__file__).resolve().parent.parent / "tools" / "mypy_xcheck.py"
            with tempfile.TemporaryDirectory(prefix="xcheck_") as td:
                outp = os.path.join(td, "x.json")
                px = subprocess.run([sys.executable, str(tool), "--json", outp], capture_output=True, text=True, timeout=600)
                line = next((l for l in px.stdout.splitlines() if l.startswith("XCHECK")), "XCHECK not run")
                print(line)
                if os.path.exists(outp):
                    run.extra["type_resolution_crosscheck"] = json.load(open(outp))
                else:
                    run.extra["type_resolution_crosscheck"] = {"error": (px.stdout + px.stderr)[-300:]}
                for l in px.stdout.splitlines():
                    if l.strip().startswith("DISAGREE"):
                        print(f"XCHECK-WARNING property={pid} {l.strip()}")
            # validate the checker itself on scratch variants of the current tree (advisory, never changes the verdict)
            from . import selftest
            adv = selftest.advisory(pid)
            run.extra["checker_validation"] = adv
            print(f"SELFTEST property={pid}: {adv['fired']}/{adv['must_fire']} breaking variants of the current tree make this check fire "
                  f"(mutants, reverted fixes, seeded changes); {adv['silent']}/{adv['must_stay_silent']} behaviour-preserving variants "
                  f"(whole-tree rewrites, refactoring corpus) leave it silent; {len(adv['skipped'])} skipped")
            for l in adv["failed"]:
                print(f"SELFTEST-WARNING property={pid} {l}")
        return run.finish(c.p.digests())
    except AnalysisError as e:
        print(f"ANALYSIS-ERROR property={pid} {type(e).__name__}: {e}")
        run.errors.append(f"{type(e).__name__}: {e}")
        try:
            run.finish()
        except Exception:
            pass
        return 2
    except Exception as e:        # a traceback must never look like a violation
        print(f"ANALYSIS-ERROR property={pid} internal error {type(e).__name__}: {e}")
        traceback.print_exc(file=sys.stdout)
        return 2


def main(argv: list[str] | None = None) -> int:
    ap = argparse.ArgumentParser(prog="check")
    ap.add_argument("property", nargs="?")
    ap.add_argument("--tier", default=os.environ.get("VERIF_TIER", "quick"), choices=["quick", "thorough"])
    ap.add_argument("--replay")
    ap.add_argument("--all", action="store_true")
    ap.add_argument("--self", dest="selfcheck", action="store_true")
    ap.add_argument("--list", action="store_true")
    a = ap.parse_args(argv)
    if a.selfcheck:
        from .selfcheck import smoke
        return smoke()
    if a.list:
        from .props import table
        for pid, p in sorted(table().items()):
            print(pid, [r.__name__ for r in p.rules])
        return 0
    if a.all:
        from .props import table
        worst = 0
        for pid in sorted(table()):
            print(f"===== {pid}")
            worst = max(worst, run_property(pid, a.tier))
        return worst
    if not a.property:
        ap.error("property id required")
    return run_property(a.property, a.tier, a.replay)


if __name__ == "__main__":
    sys.exit(main())
