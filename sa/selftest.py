"""bin/selftest: validate the checker both ways on scratch copies of the *current* markdown_it/ tree.

must fire   - every fix: commit reverted; every seeded change under /verif/seeded; AST-level mutation operators that break one
              instance of a rule (escape dropped, validator test removed, cache invalidation dropped, restore dropped, map
              shifted, try/except IndexError removed, close token with nesting 0, ...). The named property's check must exit 1.
must be silent - behaviour-preserving rewrites of the whole tree (ast.unparse round trip, alpha-renaming of locals, comparison
              flips, if/else inversion, augmented-assignment expansion). Every check must exit 0.

Scratch copies live under a mkdtemp directory outside /repo and /verif and are removed as soon as their verdict is known.
"""
from __future__ import annotations

import argparse
import ast
import concurrent.futures as cf
import copy
import json
import os
import pathlib
import shutil
import subprocess
import sys
import tempfile
import time

VERIF = pathlib.Path(__file__).resolve().parent.parent
REPO = pathlib.Path(os.environ.get("VERIF_REPO", "/repo"))
PKG = "markdown_it"


def read_tree() -> dict[str, str]:
    return {p.relative_to(REPO / PKG).as_posix(): p.read_text(encoding="utf8") for p in sorted((REPO / PKG).rglob("*.py"))}


# ------------------------------------------------------------------------------------------------ silent transforms
class _Rename(ast.NodeTransformer):
    """Append a suffix to every local variable of every function (parameters and names used in nested scopes keep theirs)."""

    def __init__(self, suffix: str) -> None:
        self.suffix = suffix
        self.stack: list[set[str]] = []

    def _locals(self, fn: ast.AST) -> set[str]:
        params = {a.arg for a in fn.args.posonlyargs + fn.args.args + fn.args.kwonlyargs}       # type: ignore[attr-defined]
        if fn.args.vararg:                                                                       # type: ignore[attr-defined]
            params.add(fn.args.vararg.arg)                                                        # type: ignore[attr-defined]
        if fn.args.kwarg:                                                                         # type: ignore[attr-defined]
            params.add(fn.args.kwarg.arg)                                                         # type: ignore[attr-defined]
        stored: set[str] = set()
        nested_used: set[str] = set()
        declared: set[str] = set()
        stack = list(ast.iter_child_nodes(fn))
        while stack:
            n = stack.pop()
            if isinstance(n, (ast.FunctionDef, ast.AsyncFunctionDef, ast.Lambda, ast.ClassDef)):
                for x in ast.walk(n):
                    if isinstance(x, ast.Name):
                        nested_used.add(x.id)
                if isinstance(n, (ast.FunctionDef, ast.ClassDef)):
                    nested_used.add(n.name)
                continue
            if isinstance(n, (ast.ListComp, ast.SetComp, ast.DictComp, ast.GeneratorExp)):
                for x in ast.walk(n):
                    if isinstance(x, ast.Name):
                        nested_used.add(x.id)
                continue
            if isinstance(n, (ast.Global, ast.Nonlocal)):
                declared.update(n.names)
            if isinstance(n, ast.Name) and isinstance(n.ctx, (ast.Store, ast.Del)):
                stored.add(n.id)
            if isinstance(n, ast.ExceptHandler) and n.name:
                nested_used.add(n.name)
            stack.extend(ast.iter_child_nodes(n))
        return stored - params - nested_used - declared

    def visit_FunctionDef(self, node: ast.FunctionDef) -> ast.AST:
        self.stack.append(self._locals(node))
        node.body = [self.visit(s) for s in node.body]
        self.stack.pop()
        return node

    def visit_Lambda(self, node: ast.Lambda) -> ast.AST:
        return node

    def visit_ClassDef(self, node: ast.ClassDef) -> ast.AST:
        old = self.stack
        self.stack = []
        self.generic_visit(node)
        self.stack = old
        return node

    def visit_Name(self, node: ast.Name) -> ast.AST:
        if self.stack and node.id in self.stack[-1]:
            import hashlib
            new = "v" + hashlib.md5((node.id + self.suffix).encode()).hexdigest()[:6]
            return ast.copy_location(ast.Name(id=new, ctx=node.ctx), node)
        return node


class _FlipCompare(ast.NodeTransformer):
    FLIP = {ast.Lt: ast.Gt, ast.Gt: ast.Lt, ast.LtE: ast.GtE, ast.GtE: ast.LtE}

    def visit_Compare(self, node: ast.Compare) -> ast.AST:
        self.generic_visit(node)
        if len(node.ops) == 1 and type(node.ops[0]) in self.FLIP and not any(isinstance(x, (ast.Call, ast.NamedExpr)) for x in ast.walk(node)):
            return ast.copy_location(ast.Compare(left=node.comparators[0], ops=[self.FLIP[type(node.ops[0])]()], comparators=[node.left]), node)
        return node


class _InvertIf(ast.NodeTransformer):
    def visit_If(self, node: ast.If) -> ast.AST:
        self.generic_visit(node)
        if node.orelse and not (len(node.orelse) == 1 and isinstance(node.orelse[0], ast.If)) and isinstance(node.test, ast.Compare) \
                and len(node.test.ops) == 1 and isinstance(node.test.ops[0], (ast.Eq, ast.NotEq)):
            op = ast.NotEq() if isinstance(node.test.ops[0], ast.Eq) else ast.Eq()
            t = ast.Compare(left=node.test.left, ops=[op], comparators=node.test.comparators)
            return ast.copy_location(ast.If(test=t, body=node.orelse, orelse=node.body), node)
        return node


class _ExpandAug(ast.NodeTransformer):
    def visit_AugAssign(self, node: ast.AugAssign) -> ast.AST:
        if isinstance(node.target, ast.Name) and isinstance(node.op, (ast.Add, ast.Sub)):
            load = ast.Name(id=node.target.id, ctx=ast.Load())
            return ast.copy_location(ast.Assign(targets=[node.target], value=ast.BinOp(left=load, op=node.op, right=node.value), lineno=node.lineno), node)
        return node


def _apply(src: dict[str, str], tr_factory) -> dict[str, str]:
    out = {}
    for rel, text in src.items():
        tree = ast.parse(text)
        tree = tr_factory().visit(tree)
        ast.fix_missing_locations(tree)
        out[rel] = ast.unparse(tree) + "\n"
    return out


SILENT = {
    "unparse-roundtrip": lambda s: _apply(s, lambda: ast.NodeTransformer()),
    "rename-locals": lambda s: _apply(s, lambda: _Rename("_v")),
    "flip-comparisons": lambda s: _apply(s, _FlipCompare),
    "invert-if-eq": lambda s: _apply(s, _InvertIf),
    "expand-augassign": lambda s: _apply(s, _ExpandAug),
}


# ------------------------------------------------------------------------------------------------ firing mutants
def _mut(rel: str, pid: str, desc: str, fn):
    return {"rel": rel, "pid": pid, "desc": desc, "fn": fn}


def _each(rel: str, src: dict[str, str], pred, rewrite, pid: str, what: str, limit: int = 6, start: int = 0):
    """One mutant per AST node of `rel` satisfying pred, rewritten by `rewrite(node) -> node | None (delete)`."""
    out = []
    tree = ast.parse(src[rel])
    targets = [n for n in ast.walk(tree) if pred(n)]
    for i, _ in list(enumerate(targets))[start:start + limit]:
        def make(i=i):
            t = ast.parse(src[rel])
            nodes = [n for n in ast.walk(t) if pred(n)]
            victim = nodes[i]

            class R(ast.NodeTransformer):
                def generic_visit(self, node):
                    super().generic_visit(node)
                    return node

                def visit(self, node):
                    if node is victim:
                        return rewrite(node)
                    return super().visit(node)
            t2 = R().visit(t)
            ast.fix_missing_locations(t2)
            return {rel: ast.unparse(t2) + "\n"}
        line = getattr(targets[i], "lineno", 0)
        out.append({"rel": rel, "pid": pid, "desc": f"{what} ({rel}:{line})", "make": make})
    return out


def firing_mutants(src: dict[str, str]) -> list[dict]:
    m: list[dict] = []
    U = ast.unparse
    # C04: drop an escapeHtml call in the renderer
    m += _each("renderer.py", src, lambda n: isinstance(n, ast.Call) and U(n.func) == "escapeHtml", lambda n: n.args[0], "C04", "escapeHtml(x) -> x")
    # C05: validator test removed  (not state.md.validateLink(x)) -> False
    for rel in ("rules_inline/link.py", "rules_inline/image.py", "rules_inline/autolink.py", "rules_block/reference.py"):
        m += _each(rel, src, lambda n: isinstance(n, ast.UnaryOp) and isinstance(n.op, ast.Not) and isinstance(n.operand, ast.Call)
                   and U(n.operand.func).endswith("validateLink"), lambda n: ast.Constant(value=False), "C05", "validateLink test removed", 2)
    # C11: cache invalidation dropped
    m += _each("ruler.py", src, lambda n: isinstance(n, ast.Assign) and U(n.targets[0]) == "self.__cache__" and isinstance(n.value, ast.Constant)
               and n.value.value is None, lambda n: ast.Pass(), "C11", "self.__cache__ = None dropped", 8)
    # C02: a closing token pushed with nesting 0
    for rel in ("rules_block/blockquote.py", "rules_block/list.py", "rules_block/heading.py", "rules_inline/link.py", "rules_block/table.py"):
        def to0(n):
            n = copy.deepcopy(n)
            n.args[2] = ast.Constant(value=0)
            return n
        m += _each(rel, src, lambda n: isinstance(n, ast.Call) and isinstance(n.func, ast.Attribute) and n.func.attr == "push" and len(n.args) == 3
                   and isinstance(n.args[0], ast.Constant) and str(n.args[0].value).endswith("_close"), to0, "C02", "close token pushed with nesting 0", 2)
    # C07: a restore dropped
    for rel, attr in (("rules_block/blockquote.py", "blkIndent"), ("rules_block/blockquote.py", "lineMax"), ("rules_block/list.py", "listIndent"),
                      ("rules_block/list.py", "blkIndent")):
        m += _each(rel, src, lambda n, attr=attr: isinstance(n, ast.Assign) and U(n.targets[0]) == f"state.{attr}" and isinstance(n.value, (ast.Name, ast.Attribute))
                   and ("old" in U(n.value) or "listIndent" in U(n.value)), lambda n: ast.Pass(), "C07", f"restore of state.{attr} dropped", 1)
    # C03: map start shifted
    for rel in ("rules_block/paragraph.py", "rules_block/fence.py", "rules_block/hr.py", "rules_block/code.py"):
        def shift(n):
            n = copy.deepcopy(n)
            n.value.elts[0] = ast.BinOp(left=n.value.elts[0], op=ast.Add(), right=ast.Constant(value=1))
            return n
        m += _each(rel, src, lambda n: isinstance(n, ast.Assign) and isinstance(n.targets[0], ast.Attribute) and n.targets[0].attr == "map"
                   and isinstance(n.value, ast.List), shift, "C03", "map start + 1", 1)
    # C03 (LINECAP): the cursor is moved one line too far / the clamp of the empty last list item is dropped
    for rel in ("rules_block/paragraph.py", "rules_block/hr.py", "rules_block/code.py", "rules_block/html_block.py"):
        def plus1(n):
            n = copy.deepcopy(n)
            n.value = ast.BinOp(left=n.value, op=ast.Add(), right=ast.Constant(value=1))
            return n
        m += _each(rel, src, lambda n: isinstance(n, ast.Assign) and U(n.targets[0]) == "state.line", plus1, "C03", "state.line = <cursor> + 1", 1)
    m += _each("rules_block/list.py", src, lambda n: isinstance(n, ast.Call) and isinstance(n.func, ast.Name) and n.func.id == "min"
               and "state.line" in U(n), lambda n: n.args[0], "C03", "min(state.line + 2, endLine) -> state.line + 2", 1)
    m += _each("rules_block/table.py", src, lambda n: isinstance(n, ast.If) and U(n.test) == "startLine + 2 > endLine", lambda n: ast.Pass(),
               "C03", "`startLine + 2 > endLine` guard dropped in table", 1)
    # C03: map written before the cursor is advanced (swap with the state.line store is approximated by reading startLine)
    # C01: try/except IndexError removed
    for rel in ("rules_block/blockquote.py", "rules_block/fence.py", "rules_block/hr.py", "rules_block/list.py"):
        def untry(n):
            return n.body
        m += _each(rel, src, lambda n: isinstance(n, ast.Try) and any(h.type is not None and "IndexError" in U(h.type) for h in n.handlers)
                   and len(n.body) == 1, lambda n: n.body[0], "C01", "try/except IndexError removed", 1)
    # C01: cursor store before `return True` dropped in an inline rule
    for rel in ("rules_inline/newline.py", "rules_inline/escape.py", "rules_inline/entity.py", "rules_inline/autolink.py"):
        m += _each(rel, src, lambda n: isinstance(n, (ast.Assign, ast.AugAssign)) and U(n.targets[0] if isinstance(n, ast.Assign) else n.target) == "state.pos",
                   lambda n: ast.Pass(), "C01", "state.pos store dropped", 1)
    # C01 (LOOPVAR): the increment in front of a `continue` dropped / an increment turned into += 0
    for rel in ("rules_block/blockquote.py", "rules_block/lheading.py", "rules_block/paragraph.py", "rules_block/code.py", "rules_inline/balance_pairs.py",
                "rules_inline/strikethrough.py", "helpers/parse_link_destination.py", "rules_block/table.py"):
        t0 = ast.parse(src[rel])
        victims: list[tuple[int, int]] = []
        for w in ast.walk(t0):
            for fld in ("body", "orelse"):
                blk = getattr(w, fld, None)
                if isinstance(blk, list):
                    for a_, b_ in zip(blk, blk[1:]):
                        if isinstance(a_, ast.AugAssign) and isinstance(b_, ast.Continue) and isinstance(a_.value, ast.Constant):
                            victims.append((a_.lineno, a_.col_offset))
        m += _each(rel, src, lambda n, victims=victims: isinstance(n, ast.AugAssign) and (n.lineno, n.col_offset) in victims, lambda n: ast.Pass(),
                   "C01", "increment before `continue` dropped", 2)
    # C01 (LOOPVAR): the dispatcher's / skipToken's own step on "no rule matched" dropped
    m += _each("parser_inline.py", src, lambda n: isinstance(n, ast.AugAssign) and U(n.target) == "state.pos", lambda n: ast.Pass(), "C01",
               "fallback `state.pos += 1` dropped", 2)
    # C12/C13: class-level cache on a state class
    def add_class_attr(rel, cls):
        def make():
            t = ast.parse(src[rel])
            for n in ast.walk(t):
                if isinstance(n, ast.ClassDef) and n.name == cls:
                    n.body.insert(0, ast.parse("memo: dict = {}").body[0])
            return {rel: ast.unparse(t) + "\n"}
        return {"rel": rel, "pid": "C12", "desc": f"class-level mutable added to {cls}", "make": make}
    m.append(add_class_attr("rules_inline/state_inline.py", "StateInline"))
    # C14: finally removed from reset_rules
    def unfinally(n):
        return n.body + n.finalbody
    m += _each("main.py", src, lambda n: isinstance(n, ast.Try) and n.finalbody and any(isinstance(x, ast.Yield) for s in n.body for x in ast.walk(s)),
               lambda n: n.body + n.finalbody, "C14", "try/finally around yield removed", 1)
    # C17: normalize loses the NUL replacement
    m += _each("rules_core/normalize.py", src, lambda n: isinstance(n, ast.Assign) and "NULL_RE" in U(n.value), lambda n: ast.Pass(), "C17", "NUL replacement dropped", 1)
    # C16: reference key not normalised
    m += _each("rules_inline/link.py", src, lambda n: isinstance(n, ast.Assign) and isinstance(n.value, ast.Call) and U(n.value.func) == "normalizeReference",
               lambda n: ast.Pass(), "C16", "normalizeReference dropped at a lookup", 1)
    # C19: text guard removed in smartquotes
    m += _each("rules_core/smartquotes.py", src, lambda n: isinstance(n, ast.If) and "token.type != 'text'" in U(n.test), lambda n: ast.Pass(), "C19", "type != 'text' guard dropped", 1)
    # C19: the autolink guard of smartquotes (finding F11): the counter's update dropped / the guard no longer tests it
    m += _each("rules_core/smartquotes.py", src, lambda n: isinstance(n, ast.AugAssign) and U(n.target) == "inside_autolink" and isinstance(n.op, ast.Add),
               lambda n: ast.Pass(), "C19", "inside_autolink += 1 dropped in smartquotes", 1)

    def only_text(n):
        n = copy.deepcopy(n)
        n.test = n.test.values[0]
        return n
    m += _each("rules_core/smartquotes.py", src, lambda n: isinstance(n, ast.If) and isinstance(n.test, ast.BoolOp) and "inside_autolink" in U(n.test),
               only_text, "C19", "`or inside_autolink` dropped from the text guard of smartquotes", 1)
    # C03 (NONBLANK): the blank-line exit of the paragraph scan dropped
    m += _each("rules_block/paragraph.py", src, lambda n: isinstance(n, ast.If) and U(n.test) == "state.isEmpty(nextLine)", lambda n: ast.Pass(), "C03",
               "`if state.isEmpty(nextLine): break` dropped in paragraph", 1)
    # C16 (NLCOUNT, completeness): the escaped character is no longer looked at for a line feed
    m += _each("helpers/parse_link_title.py", src, lambda n: isinstance(n, ast.If) and isinstance(n.test, ast.Compare) and "charCodeAt(string, pos) == 10" in U(n.test)
               and any(isinstance(x, ast.AugAssign) for x in n.body), lambda n: ast.Pass(), "C16", "LF test of the escaped character dropped in parseLinkTitle", 1)
    # C03 (NONBLANK, end): the indented-code rule returns with the scan cursor instead of the end of its last non-blank line
    def to_cursor(n):
        n = copy.deepcopy(n)
        n.value = ast.Name(id="nextLine", ctx=ast.Load())
        return n
    m += _each("rules_block/code.py", src, lambda n: isinstance(n, ast.Assign) and U(n.targets[0]) == "state.line" and isinstance(n.value, ast.Name)
               and n.value.id == "last", to_cursor, "C03", "code: state.line = nextLine (behind the trailing blank lines)", 1)
    # C15 (IDENT): structural equality on tree nodes
    def add_eq(n):
        n = copy.deepcopy(n)
        n.body.append(ast.parse("def __eq__(self, other):\n    return isinstance(other, SyntaxTreeNode) and self.token == other.token and self.children == other.children").body[0])
        return n
    m += _each("tree.py", src, lambda n: isinstance(n, ast.ClassDef) and n.name == "SyntaxTreeNode", add_eq, "C15", "SyntaxTreeNode gains a structural __eq__", 1)
    # C16 (NLCOUNT): the title's line count taken from the decoded text
    def decoded_count(n):
        n = copy.deepcopy(n)
        n.value = ast.parse("title.count('\\n')", mode="eval").body
        return n
    m += _each("helpers/parse_link_title.py", src, lambda n: isinstance(n, ast.Assign) and U(n.targets[0]) == "result.lines" and isinstance(n.value, ast.Name),
               decoded_count, "C16", "result.lines = title.count('\\n') (decoded text)", 1)
    # C18: parse phase reads a renderer-only option
    def read_breaks(n):
        n = copy.deepcopy(n)
        n.body.insert(0, ast.parse("if state.md.options.breaks:\n    pass").body[0])
        return n
    m += _each("rules_inline/newline.py", src, lambda n: isinstance(n, ast.FunctionDef) and n.name == "newline", read_breaks, "C18", "parse phase reads options.breaks", 1)
    # C20: skipToken memo store dropped
    m += _each("parser_inline.py", src, lambda n: isinstance(n, ast.Assign) and U(n.targets[0]) == "cache[pos]", lambda n: ast.Pass(), "C20", "cache[pos] store dropped", 1)
    # C10: rule enabled test dropped from __compile__
    m += _each("ruler.py", src, lambda n: isinstance(n, ast.If) and U(n.test) == "not rule.enabled", lambda n: ast.Pass(), "C10", "`if not rule.enabled: continue` dropped in the chain-filling loop", 1, start=1)
    # (the same test in the loop that only collects chain names is an equivalent mutant: it adds empty chains, nothing else)
    # C09: a table entry removed
    def drop_elt(n):
        n = copy.deepcopy(n)
        n.value.elts = n.value.elts[1:]
        return n
    m += _each("rules_inline/escape.py", src, lambda n: isinstance(n, ast.Assign) and U(n.targets[0]) == "_ESCAPED", drop_elt, "C09", "one character removed from _ESCAPED", 1)
    # C08: info derived through lower()
    def lower_info(n):
        n = copy.deepcopy(n)
        n.value = ast.Call(func=ast.Attribute(value=n.value, attr="lower", ctx=ast.Load()), args=[], keywords=[])
        return n
    m += _each("rules_block/fence.py", src, lambda n: isinstance(n, ast.Assign) and U(n.targets[0]) == "token.info", lower_info, "C08", "fence info lower-cased", 1)
    # C15: attrs aliased in fence renderer
    def uncopy(n):
        return n.func.value
    m += _each("renderer.py", src, lambda n: isinstance(n, ast.Call) and isinstance(n.func, ast.Attribute) and n.func.attr == "copy" and "attrs" in U(n.func.value),
               uncopy, "C15", "token.attrs.copy() -> token.attrs", 1)
    # C01 (PARTIAL): the `if not match: return False` after a regex search dropped; a membership guard weakened to True;
    # a key of the scoped-abbreviation regex that the table does not have
    for rel in ("rules_inline/entity.py", "rules_inline/html_inline.py"):
        m += _each(rel, src, lambda n: isinstance(n, ast.If) and isinstance(n.test, ast.UnaryOp) and isinstance(n.test.op, ast.Not)
                   and isinstance(n.test.operand, ast.Name) and n.test.operand.id == "match", lambda n: ast.Pass(), "C01",
                   "`if not match: return` dropped", 1)
    for rel in ("common/utils.py", "parser_inline.py"):
        def weaken(n):
            n = copy.deepcopy(n)
            n.test = ast.Constant(value=True)
            return n
        m += _each(rel, src, lambda n: isinstance(n, ast.If) and isinstance(n.test, ast.Compare) and len(n.test.ops) == 1
                   and isinstance(n.test.ops[0], ast.In) and isinstance(n.test.comparators[0], ast.Name)
                   and n.test.comparators[0].id in ("entities", "cache"), weaken, "C01", "membership guard of a dict read -> True", 1)

    def more_abbr(n):
        n = copy.deepcopy(n)
        n.args[0] = ast.Constant(value=n.args[0].value.replace("(c|tm|r)", "(c|tm|r|p)"))
        return n
    m += _each("rules_core/replacements.py", src, lambda n: isinstance(n, ast.Call) and U(n.func) == "re.compile" and n.args
               and isinstance(n.args[0], ast.Constant) and "(c|tm|r)" in str(n.args[0].value), more_abbr, "C01",
               "scoped-abbreviation regex accepts (p), the table has no such key", 1)
    return m


# ------------------------------------------------------------------------------------------------ runner
def _materialise(tmp: str, src: dict[str, str], changed: dict[str, str]) -> str:
    root = os.path.join(tmp, "tree")
    for rel, text in {**src, **changed}.items():
        p = pathlib.Path(root, PKG, rel)
        p.parent.mkdir(parents=True, exist_ok=True)
        p.write_text(text, encoding="utf8")
    return root


def _compiles(root: str) -> bool:
    r = subprocess.run([sys.executable, "-m", "compileall", "-q", os.path.join(root, PKG)], capture_output=True)
    shutil.rmtree(os.path.join(root, PKG, "__pycache__"), ignore_errors=True)
    return r.returncode == 0


def _check(root: str, pid: str, evd: str) -> tuple[int, str]:
    env = dict(os.environ, VERIF_REPO=root, VERIF_EVIDENCE_DIR=evd, PYTHONDONTWRITEBYTECODE="1")
    p = subprocess.run([str(VERIF / "bin" / "check"), pid, "--tier", "quick"], cwd=str(VERIF), env=env, capture_output=True, text=True, timeout=600)
    return p.returncode, p.stdout[-3000:]


def run_variant(kind: str, name: str, src: dict[str, str], changed_fn, pids: list[str]) -> dict:
    tmp = tempfile.mkdtemp(prefix="selftest_")
    try:
        try:
            changed = changed_fn()
        except Exception as e:          # noqa: BLE001
            return {"kind": kind, "name": name, "status": "skipped", "why": f"transform failed: {type(e).__name__}: {e}"}
        root = _materialise(tmp, src, changed)
        if not _compiles(root):
            return {"kind": kind, "name": name, "status": "skipped", "why": "variant does not byte-compile"}
        res = {}
        fails: list[str] = []
        lines: list[str] = []
        for pid in pids:
            rc, out = _check(root, pid, os.path.join(tmp, f"ev_{pid}"))
            res[pid] = rc
            if kind == "silent" and rc != 0:
                fails.append(f"{pid} exit {rc}")
                lines += [f"{pid} " + l.strip() for l in out.splitlines() if l.startswith(("  detail:", "ANALYSIS-ERROR"))][:6]
        if fails:
            seen = []
            for l in lines:
                if l not in seen:
                    seen.append(l)
            return {"kind": kind, "name": name, "status": "FAILED", "why": ", ".join(fails), "detail": seen[:40]}
        if kind == "fire":
            ok = any(rc == 1 for rc in res.values())
            return {"kind": kind, "name": name, "status": "ok" if ok else "FAILED", "why": "" if ok else f"no VIOLATION (exit codes {res})"}
        return {"kind": kind, "name": name, "status": "ok"}
    finally:
        shutil.rmtree(tmp, ignore_errors=True)


def _revert_variants(src: dict[str, str]) -> list[tuple[str, str, object]]:
    """(name, pid, changed_fn) for every fixed finding: the tree with that fix: commit reverted."""
    out = []
    kf = json.loads((VERIF / "known_findings.json").read_text())["findings"]
    for k in kf:
        if k.get("status") != "fixed":
            continue
        commit = k["commit"]

        def make(commit=commit):
            tmp = tempfile.mkdtemp(prefix="revert_")
            try:
                for rel, text in src.items():
                    p = pathlib.Path(tmp, PKG, rel)
                    p.parent.mkdir(parents=True, exist_ok=True)
                    p.write_text(text, encoding="utf8")
                diff = subprocess.run(["git", "-C", str(REPO), "show", commit, "--", PKG], capture_output=True, text=True).stdout
                r = subprocess.run(["patch", "-R", "-p1", "-s", "-d", tmp], input=diff, capture_output=True, text=True)
                if r.returncode != 0:
                    raise RuntimeError("reverse patch failed: " + (r.stdout + r.stderr)[-200:])
                return {p.relative_to(pathlib.Path(tmp, PKG)).as_posix(): p.read_text(encoding="utf8") for p in pathlib.Path(tmp, PKG).rglob("*.py")}
            finally:
                shutil.rmtree(tmp, ignore_errors=True)
        out.append((f"revert {commit} ({k['property']} {k['rule']})", k["property"], make))
    return out


def _seed_variants(src: dict[str, str]) -> list[tuple[str, list[str], object]]:
    out = []
    for d in sorted((VERIF / "seeded").glob("*/meta.json")):
        meta = json.loads(d.read_text())
        if not meta.get("detected_by"):
            continue
        patch = d.parent / "patch.diff"

        def make(patch=patch):
            tmp = tempfile.mkdtemp(prefix="seedv_")
            try:
                for rel, text in src.items():
                    p = pathlib.Path(tmp, PKG, rel)
                    p.parent.mkdir(parents=True, exist_ok=True)
                    p.write_text(text, encoding="utf8")
                r = subprocess.run(["patch", "-p1", "-s", "-d", tmp], input=patch.read_text(), capture_output=True, text=True)
                if r.returncode != 0:
                    raise RuntimeError("patch failed: " + (r.stdout + r.stderr)[-200:])
                return {p.relative_to(pathlib.Path(tmp, PKG)).as_posix(): p.read_text(encoding="utf8") for p in pathlib.Path(tmp, PKG).rglob("*.py")}
            finally:
                shutil.rmtree(tmp, ignore_errors=True)
        out.append((f"seed {meta['id']}", meta["detected_by"][:1] if meta["breaks_property"] not in meta["detected_by"] else [meta["breaks_property"]], make))
    return out


def _patched(src: dict[str, str], patch: pathlib.Path) -> dict[str, str]:
    tmp = tempfile.mkdtemp(prefix="patchv_")
    try:
        for rel, text in src.items():
            p = pathlib.Path(tmp, PKG, rel)
            p.parent.mkdir(parents=True, exist_ok=True)
            p.write_text(text, encoding="utf8")
        r = subprocess.run(["patch", "-p1", "-s", "-d", tmp], input=patch.read_text(), capture_output=True, text=True)
        if r.returncode != 0:
            raise RuntimeError("patch failed: " + (r.stdout + r.stderr)[-200:])
        return {p.relative_to(pathlib.Path(tmp, PKG)).as_posix(): p.read_text(encoding="utf8") for p in pathlib.Path(tmp, PKG).rglob("*.py")}
    finally:
        shutil.rmtree(tmp, ignore_errors=True)


def _refactor_variants(src: dict[str, str]) -> list[tuple[str, object]]:
    """The must-stay-silent corpus under /verif/refactors: behaviour-preserving refactorings written independently of the
    checks (each with an equivalence harness, see refactors/README.md).  Every check must exit 0 on each of them."""
    out = []
    for patch in sorted((VERIF / "refactors").glob("*/patch.diff")):
        out.append((f"refactor {patch.parent.name}", (lambda patch=patch: _patched(src, patch))))
    return out


def advisory(pid: str, jobs_n: int = 16) -> dict:
    """The part of the self-test that concerns one property, run by `check <pid> --tier thorough` after the analysis:
    variants that must make this property's check fire (its mutants, its reverted fixes, the seeded changes it is recorded to
    detect) and variants on which it must stay silent (whole-tree rewrites and the refactoring corpus).  Advisory: the outcome
    is reported and written to the evidence file; it validates the checker and never changes the verdict on the tree."""
    src = read_tree()
    jobs = []
    for name, fn in SILENT.items():
        jobs.append(("silent", name, (lambda fn=fn: fn(src)), [pid]))
    for (name, mk) in _refactor_variants(src):
        jobs.append(("silent", name, mk, [pid]))
    for mu in firing_mutants(src):
        if mu["pid"] == pid:
            jobs.append(("fire", f"{mu['pid']}: {mu['desc']}", mu["make"], [pid]))
    for (name, p_, mk) in _revert_variants(src):
        if p_ == pid:
            jobs.append(("fire", name, mk, [pid]))
    for d in sorted((VERIF / "seeded").glob("*/meta.json")):
        meta = json.loads(d.read_text())
        if pid in meta.get("detected_by", []):
            patch = d.parent / "patch.diff"
            jobs.append(("fire", f"seed {meta['id']}", (lambda patch=patch: _patched(src, patch)), [pid]))
    results = []
    with cf.ThreadPoolExecutor(jobs_n) as ex:
        futs = [ex.submit(run_variant, k, n, src, fn, pids) for (k, n, fn, pids) in jobs]
        for fu in cf.as_completed(futs):
            results.append(fu.result())
    fire = [r for r in results if r["kind"] == "fire" and r["status"] != "skipped"]
    silent = [r for r in results if r["kind"] == "silent" and r["status"] != "skipped"]
    return {
        "must_fire": len(fire), "fired": sum(r["status"] == "ok" for r in fire),
        "must_stay_silent": len(silent), "silent": sum(r["status"] == "ok" for r in silent),
        "skipped": [f"{r['name']}: {r.get('why', '')}" for r in results if r["status"] == "skipped"],
        "failed": [f"{r['kind']} {r['name']}: {r.get('why', '')}" for r in results if r["status"] == "FAILED"],
        "fired_names": sorted(r["name"] for r in fire if r["status"] == "ok"),
    }


def main(argv: list[str] | None = None) -> int:
    ap = argparse.ArgumentParser(prog="selftest")
    ap.add_argument("--jobs", type=int, default=16)
    ap.add_argument("--only", choices=["silent", "fire", "revert", "seeds", "refactors"], default=None)
    ap.add_argument("--json", default=None)
    a = ap.parse_args(argv)
    sys.path.insert(0, str(VERIF))
    from sa.props import table
    allp = sorted(table())
    src = read_tree()
    t0 = time.time()
    jobs = []
    if a.only in (None, "silent"):
        for name, fn in SILENT.items():
            jobs.append(("silent", name, (lambda fn=fn: fn(src)), allp))
    if a.only in (None, "refactors"):
        for (name, mk) in _refactor_variants(src):
            jobs.append(("silent", name, mk, allp))
    if a.only in (None, "fire"):
        for mu in firing_mutants(src):
            jobs.append(("fire", f"{mu['pid']}: {mu['desc']}", mu["make"], [mu["pid"]]))
    if a.only in (None, "revert"):
        for (name, pid, mk) in _revert_variants(src):
            jobs.append(("fire", name, mk, [pid]))
    if a.only in (None, "seeds"):
        for (name, pids, mk) in _seed_variants(src):
            jobs.append(("fire", name, mk, pids))
    results = []
    with cf.ThreadPoolExecutor(a.jobs) as ex:
        futs = [ex.submit(run_variant, k, n, src, fn, pids) for (k, n, fn, pids) in jobs]
        for fu in cf.as_completed(futs):
            results.append(fu.result())
    bad = [r for r in results if r["status"] == "FAILED"]
    skipped = [r for r in results if r["status"] == "skipped"]
    fire = [r for r in results if r["kind"] == "fire" and r["status"] != "skipped"]
    silent = [r for r in results if r["kind"] == "silent" and r["status"] != "skipped"]
    for r in sorted(results, key=lambda r: (r["kind"], r["name"])):
        if r["status"] != "ok":
            print(f"{r['status']:8} {r['kind']:6} {r['name']}  {r.get('why', '')}")
            for l in r.get("detail", []):
                print("         ", l[:260])
    print(f"selftest: {sum(r['status'] == 'ok' for r in fire)}/{len(fire)} firing variants fired, "
          f"{sum(r['status'] == 'ok' for r in silent)}/{len(silent)} silent variants silent, {len(skipped)} skipped, {time.time() - t0:.1f}s")
    if a.json:
        pathlib.Path(a.json).write_text(json.dumps(results, indent=1))
    return 1 if bad else 0


if __name__ == "__main__":
    sys.exit(main())
