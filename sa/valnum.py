"""Value numbering / copy propagation with symbolic entry values.

Abstract values
    ('entry', key)         the value location `key` held when the function was entered
    ('const', repr)        a literal
    ('add', base, c)       base + c   (base is never itself an 'add')
    ('def', node, text)    an opaque value computed at CFG node `node` (expression text, or 'call:<callee>')
    ('phi', node, key)     different values meet at CFG node `node` for location `key`

Tracked locations (keys): local names; one-level attribute paths rooted at a name (``state.line``); pseudo-fields
``state.sCount[nextLine]`` (element of a container attribute under a syntactic index).  A location that was never
written maps to its own entry value.  Calls clobber what the effect summaries say they may write; a rule may
override the summary of particular call sites (co-inductive rule contracts).
"""
from __future__ import annotations

import ast
import re
from typing import Any, Callable

from .cfg import CFG, Node
from .core import Func, U
from .ctx import Ctx
from .dataflow import Problem, solve

Val = tuple
IDENT = re.compile(r"[A-Za-z_][A-Za-z_0-9]*")
MUTATORS = {"append", "extend", "insert", "pop", "remove", "clear", "update", "setdefault", "sort", "reverse", "add",
            "discard", "popitem"}


def entry(key: str) -> Val:
    return ("entry", key)


def add(v: Val, c: int) -> Val:
    if c == 0:
        return v
    if v[0] == "add":
        return add(v[1], v[2] + c)
    if v[0] == "const":
        try:
            x = ast.literal_eval(v[1])
            if isinstance(x, int) and not isinstance(x, bool):
                return ("const", repr(x + c))
        except Exception:
            pass
    return ("add", v, c)


def key_of(e: ast.AST) -> str | None:
    """Location key of an lvalue / rvalue expression, if it is a tracked form."""
    if isinstance(e, ast.Name):
        return e.id
    if isinstance(e, ast.Attribute) and isinstance(e.value, ast.Name):
        return f"{e.value.id}.{e.attr}"
    if isinstance(e, ast.Subscript) and not isinstance(e.slice, ast.Slice):
        base = key_of(e.value)
        if base is not None and "[" not in base and _simple_index(e.slice):
            return f"{base}[{U(e.slice)}]"
    return None


def _simple_index(e: ast.AST) -> bool:
    for n in ast.walk(e):
        if isinstance(n, (ast.Call, ast.Subscript, ast.Attribute, ast.NamedExpr, ast.IfExp, ast.BoolOp, ast.Compare,
                          ast.Lambda)):
            return False
    return True


def names_in(text: str) -> set[str]:
    return set(IDENT.findall(text))


CallOverride = Callable[[Any, ast.Call, dict, int], bool]
EdgeFilter = Callable[[Node, str, dict], bool]          # (test node, 'T'|'F', env) -> is the edge feasible?


class VN(Problem):
    def __init__(self, c: Ctx, f: Func, call_override: CallOverride | None = None,
                 edge_filter: EdgeFilter | None = None) -> None:
        self.c, self.f = c, f
        self.cfg = c.cfg(f)
        self.call_override = call_override
        self.edge_filter = edge_filter
        self.sticky: dict[int, set[str]] = {}

    # ------------------------------------------------------------------ environment access
    @staticmethod
    def get(env: dict, key: str) -> Val:
        v = env.get(key)
        if v is not None:
            return v
        # clobbered wildcard of the root / of the container
        if "[" in key:
            cont = key.split("[", 1)[0]
            w = env.get(cont + "[*]")
            if w is not None:
                return w
            key0 = cont
        else:
            key0 = key
        if "." in key0:
            root = key0.split(".", 1)[0]
            w = env.get(root + ".*")
            if w is not None:
                return w
        return entry(key)

    def val(self, e: ast.AST, env: dict, nid: int) -> Val:
        if isinstance(e, ast.Constant):
            return ("const", repr(e.value))
        if isinstance(e, ast.UnaryOp) and isinstance(e.op, ast.USub) and isinstance(e.operand, ast.Constant) \
                and isinstance(e.operand.value, int):
            return ("const", repr(-e.operand.value))
        if isinstance(e, ast.Subscript) and isinstance(e.value, ast.Name) and isinstance(e.slice, ast.Constant) \
                and isinstance(e.slice.value, int) and not isinstance(e.slice.value, bool):
            # component of a local that holds a tuple of values
            tv = self.get(env, e.value.id)
            if isinstance(tv, tuple) and tv and tv[0] == "tuple" and 0 <= e.slice.value < len(tv) - 1:
                return tv[1 + e.slice.value]
        k = key_of(e)
        if k is not None:
            return self.get(env, k)
        if isinstance(e, ast.BinOp) and isinstance(e.op, (ast.Add, ast.Sub)):
            if isinstance(e.right, ast.Constant) and isinstance(e.right.value, int) and not isinstance(e.right.value, bool):
                cst = e.right.value if isinstance(e.op, ast.Add) else -e.right.value
                return add(self.val(e.left, env, nid), cst)
            if isinstance(e.op, ast.Add) and isinstance(e.left, ast.Constant) and isinstance(e.left.value, int) \
                    and not isinstance(e.left.value, bool):
                return add(self.val(e.right, env, nid), e.left.value)
        if isinstance(e, ast.IfExp):
            a, b = self.val(e.body, env, nid), self.val(e.orelse, env, nid)
            if a == b:
                return a
        if isinstance(e, ast.NamedExpr):
            return self.val(e.value, env, nid)
        if isinstance(e, (ast.Tuple, ast.List)) and e.elts and not any(isinstance(x, ast.Starred) for x in e.elts):
            # a tuple of values: kept component-wise, so that `saved = (a, b); ...; (a, b) = saved` restores each component
            return ("tuple",) + tuple(self.val(x, env, nid) for x in e.elts)
        return ("def", nid, U(e))

    # ------------------------------------------------------------------ stores
    def _store(self, env: dict, key: str, v: Val, nid: int) -> None:
        """Write location `key`; invalidate what may alias it or is indexed by it."""
        if "[" in key:
            cont = key.split("[", 1)[0]
            for k in list(env):
                if k != key and k.startswith(cont + "[") and k != cont + "[*]":
                    # another element of the same container under a different index text: may alias
                    if env[k] != entry(k):
                        env[k] = ("def", nid, "may-alias:" + k)
                    else:
                        env[k] = ("def", nid, "may-alias:" + k) if self._may_alias(k, key) else env[k]
            env[key] = v
            return
        # a plain name or attribute path
        env[key] = v
        if "." not in key:
            # pseudo-fields indexed by this name now denote other cells
            for k in list(env):
                if "[" in k and key in names_in(k.split("[", 1)[1]):
                    if env[k] != entry(k):
                        lost = set(env.get("!lost", frozenset()))
                        lost.add((k, env[k]))
                        env["!lost"] = frozenset(lost)
                    del env[k]
        else:
            # storing the container attribute itself drops its elements
            for k in list(env):
                if k.startswith(key + "["):
                    del env[k]

    @staticmethod
    def _may_alias(k1: str, k2: str) -> bool:
        """Two index texts over the same container: distinct constants / same base with different offsets cannot alias."""
        i1, i2 = k1.split("[", 1)[1][:-1], k2.split("[", 1)[1][:-1]
        m1 = re.fullmatch(r"(\w+)(?: ([+-]) (\d+))?", i1)
        m2 = re.fullmatch(r"(\w+)(?: ([+-]) (\d+))?", i2)
        if m1 and m2 and m1.group(1) == m2.group(1):
            o1 = int((m1.group(2) or "+") + (m1.group(3) or "0"))
            o2 = int((m2.group(2) or "+") + (m2.group(3) or "0"))
            return o1 == o2
        return True

    @staticmethod
    def _clobber_root(env: dict, root: str, fld: str, v: Val) -> None:
        if fld == "*":
            for k in list(env):
                if k.startswith(root + ".") or k == root:
                    if k == root:
                        continue
                    del env[k]
            env[root + ".*"] = v
        else:
            key = f"{root}.{fld}"
            for k in list(env):
                if k.startswith(key + "["):
                    del env[k]
            env[key + "[*]"] = v
            env[key] = v

    def _calls(self, env: dict, root: ast.AST, nid: int) -> None:
        for call in [n for n in ast.walk(root) if isinstance(n, ast.Call)]:
            cs = self.c.cg.site_of.get(call)
            if self.call_override is not None and self.call_override(cs, call, env, nid):
                continue
            fn = call.func
            name = U(fn).split(".")[-1]
            v = ("def", nid, "call:" + name)
            if self._inline_self_helper(env, cs, call, nid):
                continue
            if cs is None or cs.kind in ("unknown", "param"):
                # an unresolved callee can write the objects it receives: each bare-name argument (anything below it), and
                # its receiver object - for a receiver path root.attr... that is the object held in root.attr, not root
                for a in list(call.args) + [k.value for k in call.keywords]:
                    if isinstance(a, ast.Name):
                        self._clobber_root(env, a.id, "*", v)
                if isinstance(fn, ast.Attribute):
                    b = fn.value
                    first = None
                    while isinstance(b, (ast.Attribute, ast.Subscript)):
                        if isinstance(b, ast.Attribute):
                            first = b.attr
                        else:
                            first = None if not isinstance(b.value, ast.Name) else first
                        b = b.value
                    if isinstance(b, ast.Name):
                        self._clobber_root(env, b.id, first if first else "*", v)
                continue
            if cs.callees:
                for (r, fld) in self.c.eff.site_writes(cs):
                    self._clobber_root(env, r, fld, v)
            if isinstance(fn, ast.Attribute) and fn.attr in MUTATORS:
                k = key_of(fn.value)
                if k is not None and cs.kind == "external":
                    if "." in k and "[" not in k:
                        r, fld = k.split(".", 1)
                        self._clobber_root(env, r, fld, v)
                    else:
                        self._store(env, k, v, nid)

    def _inline_self_helper(self, env: dict, cs, call: ast.Call, nid: int, _depth: list = [0]) -> bool:
        """`self._helper()`: a private method of the caller's own class, without parameters and without control flow (assignments
        to fields of self, container mutations, a final return) - the bookkeeping part of a method moved out of it.  Its
        statements are evaluated in the caller's environment, as if written in place (the receiver is the caller's self)."""
        f = self.f
        if cs is None or len(getattr(cs, "callees", []) or []) != 1 or cs.kind != "method" or f.cls is None or call.args or call.keywords \
                or not f.node.args.args or _depth[0] > 1:
            return False
        g = cs.callees[0]
        fn = call.func
        selfn = f.node.args.args[0].arg
        if g.cls != f.cls or g is f or not g.name.startswith("_") or g.name.startswith("__") or not isinstance(fn, ast.Attribute) \
                or not (isinstance(fn.value, ast.Name) and fn.value.id == selfn) \
                or len(g.node.args.args) != 1 or g.node.args.args[0].arg != selfn or g.node.args.kwonlyargs or g.node.args.vararg or g.node.args.kwarg:
            return False
        body = [st for st in g.node.body if not (isinstance(st, ast.Expr) and isinstance(st.value, ast.Constant))]
        if not body or not all(isinstance(st, (ast.Assign, ast.AugAssign, ast.AnnAssign, ast.Expr, ast.Return)) for st in body) \
                or any(isinstance(st, ast.Return) for st in body[:-1]):
            return False
        # no local may clash with a name of the caller
        caller_names = {x.id for x in ast.walk(f.node) if isinstance(x, ast.Name)}
        locals_g = {x.id for st in body for x in ast.walk(st) if isinstance(x, ast.Name) and isinstance(x.ctx, ast.Store)}
        if locals_g & caller_names:
            return False
        _depth[0] += 1
        try:
            cur = env
            for st in body:
                if isinstance(st, ast.Return):
                    if st.value is not None:
                        self._calls(cur, st.value, nid)
                    break
                out = self.edge(Node(nid, "stmt", st), cur, "", None)          # type: ignore[arg-type]
                if out is None:
                    return False
                cur = out
            env.clear()
            env.update(cur)
        finally:
            _depth[0] -= 1
        return True

    # ------------------------------------------------------------------ Problem interface
    def entry_state(self) -> dict:
        return {}

    def join(self, a: dict, b: dict, at: Node) -> dict:
        st = self.sticky.setdefault(at.id, set())
        out: dict = {}
        for k in set(a) | set(b):
            if k == "!lost":
                out[k] = frozenset(a.get(k, frozenset())) | frozenset(b.get(k, frozenset()))
                continue
            va, vb = self.get(a, k), self.get(b, k)
            if k in st or va != vb:
                st.add(k)
                out[k] = ("phi", at.id, k)
            else:
                out[k] = va
        return out

    def edge(self, n: Node, state: dict, label: str, succ: Node) -> dict | None:
        env = dict(state)
        a = n.ast
        nid = n.id
        if a is None:
            return env
        if n.kind == "test":
            if self.edge_filter is not None and label in ("T", "F") and not self.edge_filter(n, label, env):
                return None
            self._calls(env, a, nid)
            self._walrus(env, a, nid)
            return env
        if n.kind == "for":
            self._calls(env, a.iter, nid)
            if label == "iter":
                for t in ast.walk(a.target):
                    if isinstance(t, ast.Name):
                        self._store(env, t.id, ("def", nid, "iter:" + t.id), nid)
            return env
        if n.kind == "with":
            for it in a.items:
                self._calls(env, it.context_expr, nid)
                if it.optional_vars is not None:
                    for t in ast.walk(it.optional_vars):
                        if isinstance(t, ast.Name):
                            self._store(env, t.id, ("def", nid, "with:" + t.id), nid)
            return env
        if n.kind == "except":
            if getattr(a, "name", None):
                self._store(env, a.name, ("def", nid, "exc"), nid)
            return env
        if n.kind != "stmt":
            return env
        s = a
        if isinstance(s, (ast.FunctionDef, ast.AsyncFunctionDef, ast.ClassDef)):
            self._store(env, s.name, ("def", nid, "def"), nid)
            return env
        if isinstance(s, ast.Assert):
            return env
        if isinstance(s, ast.Assign):
            v = self.val(s.value, env, nid)      # a value containing a call is opaque ('def'), so the order is immaterial
            self._calls(env, s, nid)
            self._walrus(env, s.value, nid)
            for t in s.targets:
                self._assign_target(env, t, v, nid, single=True)
            # X = Cls(..., field=value): the constructor's keyword arguments initialise the fields of the new object
            if isinstance(s.value, ast.Call) and s.value.keywords:
                cs = self.c.cg.site_of.get(s.value)
                if cs is not None and cs.kind == "ctor":
                    for t in s.targets:
                        if isinstance(t, ast.Name):
                            for k in s.value.keywords:
                                if k.arg:
                                    env[f"{t.id}.{k.arg}"] = self.val(k.value, state, nid)
            return env
        if isinstance(s, ast.AnnAssign):
            if s.value is not None:
                v = self.val(s.value, env, nid)
                self._calls(env, s, nid)
                self._assign_target(env, s.target, v, nid, single=True)
            return env
        if isinstance(s, ast.AugAssign):
            self._calls(env, s, nid)
            k = key_of(s.target)
            if k is not None:
                old = self.get(env, k)
                r = s.value
                if isinstance(r, ast.Constant) and isinstance(r.value, int) and not isinstance(r.value, bool) \
                        and isinstance(s.op, (ast.Add, ast.Sub)):
                    self._store(env, k, add(old, r.value if isinstance(s.op, ast.Add) else -r.value), nid)
                else:
                    self._store(env, k, ("def", nid, U(s)), nid)
            return env
        if isinstance(s, ast.Delete):
            for t in s.targets:
                k = key_of(t)
                if k is not None:
                    self._store(env, k, ("def", nid, "del"), nid)
            return env
        self._calls(env, s, nid)
        self._walrus(env, s, nid)
        return env

    def _walrus(self, env: dict, root: ast.AST, nid: int) -> None:
        for e in ast.walk(root):
            if isinstance(e, ast.NamedExpr) and isinstance(e.target, ast.Name):
                self._store(env, e.target.id, self.val(e.value, env, nid), nid)

    def _assign_target(self, env: dict, t: ast.AST, v: Val, nid: int, single: bool) -> None:
        if isinstance(t, (ast.Tuple, ast.List)):
            if isinstance(v, tuple) and v and v[0] == "tuple" and len(v) - 1 == len(t.elts) and not any(isinstance(e, ast.Starred) for e in t.elts):
                for e, ve in zip(t.elts, v[1:]):
                    self._assign_target(env, e, ve, nid, False)
                return
            for e in t.elts:
                self._assign_target(env, e, ("def", nid, "unpack:" + U(e)), nid, False)
            return
        if isinstance(t, ast.Starred):
            self._assign_target(env, t.value, ("def", nid, "unpack"), nid, False)
            return
        k = key_of(t)
        if k is not None:
            self._store(env, k, v, nid)
        elif isinstance(t, ast.Subscript):
            b = key_of(t.value)
            if b is not None and "[" not in b:
                # store under a complex index: every element of the container may have changed
                for kk in list(env):
                    if kk.startswith(b + "["):
                        del env[kk]
                env[b + "[*]"] = ("def", nid, "store:" + U(t))


def analyse(c: Ctx, f: Func, call_override: CallOverride | None = None,
            edge_filter: EdgeFilter | None = None) -> tuple[CFG, dict[int, dict | None], VN]:
    vn = VN(c, f, call_override, edge_filter)
    res = solve(vn.cfg, vn, widen_after=10**9)
    return vn.cfg, res, vn
