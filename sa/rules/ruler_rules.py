"""Rules over `Ruler` and the facade: CACHE (typestate), WMW (who may write), PUB (safe publication),
CTXMGR (context managers restore on every exit), CHAIN (compiled chains = enabled rules, filtered by chain)."""
from __future__ import annotations

import ast
import itertools

from ..cfg import CFG, Node
from ..core import AnchorError, Func, U, own_nodes
from ..ctx import Ctx
from ..facts import MUTATORS
from ..report import RuleResult, alpha
from ..typestate import propagate

RULES_ATTR = "__rules__"
CACHE_ATTR = "__cache__"
RULE_FIELDS = {"enabled", "fn", "alt", "name"}
# which derived attribute the typestate currently tracks, and which Rule fields its value depends on (None = all)
_CFG: dict = {"cache": CACHE_ATTR, "fields": None}


def _ruler_methods(c: Ctx) -> dict[str, Func]:
    ci = c.p.cls("Ruler")
    if "__compile__" not in ci.methods or "getRules" not in ci.methods:
        raise AnchorError("Ruler.__compile__ / Ruler.getRules not found")
    return dict(ci.methods)


def _is_self_attr(e: ast.AST, attr: str) -> bool:
    return isinstance(e, ast.Attribute) and e.attr == attr and isinstance(e.value, ast.Name) and e.value.id == "self"


def _element_aliases(f: Func) -> set[str]:
    """Locals that denote an element of self.__rules__ (loop variables over it, or assigned from a subscript of it)."""
    out: set[str] = set()
    for n in own_nodes(f.node):
        if isinstance(n, (ast.For, ast.comprehension)):
            it = n.iter
            if _is_self_attr(it, RULES_ATTR) and isinstance(n.target, ast.Name):
                out.add(n.target.id)
            if isinstance(it, ast.Call) and U(it.func) == "enumerate" and it.args and _is_self_attr(it.args[0], RULES_ATTR) \
                    and isinstance(n.target, ast.Tuple) and len(n.target.elts) == 2 and isinstance(n.target.elts[1], ast.Name):
                out.add(n.target.elts[1].id)
        if isinstance(n, ast.Assign) and isinstance(n.value, ast.Subscript) and _is_self_attr(n.value.value, RULES_ATTR):
            for t in n.targets:
                if isinstance(t, ast.Name):
                    out.add(t.id)
    return out


def _events(stmt: ast.AST, methods: dict[str, Func], aliases: set[str]) -> list:
    """Ordered typestate events of one simple statement / test expression."""
    calls = []
    for n in ast.walk(stmt):
        if isinstance(n, ast.Call) and isinstance(n.func, ast.Attribute):
            if _is_self_attr(n.func.value, RULES_ATTR) and n.func.attr in MUTATORS:
                calls.append((n.lineno, n.col_offset, "mut"))
            elif isinstance(n.func.value, ast.Name) and n.func.value.id == "self" and n.func.attr in methods:
                calls.append((n.lineno, n.col_offset, ("call", n.func.attr)))
    calls.sort(key=lambda x: (x[0], x[1]))
    ev = [c[2] for c in calls]
    tg: list[ast.AST] = []
    if isinstance(stmt, ast.Assign):
        tg = list(stmt.targets)
    elif isinstance(stmt, (ast.AugAssign, ast.AnnAssign)):
        tg = [stmt.target]
    elif isinstance(stmt, ast.Delete):
        tg = list(stmt.targets)
    for t in tg:
        for e in (t.elts if isinstance(t, (ast.Tuple, ast.List)) else [t]):
            if _is_self_attr(e, _CFG["cache"]):
                v = getattr(stmt, "value", None)
                ev.append("inv" if isinstance(v, ast.Constant) and v.value is None else "pub")
            elif _is_self_attr(e, RULES_ATTR):
                ev.append("mut")
            elif isinstance(e, ast.Attribute):
                b = e.value
                if (isinstance(b, ast.Subscript) and _is_self_attr(b.value, RULES_ATTR)) or \
                        (isinstance(b, ast.Name) and b.id in aliases):
                    ev.append(("mutf", e.attr))
            elif isinstance(e, ast.Subscript) and _is_self_attr(e.value, RULES_ATTR):
                ev.append("mut")
    return ev


def _apply(ev, s: str, summaries: dict, raised: set | None) -> set[str]:
    """States after event `ev` from state s. Raising exits of callees are added to `raised`."""
    if ev == "mut":
        return {"D" if s == "V" else s}
    if isinstance(ev, tuple) and ev[0] == "mutf":
        if _CFG["fields"] is None or ev[1] in _CFG["fields"]:
            return {"D" if s == "V" else s}
        return {s}
    if ev == "inv":
        return {"I"}
    if ev == "pub":
        return {"V"}
    callee = ev[1]
    if callee == "__compile__" and _CFG["cache"] == CACHE_ATTR:
        return {"V"}
    out = set()
    for (kind, s2) in summaries.get(callee, {}).get(s, {("ret", s)}):
        if kind == "ret":
            out.add(s2)
        elif raised is not None:
            raised.add(s2)
    return out


def _method_exits(c: Ctx, f: Func, methods: dict[str, Func], summaries: dict, entry: str):
    """-> list of (exit kind 'ret'|'raise', state, line, description)."""
    aliases = _element_aliases(f)

    def may_raise(a: ast.AST) -> bool:
        for n in ast.walk(a):
            if isinstance(n, ast.Call) and isinstance(n.func, ast.Attribute) and isinstance(n.func.value, ast.Name) \
                    and n.func.value.id == "self" and n.func.attr in methods:
                return True
        return False

    cfg = c.cfg(f, may_raise)

    def step(n: Node, s, label: str, succ: Node):
        a = n.ast
        if n.kind in ("stmt", "test") and a is not None and not isinstance(a, (ast.FunctionDef, ast.ClassDef)):
            evs = _events(a, methods, aliases)
            cur = {s}
            raised: set = set()
            for ev in evs:
                nxt = set()
                for x in cur:
                    nxt |= _apply(ev, x, summaries, raised)
                cur = nxt
            if label == "exc":
                return raised
            return cur
        if label == "exc":
            return ()
        return (s,)

    # locals that only ever hold the cache attribute (`chains = self.__cache__`) stand for it in the test - provided no event
    # that can change the cache lies between the read and the test, which holds when the test directly follows the read
    alias_defs: dict[str, list[ast.AST]] = {}
    for n_ in own_nodes(f.node):
        if isinstance(n_, ast.Assign):
            for t_ in n_.targets:
                if isinstance(t_, ast.Name):
                    alias_defs.setdefault(t_.id, []).append(n_)
    cache_aliases = {nm for nm, ds in alias_defs.items() if all(_is_self_attr(d.value, _CFG["cache"]) for d in ds)}

    def is_cache_expr(e: ast.AST, at: ast.AST) -> bool:
        if _is_self_attr(e, _CFG["cache"]):
            return True
        if isinstance(e, ast.Name) and e.id in cache_aliases:
            # the statement just before the test (in the same block) is the read
            for blk in _blocks_of(f.node):
                for i_, st_ in enumerate(blk):
                    if isinstance(st_, ast.If) and st_.test is at and i_ > 0 and alias_defs[e.id] and blk[i_ - 1] in alias_defs[e.id]:
                        return True
        return False

    def cache_none_test(a: ast.AST):
        """-> True if the test is `cache is None`-like, False if `cache is not None`-like, None otherwise."""
        if isinstance(a, ast.Compare) and len(a.ops) == 1 and is_cache_expr(a.left, a) \
                and isinstance(a.comparators[0], ast.Constant) and a.comparators[0].value is None:
            if isinstance(a.ops[0], (ast.Is, ast.Eq)):
                return True
            if isinstance(a.ops[0], (ast.IsNot, ast.NotEq)):
                return False
        if is_cache_expr(a, a):
            return False
        return None

    plain_step = step

    def step(n: Node, s, label: str, succ: Node):       # noqa: F811
        if n.kind == "test" and s == "I" and label in ("T", "F"):
            t = cache_none_test(n.ast)
            if t is not None and (label == "T") != t:
                return ()          # in state I the cache is known to be None
        return plain_step(n, s, label, succ)

    IN = propagate(cfg, [entry], step)
    exits = []
    for ex, kind in ((cfg.exit, "ret"), (cfg.raise_exit, "raise")):
        for (p, label) in ex.pred:
            for s in IN[p.id]:
                for s2 in step(p, s, label, ex):
                    desc = U(p.ast).split("\n")[0][:60] if p.ast is not None else "fall-through"
                    if label == "exc":
                        desc = "exception propagating out of: " + desc
                    exits.append((kind, s2, p.lineno, desc))
    return exits, cfg


def _cache_obligations(c: Ctx, r: RuleResult, what: str) -> dict:
    methods = _ruler_methods(c)
    summaries: dict[str, dict[str, set]] = {}
    for _ in range(4):
        for name, f in methods.items():
            summaries[name] = {}
            for entry in ("V", "I", "D"):
                exits, _cfg = _method_exits(c, f, methods, summaries, entry)
                summaries[name][entry] = {(k, s) for (k, s, _, _) in exits}
    public = [n for n in methods if not (n.startswith("__") and n.endswith("__"))]
    tag = "" if _CFG["cache"] == CACHE_ATTR else f"|{_CFG['cache']}"
    for name in sorted(public):
        f = methods[name]
        exits, cfg = _method_exits(c, f, methods, summaries, "V")
        r.functions += 1
        r.paths += cfg.paths_count()
        seen = set()
        for (kind, s, line, desc) in sorted(exits, key=lambda x: (x[2], x[0], x[1])):
            k = (kind, line, desc, s == "D")
            bad = s == "D"
            if k in seen:
                continue
            seen.add(k)
            key = f"Ruler.{name}|{kind}|{desc if kind == 'raise' else 'return'}{tag}"
            if bad:
                r.add(key, f"markdown_it/ruler.py:{line}", f"Ruler.{name}", f"exit by {kind}: {desc}", "violation",
                      f"reached with rule state mutated while {what} may still be valid (entry: valid); the next lookup serves the "
                      f"stale value", {"entry_state": "V", "exit": kind, "line": line})
            else:
                r.add(key, f"markdown_it/ruler.py:{line}", f"Ruler.{name}", f"exit by {kind}: {desc}", "discharged",
                      f"exit state {s}: " + (f"{what} invalidated (None)" if s == "I" else f"relevant rule state unchanged or {what} rebuilt"))
    return summaries


def rule_cache(c: Ctx) -> RuleResult:
    r = RuleResult("CACHE", "typestate: no exit of a Ruler method leaves rules mutated with a possibly valid cache (the compiled chain "
                            "cache, and any other attribute derived from the rule list)")
    _CFG["cache"], _CFG["fields"] = CACHE_ATTR, {"enabled", "fn", "alt"}
    methods = _ruler_methods(c)
    summaries = _cache_obligations(c, r, "the compiled chain cache")
    # getRules must (re)compile when the cache is None
    g = methods["getRules"]
    exits, _ = _method_exits(c, g, methods, summaries, "I")
    for (kind, s, line, desc) in exits:
        if kind == "ret":
            ok = s == "V"
            r.add(f"Ruler.getRules|from-invalid|{kind}", f"markdown_it/ruler.py:{line}", "Ruler.getRules",
                  f"return with cache entered as None: {desc}", "discharged" if ok else "violation",
                  "__compile__ runs before the cache is read" if ok else "returns without compiling although the cache is None")
    # other attributes of Ruler that are derived from the rule list (lazily built indexes ...)
    ci = c.p.cls("Ruler")
    derived: dict[str, set[str]] = {}
    for name, f in methods.items():
        aliases = _element_aliases(f)
        reads_rules = any(_is_self_attr(x, RULES_ATTR) for x in ast.walk(f.node))
        for n in own_nodes(f.node):
            if isinstance(n, (ast.Assign, ast.AnnAssign)) and getattr(n, "value", None) is not None:
                tg = n.targets if isinstance(n, ast.Assign) else [n.target]
                for t in tg:
                    if isinstance(t, ast.Attribute) and isinstance(t.value, ast.Name) and t.value.id == "self" \
                            and t.attr not in (RULES_ATTR, CACHE_ATTR) and reads_rules and name != "__init__" \
                            and not (isinstance(n.value, ast.Constant) and n.value.value is None):
                        flds = {x.attr for x in ast.walk(f.node) if isinstance(x, ast.Attribute) and isinstance(x.value, ast.Name)
                                and x.value.id in aliases and isinstance(x.ctx, ast.Load)}
                        derived.setdefault(t.attr, set()).update(flds)
    for attr, flds in sorted(derived.items()):
        _CFG["cache"], _CFG["fields"] = attr, set(flds)
        r.notes.append(f"derived attribute self.{attr} depends on the rule list (fields read: {sorted(flds)}): same typestate applied")
        try:
            _cache_obligations(c, r, f"the derived attribute self.{attr}")
        finally:
            _CFG["cache"], _CFG["fields"] = CACHE_ATTR, None
    _CFG["cache"], _CFG["fields"] = CACHE_ATTR, None
    r.floor = 14
    return r


def rule_swallow(c: Ctx) -> RuleResult:
    from ..tokens import option_read_key
    r = RuleResult("SWALLOW", "no invocation of user-supplied code (rule dispatch, render-rule call, highlight callback, plugin) sits inside "
                              "a try whose handler does not re-raise: an exception from user code propagates to the caller")
    n = 0
    for f in sorted(c.p.all_funcs(), key=lambda x: x.qual):
        for cs in c.cg.sites.get(f, []):
            call = cs.node
            kind = None
            if cs.kind.startswith("dispatch:"):
                kind = "rule dispatch"
            elif cs.kind == "render-dispatch":
                kind = "render-rule call"
            elif isinstance(call.func, ast.Attribute) and option_read_key(call.func) == "highlight":
                kind = "highlight callback"
            elif f.short == "MarkdownIt.use" and isinstance(call.func, ast.Name) and call.func.id in {a.arg for a in f.node.args.args}:
                kind = "plugin call"
            if kind is None:
                continue
            n += 1
            bad = None
            child: ast.AST = call
            p_ = f.module.parents.get(call)
            while p_ is not None and p_ is not f.node:
                if isinstance(p_, ast.Try) and any(child is s_ or any(child is y for y in ast.walk(s_)) for s_ in p_.body):
                    for h in p_.handlers:
                        last = h.body[-1] if h.body else None
                        if not isinstance(last, ast.Raise):
                            bad = h
                if isinstance(p_, ast.With):
                    for it in p_.items:
                        if isinstance(it.context_expr, ast.Call) and U(it.context_expr.func).split(".")[-1] == "suppress":
                            bad = p_
                child = p_
                p_ = f.module.parents.get(p_)
            key = f"{f.short}|{kind}|{alpha(f, call)[:50]}"
            if bad is None:
                r.add(key, c.where(f, call), f.short, U(call)[:70], "discharged", f"{kind}: not inside a swallowing handler")
            else:
                what = ("except " + (U(bad.type) if getattr(bad, "type", None) is not None else "")) if isinstance(bad, ast.ExceptHandler) else "suppress(...)"
                r.add(key, c.where(f, call), f.short, U(call)[:70], "violation",
                      f"{kind} inside `{what}:` that does not re-raise: an exception of that class raised by user code is swallowed, the call "
                      f"returns normally with a partial result")
    if n < 8:
        raise AnchorError(f"only {n} callback invocation sites found")
    r.floor = 10
    return r


SETSEM = {
    # method -> (allowed element-field stores {field: required constant or None}, structural mutation allowed?, may construct Rule?)
    "at": ({"fn": None, "alt": None}, False, False),
    "before": ({}, True, True),
    "after": ({}, True, True),
    "push": ({}, True, True),
    "enable": ({"enabled": True}, False, False),
    "disable": ({"enabled": False}, False, False),
    "enableOnly": ({"enabled": False}, False, False),
}


def rule_setsem(c: Ctx) -> RuleResult:
    r = RuleResult("SETSEM", "each Ruler mutator changes only what its contract says: `at` replaces function and options of the named rule and "
                             "keeps its position and enabled flag; enable / disable / enableOnly only switch `enabled`; before / after / push "
                             "insert a new, enabled rule")
    methods = _ruler_methods(c)
    for name, (fields, structural, ctor) in sorted(SETSEM.items()):
        f = methods.get(name)
        if f is None:
            raise AnchorError(f"Ruler.{name} not found")
        r.functions += 1
        aliases = _element_aliases(f)
        problems: list[tuple[ast.AST, str]] = []
        nwrites = 0
        for n in own_nodes(f.node):
            tg: list[ast.AST] = []
            if isinstance(n, ast.Assign):
                tg = list(n.targets)
            elif isinstance(n, (ast.AugAssign, ast.AnnAssign)):
                tg = [n.target]
            elif isinstance(n, ast.Delete):
                tg = list(n.targets)
            for t in tg:
                if isinstance(t, ast.Attribute):
                    b = t.value
                    if (isinstance(b, ast.Subscript) and _is_self_attr(b.value, RULES_ATTR)) or (isinstance(b, ast.Name) and b.id in aliases):
                        nwrites += 1
                        if t.attr not in fields:
                            problems.append((n, f"stores rule field `{t.attr}`, which `{name}` must leave alone"))
                        elif fields[t.attr] is not None:
                            v = getattr(n, "value", None)
                            if not (isinstance(v, ast.Constant) and v.value is fields[t.attr]):
                                problems.append((n, f"stores `{U(v) if v is not None else '?'}` into `{t.attr}` (must be {fields[t.attr]})"))
                elif isinstance(t, ast.Subscript) and _is_self_attr(t.value, RULES_ATTR):
                    nwrites += 1
                    if not structural:
                        problems.append((n, "replaces a whole rule record: its position is kept but its other fields (the enabled flag) are lost"))
                elif _is_self_attr(t, RULES_ATTR) and name != "__init__":
                    nwrites += 1
                    if not structural:
                        problems.append((n, "rebinds the rule list"))
            if isinstance(n, ast.Call):
                if isinstance(n.func, ast.Attribute) and _is_self_attr(n.func.value, RULES_ATTR) and n.func.attr in MUTATORS:
                    nwrites += 1
                    if not structural:
                        problems.append((n, f"changes the structure of the rule list (`{n.func.attr}`)"))
                    elif n.func.attr not in ("insert", "append"):
                        problems.append((n, f"`{n.func.attr}` on the rule list: `{name}` may only insert"))
                cs = c.cg.site_of.get(n)
                if cs is not None and cs.kind == "ctor" and cs.detail == "Rule":
                    if not ctor:
                        problems.append((n, "constructs a new Rule record"))
                    else:
                        en = n.args[1] if len(n.args) > 1 else next((k.value for k in n.keywords if k.arg == "enabled"), None)
                        if not (isinstance(en, ast.Constant) and en.value is True):
                            problems.append((n, "a newly added rule must be enabled (second constructor argument True)"))
        key = f"Ruler.{name}"
        if problems:
            for (node, why) in problems:
                r.add(key + "|" + alpha(f, node)[:50], c.where(f, node), f"Ruler.{name}", U(node)[:80], "violation",
                      f"Ruler.{name} {why}: the reported set no longer follows the obvious set semantics of the call")
        else:
            r.add(key, c.where(f, f.node), f"Ruler.{name}", f"def {name}", "discharged",
                  f"{nwrites} write(s) to the rule list, all within the method's contract")
    r.floor = 7
    return r


def rule_wmw(c: Ctx) -> RuleResult:
    r = RuleResult("WMW", "who may write: rule tables / chain cache / Rule fields are stored only inside class Ruler")
    tf = c.tf
    for f, effs in c.eff.by_func.items():
        sc = tf.scope(f)
        for e in effs:
            hit = None
            if e.field in (RULES_ATTR, CACHE_ATTR) and e.kind in ("attr-store", "del-attr"):
                hit = e.field
            else:
                # write *into* the rule list / cache, or to a field of a Rule object
                for pth in (e.obj,) + tuple(_bases(e.obj)):
                    if isinstance(pth, ast.Attribute) and pth.attr in (RULES_ATTR, CACHE_ATTR):
                        hit = pth.attr
                        break
                if hit is None and e.kind in ("attr-store", "del-attr") and e.field in RULE_FIELDS and sc.type(e.obj) == "Rule":
                    hit = "Rule." + e.field
            if hit is None:
                continue
            inside = f.module.rel == "ruler.py" and f.cls == "Ruler"
            r.add(f"{f.short}|{alpha(f, e.stmt) if not isinstance(e.stmt, ast.Call) else alpha(f, e.stmt)}",
                  c.where(f, e.stmt), f.short, e.text, "discharged" if inside else "violation",
                  "inside class Ruler" if inside else f"writes {hit} from outside class Ruler: the cache cannot be kept coherent")
    r.functions = len(c.eff.by_func)
    r.floor = 12
    return r


def _bases(e: ast.AST):
    while isinstance(e, (ast.Attribute, ast.Subscript)):
        e = e.value
        yield e


def rule_pub(c: Ctx) -> RuleResult:
    r = RuleResult("PUB", "safe publication: the chain cache object is never mutated after it is stored into self.__cache__; "
                          "callers of getRules only read")
    methods = _ruler_methods(c)
    npub = 0
    for name, f in methods.items():
        cfg = c.cfg(f)
        for n in cfg.nodes:
            a = n.ast
            if n.kind != "stmt" or not isinstance(a, (ast.Assign, ast.AnnAssign)):
                continue
            tg = a.targets if isinstance(a, ast.Assign) else [a.target]
            if not any(_is_self_attr(t, CACHE_ATTR) for t in tg):
                continue
            v = a.value
            if v is None or (isinstance(v, ast.Constant) and v.value is None):
                continue
            npub += 1
            aliases = {t.id for t in tg if isinstance(t, ast.Name)}
            if isinstance(v, ast.Name):
                aliases.add(v.id)
            # element aliases: locals stored as values of the published dict before publication are part of it
            if isinstance(v, ast.Name):
                for m in own_nodes(f.node):
                    if isinstance(m, ast.Assign):
                        for t in m.targets:
                            if isinstance(t, ast.Subscript) and isinstance(t.value, ast.Name) and t.value.id == v.id \
                                    and isinstance(m.value, ast.Name):
                                aliases.add(m.value.id)
            after = cfg.reachable_from([m for (m, _) in n.succ])
            bad = []
            for m in cfg.nodes:
                if m.id not in after or m.ast is None or m is n:
                    continue
                for root in cfg.roots(m):
                    for x in ast.walk(root):
                        tgt = None
                        if isinstance(x, ast.Subscript) and isinstance(x.ctx, (ast.Store, ast.Del)):
                            tgt = x.value
                        elif isinstance(x, ast.Call) and isinstance(x.func, ast.Attribute) and x.func.attr in MUTATORS:
                            tgt = x.func.value
                        if tgt is None:
                            continue
                        chain = [tgt] + list(_bases(tgt))
                        if any(_is_self_attr(b, CACHE_ATTR) for b in chain) or \
                                any(isinstance(b, ast.Name) and b.id in aliases for b in chain):
                            # a rebinding of an alias before this point would break the alias; keep conservative
                            bad.append((m.lineno, U(x).split("\n")[0][:60]))
            key = f"Ruler.{name}|publish|{alpha(f, a)}"
            if bad:
                r.add(key, f"markdown_it/ruler.py:{a.lineno}", f"Ruler.{name}", U(a)[:60], "violation",
                      "published object is still being filled afterwards: " + "; ".join(f"line {l}: {t}" for l, t in sorted(set(bad)))
                      + " - a concurrent getRules() can observe a half-built chain table",
                      {"mutations_after_publication": sorted(set(bad))})
            else:
                r.add(key, f"markdown_it/ruler.py:{a.lineno}", f"Ruler.{name}", U(a)[:60], "discharged",
                      "no mutation of the published object is reachable after the store")
    if npub == 0:
        raise AnchorError("no publication (non-None store to self.__cache__) found in class Ruler")
    # callers of getRules only read the returned lists
    ncalls = 0
    for f, sites in c.cg.sites.items():
        for cs in sites:
            if not (isinstance(cs.node.func, ast.Attribute) and cs.node.func.attr == "getRules"):
                continue
            if not any(g.cls == "Ruler" for g in cs.callees):
                continue
            ncalls += 1
            par = f.module.parents.get(cs.node)
            names = set()
            if isinstance(par, ast.Assign):
                names = {t.id for t in par.targets if isinstance(t, ast.Name)}
            bad = [e for e in c.eff.by_func[f]
                   if any(isinstance(b, ast.Name) and b.id in names for b in [e.obj] + list(_bases(e.obj)))]
            # direct mutation of the call result  x.getRules('').append(...)
            if isinstance(par, ast.Attribute) and isinstance(f.module.parents.get(par), ast.Call) and par.attr in MUTATORS:
                bad.append(None)
            r.add(f"{f.short}|getRules-result|{alpha(f, cs.node)}", c.where(f, cs.node), f.short, U(cs.node),
                  "violation" if bad else "discharged",
                  "the shared chain list returned by getRules is mutated by the caller" if bad else
                  "result only iterated / indexed / measured")
    r.functions = len(methods) + ncalls
    r.floor = 10
    return r


def rule_ctxmgr(c: Ctx) -> RuleResult:
    r = RuleResult("CTXMGR", "every @contextmanager runs its post-yield code on the exceptional exit too; a class-based context manager's "
                             "__exit__ never returns a truthy value")
    n = 0
    for f in c.p.all_funcs():
        if not any(d.split(".")[-1] == "contextmanager" for d in f.decorators):
            continue
        n += 1

        def may_raise(a: ast.AST) -> bool:
            return any(isinstance(x, (ast.Yield, ast.YieldFrom)) for x in ast.walk(a))
        cfg = c.cfg(f, may_raise)
        for node in cfg.nodes:
            if node.kind != "stmt" or node.ast is None or not may_raise(node.ast):
                continue
            normal = cfg.reachable_from([m for (m, l) in node.succ if l != "exc"])
            exc = cfg.reachable_from([m for (m, l) in node.succ if l == "exc"])

            def effectful(m: Node) -> bool:
                if m.ast is None or m.kind not in ("stmt", "for", "test"):
                    return False
                for root in cfg.roots(m):
                    for x in ast.walk(root):
                        if isinstance(x, ast.Call) or (isinstance(x, (ast.Attribute, ast.Subscript)) and isinstance(x.ctx, (ast.Store, ast.Del))):
                            return True
                return False
            after_normal = {m.ast for m in cfg.nodes if m.id in normal and effectful(m)}
            after_exc = {m.ast for m in cfg.nodes if m.id in exc and effectful(m)}
            missing = sorted({(getattr(a, "lineno", 0), U(a).split("\n")[0][:60]) for a in after_normal - after_exc})
            key = f"{f.short}|yield"
            if missing:
                r.add(key, c.where(f, node.ast), f.short, "yield", "violation",
                      "restore code runs only when the with-body returns normally, not when it raises: "
                      + "; ".join(f"line {l}: {t}" for l, t in missing), {"skipped_on_exception": missing})
            else:
                r.add(key, c.where(f, node.ast), f.short, "yield", "discharged",
                      "every effectful statement reachable after the yield is also reachable on the exceptional edge "
                      "(try/finally or equivalent)" if after_normal else "nothing to restore after the yield")
    # context managers written as classes: __exit__ runs on both exits by protocol; what is left to check is that it does not
    # swallow the exception of the with-body - every return of __exit__ is a bare return / None / False
    for f in c.p.all_funcs():
        if f.name != "__exit__" or f.cls is None:
            continue
        n += 1
        rets = [x for x in own_nodes(f.node) if isinstance(x, ast.Return)]
        bad = [x for x in rets if x.value is not None and not (isinstance(x.value, ast.Constant) and x.value.value in (None, False))]
        key = f"{f.short}|exit-result"
        if bad:
            r.add(key, c.where(f, bad[0]), f.short, U(bad[0])[:70], "violation",
                  "__exit__ returns a value that can be truthy: the exception raised inside the with-body is swallowed instead of "
                  "propagating to the caller")
        else:
            r.add(key, c.where(f, f.node), f.short, "def __exit__", "discharged",
                  "__exit__ returns None / False on every path: an exception of the with-body propagates")
    r.functions = n
    r.floor = 1
    return r


# ------------------------------------------------------------------------------------------------ CHAIN
def _truth(e: ast.AST, env: dict[str, bool], rulevar: str, chainvar: str | None):
    """Evaluate a filter test over the atoms E (rule.enabled), C (chain non-empty), M (chain in rule.alt)."""
    if isinstance(e, ast.UnaryOp) and isinstance(e.op, ast.Not):
        v = _truth(e.operand, env, rulevar, chainvar)
        return None if v is None else (not v)
    if isinstance(e, ast.BoolOp):
        vals = [_truth(v, env, rulevar, chainvar) for v in e.values]
        if any(v is None for v in vals):
            return None
        return all(vals) if isinstance(e.op, ast.And) else any(vals)
    if isinstance(e, ast.Attribute) and e.attr == "enabled" and isinstance(e.value, ast.Name) and e.value.id == rulevar:
        return env["E"]
    if chainvar is not None and isinstance(e, ast.Name) and e.id == chainvar:
        return env["C"]
    if chainvar is not None and isinstance(e, ast.Compare) and len(e.ops) == 1:
        l, op, rr = e.left, e.ops[0], e.comparators[0]
        if isinstance(l, ast.Name) and l.id == chainvar and isinstance(rr, ast.Attribute) and rr.attr == "alt" \
                and isinstance(rr.value, ast.Name) and rr.value.id == rulevar:
            if isinstance(op, ast.In):
                return env["M"]
            if isinstance(op, ast.NotIn):
                return not env["M"]
        if isinstance(l, ast.Name) and l.id == chainvar and isinstance(rr, ast.Constant) and rr.value == "":
            if isinstance(op, ast.Eq):
                return not env["C"]
            if isinstance(op, ast.NotEq):
                return env["C"]
    if isinstance(e, ast.Constant):
        return bool(e.value)
    return None


def _simulate_loop(cfg: CFG, head: Node, is_hit, env, rulevar, chainvar):
    """Walk one iteration of the loop body from `head` under a truth assignment; -> True/False (hit reached?) or None."""
    cur = next((m for (m, l) in head.succ if l == "iter"), None)
    hit = False
    steps = 0
    while cur is not None and cur is not head and steps < 500:
        steps += 1
        if cur.kind == "test":
            v = _truth(cur.ast, env, rulevar, chainvar)
            if v is None:
                return None
            cur = next((m for (m, l) in cur.succ if l == ("T" if v else "F")), None)
            continue
        if cur.kind == "stmt" and is_hit(cur.ast):
            hit = True
        if cur.kind == "for":
            # nested loop: take the body once, then leave
            if is_hit(cur.ast):
                hit = True
            cur = next((m for (m, l) in cur.succ if l == "done"), None)
            continue
        if cur is cfg.exit or cur is cfg.raise_exit:
            break
        nxt = [m for (m, l) in cur.succ if l != "exc"]
        cur = nxt[0] if nxt else None
    return hit


def _blocks_of(fn: ast.AST):
    for n in ast.walk(fn):
        for fld in ("body", "orelse", "finalbody"):
            b = getattr(n, fld, None)
            if isinstance(b, list) and b and isinstance(b[0], ast.stmt):
                yield b


def _rule_source(c: Ctx, hf: Func, it: ast.AST, depth: int = 0) -> tuple[bool, list[tuple[ast.AST, str]]]:
    """Does the iterable denote self.__rules__ in registration order, possibly pre-filtered?  -> (yes?, [(condition, its rule
    variable)]).  Follows a local with one definition, a comprehension `[r for r in <src> if cond]` that keeps the elements
    themselves, and a private method of Ruler returning such a list."""
    if depth > 3:
        return False, []
    if _is_self_attr(it, RULES_ATTR):
        return True, []
    if isinstance(it, ast.Name):
        defs = [n.value for n in own_nodes(hf.node) if isinstance(n, (ast.Assign, ast.AnnAssign)) and n.value is not None and any(
            isinstance(t, ast.Name) and t.id == it.id for t in (n.targets if isinstance(n, ast.Assign) else [n.target]))]
        if len(defs) == 1:
            return _rule_source(c, hf, defs[0], depth + 1)
        return False, []
    if isinstance(it, (ast.ListComp, ast.GeneratorExp)) and len(it.generators) == 1 and isinstance(it.generators[0].target, ast.Name) \
            and isinstance(it.elt, ast.Name) and it.elt.id == it.generators[0].target.id:
        ok, conds = _rule_source(c, hf, it.generators[0].iter, depth + 1)
        return ok, conds + [(cnd, it.generators[0].target.id) for cnd in it.generators[0].ifs]
    if isinstance(it, ast.Call) and isinstance(it.func, ast.Name) and it.func.id in ("list", "tuple") and len(it.args) == 1:
        return _rule_source(c, hf, it.args[0], depth + 1)
    if isinstance(it, ast.Call) and not it.args:
        cs = c.cg.site_of.get(it)
        if cs is not None and len(cs.callees) == 1 and cs.callees[0].cls == hf.cls:
            h = cs.callees[0]
            rets = [n for n in own_nodes(h.node) if isinstance(n, ast.Return) and n.value is not None]
            if len(rets) == 1:
                return _rule_source(c, h, rets[0].value, depth + 1)
    return False, []


def _pre_ok(conds: list[tuple[ast.AST, str]], env: dict) -> bool | None:
    out = True
    for (cnd, var) in conds:
        t = _truth(cnd, env, var, None)
        if t is None:
            return None
        out = out and t
    return out


def rule_chain(c: Ctx) -> RuleResult:
    r = RuleResult("CHAIN", "compiled chains contain exactly the enabled rules, filtered by chain membership, in registration "
                            "order; get_active_rules reports by the same field")
    methods = _ruler_methods(c)
    f = methods["__compile__"]
    cfg = c.cfg(f)
    found = 0
    for head in cfg.nodes:
        if head.kind != "for":
            continue
        loop: ast.For = head.ast       # type: ignore[assignment]
        appends = [n for n in ast.walk(loop) if isinstance(n, ast.Call) and isinstance(n.func, ast.Attribute)
                   and n.func.attr == "append" and len(n.args) == 1 and isinstance(n.args[0], ast.Attribute)
                   and n.args[0].attr == "fn"]
        direct = [a for a in appends if isinstance(loop.target, ast.Name) and isinstance(a.args[0].value, ast.Name)
                  and a.args[0].value.id == loop.target.id]
        if not direct:
            continue
        found += 1
        rulevar = loop.target.id       # type: ignore[union-attr]
        where = f"markdown_it/ruler.py:{loop.lineno}"
        # registration order: iterate the rule list itself
        ok_iter, pre = _rule_source(c, f, loop.iter)
        r.add("__compile__|iter", where, "Ruler.__compile__", f"for {rulevar} in {U(loop.iter)}",
              "discharged" if ok_iter else "violation",
              "iterates self.__rules__ itself (registration order)" if ok_iter else
              "the fill loop does not iterate self.__rules__ directly: order / membership of the compiled chain may differ "
              "from what get_active_rules reports")
        # which variable names the chain?  the enclosing loop's target, if the append goes to X[<chainvar>]
        chainvar = None
        par = f.module.parents.get(loop)
        while par is not None and par is not f.node:
            if isinstance(par, ast.For) and isinstance(par.target, ast.Name):
                chainvar = par.target.id
                break
            par = f.module.parents.get(par)
        app_nodes = set(direct)

        def is_hit(a: ast.AST) -> bool:
            return any(x in app_nodes for x in ast.walk(a)) if not isinstance(a, ast.For) else False
        for E, C, M in itertools.product((False, True), repeat=3):
            env = {"E": E, "C": C, "M": M}
            want = E and ((not C) or M)
            got = _simulate_loop(cfg, head, is_hit, env, rulevar, chainvar)
            pv = _pre_ok(pre, env)
            got = None if got is None or pv is None else (got and pv)
            desc = f"enabled={E}, named-chain={C}, member={M}"
            key = f"__compile__|truth|{desc}"
            if got is None:
                r.add(key, where, "Ruler.__compile__", desc, "violation",
                      "the filter of the fill loop contains a test that is not over rule.enabled / the chain name / rule.alt; "
                      "cannot show that the chain holds exactly the enabled members")
            elif got != want:
                r.add(key, where, "Ruler.__compile__", desc, "violation",
                      f"rule {'is' if got else 'is not'} compiled into the chain but {'must not' if got else 'must'} be "
                      f"(wanted: enabled and (default chain or member of the named chain))")
            else:
                r.add(key, where, "Ruler.__compile__", desc, "discharged",
                      f"loop-body simulation: {'appended' if got else 'skipped'} as required")
    # comprehension form of the fill (in __compile__ itself or in a private helper of Ruler it calls)
    helpers = [f] + [g for cs in c.cg.sites.get(f, []) for g in cs.callees if g.cls == f.cls and g is not f]
    covered_C: set[bool] = set()
    if found == 0:
      for hf in helpers:
        for n in own_nodes(hf.node):
            if isinstance(n, (ast.ListComp,)) and isinstance(n.elt, ast.Attribute) and n.elt.attr == "fn" and len(n.generators) == 1:
                g = n.generators[0]
                if not (isinstance(g.target, ast.Name) and isinstance(n.elt.value, ast.Name) and n.elt.value.id == g.target.id):
                    continue
                found += 1
                rulevar = g.target.id
                chainvar = None
                if hf is not f:
                    # the helper's parameter that names the chain: the one compared with <rule>.alt
                    hp = [a.arg for a in hf.node.args.args[1:]]
                    for x in ast.walk(n):
                        if isinstance(x, ast.Compare) and isinstance(x.left, ast.Name) and x.left.id in hp:
                            chainvar = x.left.id
                par = f.module.parents.get(n)
                while par is not None and par is not hf.node and chainvar is None:
                    if isinstance(par, (ast.For,)) and isinstance(par.target, ast.Name):
                        chainvar = par.target.id
                        break
                    if isinstance(par, ast.DictComp) and isinstance(par.generators[0].target, ast.Name):
                        chainvar = par.generators[0].target.id
                        break
                    par = f.module.parents.get(par)
                where = f"markdown_it/ruler.py:{n.lineno}"
                ok_iter, pre = _rule_source(c, hf, g.iter)
                r.add("__compile__|iter", where, "Ruler.__compile__", f"for {rulevar} in {U(g.iter)}",
                      "discharged" if ok_iter else "violation",
                      "iterates self.__rules__ itself (registration order)" + (" through a pre-filtered list" if pre else "") if ok_iter else
                      "does not iterate self.__rules__ directly")
                cond = ast.BoolOp(op=ast.And(), values=list(g.ifs)) if g.ifs else ast.Constant(value=True)
                # the comprehension may sit in one arm of `if <chain>: ... else: ...` (the default chain and the named chains
                # filled by two comprehensions): it is only judged on the rows its arm admits; the arms together cover all rows
                admits = {False, True}
                q_, ch_ = hf.module.parents.get(n), n
                while q_ is not None and q_ is not hf.node and chainvar is not None:
                    if isinstance(q_, ast.If):
                        t_, neg_ = q_.test, False
                        while isinstance(t_, ast.UnaryOp) and isinstance(t_.op, ast.Not):
                            t_, neg_ = t_.operand, not neg_
                        if isinstance(t_, ast.Name) and t_.id == chainvar:
                            in_body = any(x is ch_ for x in q_.body)
                            admits &= {(not neg_) if in_body else neg_}
                    elif isinstance(q_, ast.IfExp) and isinstance(q_.test, ast.Name) and q_.test.id == chainvar:
                        admits &= {ch_ is q_.body}
                    ch_, q_ = q_, hf.module.parents.get(q_)
                covered_C.update(admits)
                for E, C, M in itertools.product((False, True), repeat=3):
                    if C not in admits:
                        continue
                    env = {"E": E, "C": C, "M": M}
                    want = E and ((not C) or M)
                    got = _truth(cond, env, rulevar, chainvar)
                    pv = _pre_ok(pre, env)
                    got = None if got is None or pv is None else (got and pv)
                    desc = f"enabled={E}, named-chain={C}, member={M}"
                    ok = got is not None and got == want
                    r.add(f"__compile__|truth|{desc}", where, "Ruler.__compile__", desc, "discharged" if ok else "violation",
                          "comprehension filter evaluates as required" if ok else
                          "comprehension filter differs from: enabled and (default chain or member)")
    if found and covered_C and covered_C != {False, True}:
        r.add("__compile__|truth|coverage", f"markdown_it/ruler.py:{f.node.lineno}", "Ruler.__compile__", "chains filled", "violation",
              f"the comprehensions fill only the {'named chains' if covered_C == {True} else 'default chain'}: the other kind of chain is never built")
    if found == 0:
        raise AnchorError("Ruler.__compile__: no loop appending <rule>.fn found")
    # chain-name collection: alt names of enabled rules reach the set of chains
    ok_alt = False
    for hf in helpers:
        hcfg = c.cfg(hf)
        for x in own_nodes(hf.node):
            if not (isinstance(x, ast.Attribute) and x.attr == "alt" and isinstance(x.value, ast.Name)):
                continue
            rv = x.value.id
            # the enclosing loop / comprehension over the rule list that binds rv
            p_ = hf.module.parents.get(x)
            stmt = None
            while p_ is not None and p_ is not hf.node:
                if isinstance(p_, ast.stmt) and stmt is None:
                    stmt = p_
                if isinstance(p_, ast.For) and isinstance(p_.target, ast.Name) and p_.target.id == rv and _rule_source(c, hf, p_.iter)[0]:
                    # is the statement reading .alt a collection into a set, reached for an enabled rule?
                    collects = any(isinstance(y, ast.Call) and isinstance(y.func, ast.Attribute) and y.func.attr in ("add", "update") for y in ast.walk(stmt)) \
                        or isinstance(stmt, ast.AugAssign) or isinstance(stmt, ast.For)
                    head = next((n for n in hcfg.nodes if n.kind == "for" and n.ast is p_), None)
                    if collects and head is not None:
                        tgt = stmt
                        got = _simulate_loop(hcfg, head, lambda a, tgt=tgt: a is tgt or (isinstance(tgt, ast.For) and a is tgt), {"E": True, "C": True, "M": True}, rv, None)
                        got_off = _simulate_loop(hcfg, head, lambda a, tgt=tgt: a is tgt, {"E": False, "C": True, "M": True}, rv, None)
                        if got and _pre_ok(_rule_source(c, hf, p_.iter)[1], {"E": True, "C": True, "M": True}):
                            ok_alt = True
                    break
                if isinstance(p_, (ast.SetComp, ast.ListComp, ast.GeneratorExp, ast.DictComp)):
                    gens = p_.generators
                    if any(isinstance(g.target, ast.Name) and g.target.id == rv and _rule_source(c, hf, g.iter)[0] for g in gens):
                        ok_alt = True
                        break
                p_ = hf.module.parents.get(p_)
    r.add("__compile__|chain-names", "markdown_it/ruler.py:%d" % f.node.lineno, "Ruler.__compile__",
          "collect chain names from <rule>.alt of enabled rules", "discharged" if ok_alt else "violation",
          "every enabled rule's alt names are visited when the chain table is keyed" if ok_alt else
          "the alt names of enabled rules are not collected: named terminator chains would be missing from the compiled table")
    # get_active_rules: same list, same field
    ga = methods.get("get_active_rules")
    if ga is None:
        raise AnchorError("Ruler.get_active_rules not found")
    comps = [n for n in own_nodes(ga.node) if isinstance(n, ast.ListComp)]
    ok = False
    for n in comps:
        g = n.generators[0]
        if _is_self_attr(g.iter, RULES_ATTR) and isinstance(g.target, ast.Name) and isinstance(n.elt, ast.Attribute) \
                and n.elt.attr == "name" and len(n.generators) == 1:
            cond = ast.BoolOp(op=ast.And(), values=list(g.ifs)) if g.ifs else ast.Constant(value=True)
            vals = [_truth(cond, {"E": E, "C": False, "M": False}, g.target.id, None) for E in (False, True)]
            ok = vals == [False, True]
    r.add("get_active_rules|filter", f"markdown_it/ruler.py:{ga.node.lineno}", "Ruler.get_active_rules",
          "[r.name for r in self.__rules__ if r.enabled]", "discharged" if ok else "violation",
          "reports exactly the rules whose `enabled` field is true, in list order" if ok else
          "does not report exactly the enabled rules of self.__rules__ in order")
    # getRules returns the entry of the cache for its parameter
    g = methods["getRules"]
    params = [a.arg for a in g.node.args.args][1:]
    rets = [n for n in own_nodes(g.node) if isinstance(n, ast.Return) and n.value is not None]
    ok = bool(rets) and bool(params)
    cache_locals = {t.id for n in own_nodes(g.node) if isinstance(n, ast.Assign) and _is_self_attr(n.value, CACHE_ATTR)
                    for t in n.targets if isinstance(t, ast.Name)}
    from ..interproc import expand as _expand_g

    def is_lookup(e: ast.AST, at: ast.AST) -> bool:
        e = _expand_g(c, g, e, at)
        uses_cache = any(_is_self_attr(x, CACHE_ATTR) or (isinstance(x, ast.Name) and x.id in cache_locals) for x in ast.walk(e))
        uses_param = any(isinstance(x, ast.Name) and x.id == params[0] for x in ast.walk(e)) if params else False
        return uses_cache and uses_param
    # the lookup written as `rules = cache.get(name)` needs the call-carrying definition too (expand() inlines call-free ones only)
    look_locals = {t.id for n in own_nodes(g.node) if isinstance(n, ast.Assign) for t in n.targets if isinstance(t, ast.Name)
                   and sum(1 for m in own_nodes(g.node) if isinstance(m, ast.Name) and m.id == t.id and isinstance(m.ctx, ast.Store)) == 1
                   and is_lookup(n.value, n)}
    n_look = 0
    for rt in rets:
        v = rt.value
        if is_lookup(v, rt) or (isinstance(v, ast.Name) and v.id in look_locals) or (
                isinstance(v, ast.BoolOp) and isinstance(v.op, ast.Or) and isinstance(v.values[0], ast.Name) and v.values[0].id in look_locals):
            n_look += 1
            continue
        # `return []` where the lookup gave nothing: in the falsy branch of a test of the lookup value
        par = g.module.parents.get(rt)
        empty = (isinstance(v, ast.List) and not v.elts) or (isinstance(v, ast.Call) and U(v.func) == "list" and not v.args)
        falsy = False
        if empty and isinstance(par, ast.If):
            t, neg = par.test, False
            while isinstance(t, ast.UnaryOp) and isinstance(t.op, ast.Not):
                t, neg = t.operand, not neg
            if isinstance(t, ast.Compare) and len(t.ops) == 1 and isinstance(t.ops[0], (ast.Is, ast.IsNot)) and isinstance(t.comparators[0], ast.Constant) \
                    and t.comparators[0].value is None:
                neg = neg != isinstance(t.ops[0], ast.Is)
                t = t.left
            subj_ok = (isinstance(t, ast.Name) and t.id in look_locals) or is_lookup(t, par)
            falsy = subj_ok and ((neg and rt in par.body) or (not neg and rt in par.orelse))
        ok = ok and falsy
    ok = ok and n_look > 0
    r.add("getRules|lookup", f"markdown_it/ruler.py:{g.node.lineno}", "Ruler.getRules", "return self.__cache__[chainName]-like",
          "discharged" if ok else "violation",
          "the returned chain is the cache entry for the requested chain name" if ok else
          "the value returned is not the cache entry selected by the chain-name parameter")
    r.functions = 3
    r.floor = 12
    return r


# ------------------------------------------------------------------------------------------------ FOUND
def rule_found(c: Ctx) -> RuleResult:
    """`Ruler.__find__` answers -1 for an unknown name.  Every use of its result as a *position* (subscript, insert index, operand
    of arithmetic, argument of a helper that uses it so) must be dominated by a test, made on the result itself, that excludes
    -1 - otherwise an unknown name is silently treated as a position (`after("typo", ...)` inserts at 0 instead of raising)."""
    from ..dataflow import solve
    from ..facts import FactsProblem, PartitionedFacts, ZERO
    from .total_rules import _truthiness
    r = RuleResult("FOUND", "the -1 sentinel of Ruler.__find__ is excluded by a test on the result itself before the result is used as a "
                            "position: an unknown rule name fails instead of changing what is applied")
    ci = c.p.cls("Ruler")
    find = ci.methods.get("__find__")
    if find is None:
        raise AnchorError("Ruler.__find__ not found")
    rets = [x for x in own_nodes(find.node) if isinstance(x, ast.Return) and x.value is not None]
    if not any(isinstance(y, ast.UnaryOp) and isinstance(y.op, ast.USub) and isinstance(y.operand, ast.Constant) and y.operand.value == 1
               for x in rets for y in ast.walk(x.value)):
        raise AnchorError("Ruler.__find__ no longer returns -1 for an unknown name")
    nsites = 0

    def states_at(f: Func, node: ast.AST, flags: list[str]) -> list[list]:
        """facts at the owners of node: the plain analysis first, then one partitioning per boolean parameter"""
        cfg = c.cfg(f)
        outs = []
        res = c.facts(f)[1]
        outs.append([res.get(nd.id) for nd in cfg.owner(node) if res.get(nd.id) is not None])
        for fl in flags:
            pr = solve(cfg, PartitionedFacts(FactsProblem(cfg, None, c.eff.call_kills(f), c.bool_summary), fl, _truthiness))
            zs = []
            for nd in cfg.owner(node):
                st = pr.get(nd.id)
                if st is not None:
                    zs += list(st.values())
            outs.append(zs)
        return outs

    def excluded(z, x: str) -> bool:
        z = z.copy()
        z.close()
        return z.entails(ZERO, x, 0) or any(a == x and b == ZERO and k == -1 for (a, b, k) in z.ne) or any(b == x and a == ZERO and k == 1 for (a, b, k) in z.ne) \
            or z.holds(f"{x} == -1", False) or z.holds(f"{x} < 0", False) or z.holds(f"{x} >= 0", True) or z.holds(f"{x} > -1", True)

    def judge_name(f: Func, x: str, def_stmt: ast.AST | None, why_ctx: str, depth: int) -> str:
        """'' if every position-use of local / parameter x in f is guarded, else the reason"""
        flags = [a.arg for a in f.node.args.args + f.node.args.kwonlyargs if a.arg not in ("self", x)]
        for u in [n for n in own_nodes(f.node) if isinstance(n, ast.Name) and n.id == x and isinstance(n.ctx, ast.Load)]:
            par = f.module.parents.get(u)
            if isinstance(par, ast.Compare):
                continue
            if isinstance(par, ast.Call) and u in par.args and depth < 2:
                cs = c.cg.site_of.get(par)
                if cs is not None and len(cs.callees) == 1 and cs.kind in ("direct", "method") and cs.callees[0].cls == f.cls:
                    g = cs.callees[0]
                    pn = next((p for p in [a.arg for a in g.node.args.args] if c.eff.arg_for_param(cs, g, p) is u), None)
                    alts = states_at(f, u, flags)
                    if any(zs and all(excluded(z, x) for z in zs) for zs in alts):
                        continue
                    if pn is not None:
                        w = judge_name(g, pn, None, f"parameter `{pn}` of {g.short}", depth + 1)
                        if w:
                            return w
                        continue
            alts = states_at(f, u, flags)
            if any(zs and all(excluded(z, x) for z in zs) for zs in alts):
                continue
            return (f"{why_ctx}: `{x}` is used at line {getattr(u, 'lineno', '?')} of {f.short} (`{U(par)[:50]}`) on a path where no test of `{x}` "
                    f"itself has excluded -1")
        return ""
    for f in sorted(c.p.all_funcs(), key=lambda g: g.qual):
        for cs in c.cg.sites.get(f, []):
            if find not in cs.callees:
                continue
            nsites += 1
            K = cs.node
            par = f.module.parents.get(K)
            key = f"{f.short}|{alpha(f, par if par is not None else K)[:60]}"
            why = ""
            if isinstance(par, ast.Compare):
                pass
            elif isinstance(par, (ast.Assign, ast.AnnAssign)) and par.value is K and (
                    (isinstance(par, ast.Assign) and len(par.targets) == 1 and isinstance(par.targets[0], ast.Name)) or
                    (isinstance(par, ast.AnnAssign) and isinstance(par.target, ast.Name))):
                x = par.targets[0].id if isinstance(par, ast.Assign) else par.target.id
                why = judge_name(f, x, par, "result of __find__", 0)
            elif isinstance(par, ast.Call) and K in par.args:
                cs2 = c.cg.site_of.get(par)
                g = cs2.callees[0] if cs2 is not None and len(cs2.callees) == 1 and cs2.kind in ("direct", "method") else None
                pn = next((p for p in [a.arg for a in g.node.args.args] if c.eff.arg_for_param(cs2, g, p) is K), None) if g is not None else None
                why = judge_name(g, pn, None, f"result of __find__ passed as `{pn}` to {g.short}", 1) if g is not None and pn is not None else \
                    "the result of __find__ is passed to a call that cannot be followed"
            else:
                why = (f"the result of __find__ enters `{U(par)[:60]}` directly: the test that follows is made on a derived value, which "
                       f"cannot tell -1 (unknown name) from a real position")
            r.add(key, c.where(f, K), f.short, U(par if par is not None else K)[:70], "violation" if why else "discharged",
                  (why + " - an unknown rule name is treated as a position instead of failing") if why else
                  "the result is compared with the sentinel before every use as a position")
    if nsites < 1:
        raise AnchorError("no call of Ruler.__find__ found")
    r.floor = 1
    return r
