"""URL (sanitizer must-pass-through for href/src sinks) and URLRE (regex language facts of the validator)."""
from __future__ import annotations

import ast
import itertools
import re
from typing import Any

from ..boolsim import simulate_return
from ..cfg import Node
from ..core import AnchorError, Func, U, own_nodes
from ..ctx import Ctx
from ..dataflow import Problem, solve
from ..report import RuleResult, alpha

ORDER = ["Const", "Env", "NormChecked", "NormUnchecked", "EnvRef", "Raw"]       # worst last
SINK_KEYS = {"href", "src", "url"}


def worst(a, b):
    """Join of two classes.  A class is a name of ORDER, or a tuple of classes (the components of a tuple value)."""
    if isinstance(a, tuple) or isinstance(b, tuple):
        if isinstance(a, tuple) and isinstance(b, tuple) and len(a) == len(b):
            return tuple(worst(x, y) for x, y in zip(a, b))
        if a == "Const":          # None / a constant on one path, a tuple on the other (`return None` vs `return pos, label, ref`)
            return b
        if b == "Const":
            return a
        return "Raw"
    return a if ORDER.index(a) >= ORDER.index(b) else b


def _is_facade_call(c: Ctx, e: ast.AST, name: str) -> bool:
    """Is `e` a call that resolves to MarkdownIt.<name> or common.normalize_url.<name>?"""
    if not isinstance(e, ast.Call):
        return False
    cs = c.cg.site_of.get(e)
    if cs is None or not cs.callees:
        return False
    return all((g.cls == "MarkdownIt" and g.name == name) or (g.module.rel == "common/normalize_url.py" and g.name == name and g.cls is None)
               for g in cs.callees)


def _env_refs_expr(e: ast.AST) -> bool:
    """state.env['references'] / env['references'] (possibly followed by .get(...) / [key])"""
    if isinstance(e, ast.Call) and isinstance(e.func, ast.Attribute) and e.func.attr == "get":
        return _env_refs_expr(e.func.value)
    if isinstance(e, ast.Subscript):
        if isinstance(e.slice, ast.Constant) and e.slice.value == "references":
            b = e.value
            return (isinstance(b, ast.Attribute) and b.attr == "env") or (isinstance(b, ast.Name) and b.id == "env")
        return _env_refs_expr(e.value)
    return False


class UrlProblem(Problem):
    def __init__(self, c: Ctx, f: Func, depth: int = 0) -> None:
        self.c, self.f, self.depth = c, f, depth

    def entry_state(self) -> dict:
        """A helper's parameters carry the class of the worst actual argument over its call sites (helpers only: functions
        that are called directly from the rule modules, not dispatched rules)."""
        env: dict = {}
        if self.depth >= 2:
            return env
        callers = [cs for cs in self.c.cg.callers.get(self.f, []) if not cs.kind.startswith("dispatch:")]
        if not callers or self.f in self.c.reg.by_func():
            return env
        params = [a.arg for a in self.f.node.args.posonlyargs + self.f.node.args.args + self.f.node.args.kwonlyargs]
        for pn in params:
            cls = None
            for cs in callers:
                arg = self.c.eff.arg_for_param(cs, self.f, pn)
                if arg is None:
                    cls = worst(cls, "Raw") if cls else "Raw"
                    continue
                g = cs.caller
                prob = UrlProblem(self.c, g, self.depth + 1)
                gcfg = self.c.cfg(g)
                IN = solve(gcfg, prob, narrow_rounds=0)
                k = None
                for n in gcfg.owner(cs.node):
                    st = IN.get(n.id)
                    if st is None:
                        continue
                    x = prob.classify(arg, st)
                    k = x if k is None else worst(k, x)
                k = k or "Raw"
                cls = k if cls is None else worst(cls, k)
            if cls is not None and cls != "Raw":
                env[pn] = cls
        return env

    def join(self, a: dict, b: dict, at: Node) -> dict:
        out = dict(a)
        for k, v in b.items():
            out[k] = worst(out[k], v) if k in out else v
        return out

    def classify(self, e: ast.AST, env: dict) -> str:
        if isinstance(e, ast.Constant):
            return "Const"
        if isinstance(e, ast.Name):
            if f"{e.id}.str" in env and e.id not in env:
                # a result record whose `str` field was overwritten in this function: (marker, class of the field)
                return ("Const", env[f"{e.id}.str"])
            return env.get(e.id, "Raw")
        if isinstance(e, ast.Attribute) and e.attr == "str" and isinstance(e.value, ast.Name):
            if f"{e.value.id}.str" in env:
                return env[f"{e.value.id}.str"]
            rec = env.get(e.value.id)
            if isinstance(rec, tuple) and len(rec) == 2 and rec[0] == "Const":
                return rec[1]
            return "Raw"
        if _is_facade_call(self.c, e, "normalizeLink"):
            return "NormUnchecked"
        if isinstance(e, ast.Tuple):
            return tuple(self.classify(x, env) for x in e.elts)
        from ..interproc import record_fields
        rf_ = record_fields(self.c, self.f.module, e)
        if rf_ is not None:
            return tuple(self.classify(x, env) for x in rf_)          # a record is the tuple of its fields
        if isinstance(e, ast.Call) and self.depth < 2:
            # a private helper of the rule's module: the class of what it returns (component-wise for tuples)
            cs = self.c.cg.site_of.get(e)
            if cs is not None and len(cs.callees) == 1 and cs.kind in ("direct", "method") and cs.callees[0] is not self.f \
                    and (cs.callees[0].module is self.f.module or cs.callees[0].module.rel.startswith("helpers/")
                         or self.c.internal_helper(cs.callees[0])):
                g = cs.callees[0]
                cache = self.c.__dict__.setdefault("_url_ret", {})
                if g not in cache:
                    cache[g] = "Raw"
                    gp = UrlProblem(self.c, g, self.depth + 1)
                    gcfg = self.c.cfg(g)
                    gin = solve(gcfg, gp, narrow_rounds=0)
                    acc = None
                    for rn in gcfg.nodes:
                        if rn.kind == "stmt" and isinstance(rn.ast, ast.Return) and rn.ast.value is not None and gin.get(rn.id) is not None:
                            k = gp.classify(rn.ast.value, gin[rn.id])
                            acc = k if acc is None else worst(acc, k)
                    cache[g] = acc if acc is not None else "Raw"
                return cache[g]
        if isinstance(e, ast.Subscript) and isinstance(e.slice, ast.Constant) and e.slice.value == "href":
            if isinstance(e.value, ast.Name) and env.get(e.value.id) == "EnvRef":
                return "Env"
            if _env_refs_expr(e.value):
                return "Env"
        if _env_refs_expr(e):
            return "EnvRef"
        if isinstance(e, ast.IfExp):
            v = self.validated(e.test)
            if v is not None and env.get(v) == "NormUnchecked":
                return worst(self.classify(e.body, {**env, v: "NormChecked"}), self.classify(e.orelse, env))
            return worst(self.classify(e.body, env), self.classify(e.orelse, env))
        if isinstance(e, ast.NamedExpr):
            return self.classify(e.value, env)
        return "Raw"

    def validated(self, test: ast.AST) -> str | None:
        if _is_facade_call(self.c, test, "validateLink") and test.args and isinstance(test.args[0], ast.Name) and len(test.args) == 1 \
                and not test.keywords:
            return test.args[0].id
        return None

    def edge(self, n: Node, state: dict, label: str, succ: Node) -> dict | None:
        env = dict(state)
        a = n.ast
        if n.kind == "test":
            v = self.validated(a)
            if v is not None and label == "T" and env.get(v) == "NormUnchecked":
                env[v] = "NormChecked"
            for w in ast.walk(a):
                if isinstance(w, ast.NamedExpr) and isinstance(w.target, ast.Name):
                    env[w.target.id] = self.classify(w.value, state)
            return env
        if n.kind == "stmt" and label != "exc":
            if isinstance(a, ast.Assign):
                cls = self.classify(a.value, state)
                for t in a.targets:
                    if isinstance(t, ast.Name):
                        env[t.id] = cls
                        env.pop(f"{t.id}.str", None)
                    elif isinstance(t, ast.Attribute) and t.attr == "str" and isinstance(t.value, ast.Name):
                        env[f"{t.value.id}.str"] = cls
                        env.pop(t.value.id, None)
                    elif isinstance(t, (ast.Tuple, ast.List)):
                        comp = cls if isinstance(cls, tuple) and len(cls) == len(t.elts) else None
                        for i_, e in enumerate(t.elts):
                            if isinstance(e, ast.Name):
                                env[e.id] = comp[i_] if comp is not None else "Raw"
            elif isinstance(a, ast.AnnAssign) and isinstance(a.target, ast.Name) and a.value is not None:
                env[a.target.id] = self.classify(a.value, state)
            elif isinstance(a, ast.AugAssign) and isinstance(a.target, ast.Name):
                env[a.target.id] = "Raw"
            if isinstance(a, (ast.Assign, ast.AnnAssign, ast.Expr)):
                for w in ast.walk(a):
                    if isinstance(w, ast.NamedExpr) and isinstance(w.target, ast.Name):
                        env[w.target.id] = self.classify(w.value, state)
            return env
        if n.kind == "for" and label == "iter":
            for e in ast.walk(a.target):
                if isinstance(e, ast.Name):
                    env[e.id] = "Raw"
            return env
        return env


def _sinks(stmt_root: ast.AST) -> list[tuple[str, ast.AST, ast.AST]]:
    out = []
    for n in ast.walk(stmt_root):
        if isinstance(n, ast.Dict):
            for k, v in zip(n.keys, n.values):
                if isinstance(k, ast.Constant) and k.value in SINK_KEYS:
                    out.append((k.value, v, n))
        elif isinstance(n, ast.Call) and isinstance(n.func, ast.Attribute) and n.func.attr in ("attrSet", "attrJoin") and len(n.args) >= 2 \
                and isinstance(n.args[0], ast.Constant) and n.args[0].value in ("href", "src"):
            out.append((n.args[0].value, n.args[1], n))
        elif isinstance(n, ast.Call) and isinstance(n.func, ast.Attribute) and n.func.attr == "attrPush" and n.args \
                and isinstance(n.args[0], (ast.Tuple, ast.List)) and len(n.args[0].elts) == 2 and isinstance(n.args[0].elts[0], ast.Constant) \
                and n.args[0].elts[0].value in ("href", "src"):
            out.append((n.args[0].elts[0].value, n.args[0].elts[1], n))
        elif isinstance(n, ast.Assign):
            for t in n.targets:
                if isinstance(t, ast.Subscript) and isinstance(t.slice, ast.Constant) and t.slice.value in ("href", "src") \
                        and (U(t.value).endswith("attrs") or U(t.value).endswith("meta")):
                    out.append((t.slice.value, n.value, n))
    return out


def rule_url(c: Ctx) -> RuleResult:
    r = RuleResult("URL", "every value reaching an href/src/url sink is normalizeLink(...) output that passed validateLink on that path "
                          "(or a constant, or an env reference entry written by such a sink)")
    phase = c.cg.api_phase()
    nsinks = 0
    for f in sorted(phase, key=lambda f: f.qual):
        if f.module.rel in ("token.py", "renderer.py"):
            continue
        if not _sinks(f.node):
            continue
        cfg = c.cfg(f)
        prob = UrlProblem(c, f)
        IN = solve(cfg, prob, narrow_rounds=0)
        r.functions += 1
        seen = set()
        for n in cfg.nodes:
            if n.kind not in ("stmt", "test") or n.ast is None or IN.get(n.id) is None:
                continue
            for (key, val, site) in _sinks(n.ast):
                if (id(site), key) in seen:
                    continue
                seen.add((id(site), key))
                nsinks += 1
                cls = prob.classify(val, IN[n.id])
                ok = cls in ("Const", "Env", "NormChecked")
                k = f"{f.short}|sink:{key}|{alpha(f, site)[:90]}"
                why = {"Const": "constant", "Env": "entry of env['references'], whose only writer is itself a checked sink",
                       "NormChecked": "normalizeLink(...) result on which validateLink(...) was tested true on every path to here"}.get(cls, "")
                bad = {"NormUnchecked": "normalised but validateLink was not tested true on every path to this sink",
                       "Raw": "value is neither normalizeLink(...) output nor a constant: an unnormalised / unvalidated URL reaches the token",
                       "EnvRef": "whole reference entry used as URL"}.get(cls, cls)
                r.add(k, c.where(f, site), f.short, f"{key} <- {U(val)[:40]}", "discharged" if ok else "violation", why if ok else bad,
                      {"class": cls})
    # facade + sanitizer bodies
    p = c.p
    for name in ("normalizeLink", "validateLink"):
        fac = p.func(f"main.py:MarkdownIt.{name}")
        rets = [n for n in own_nodes(fac.node) if isinstance(n, ast.Return) and n.value is not None]
        ok = bool(rets)
        for rt in rets:
            v = rt.value
            cs = c.cg.site_of.get(v) if isinstance(v, ast.Call) else None
            good = cs is not None and len(cs.callees) == 1 and cs.callees[0].module.rel == "common/normalize_url.py" and cs.callees[0].name == name \
                and len(v.args) == 1 and isinstance(v.args[0], ast.Name) and v.args[0].id == fac.node.args.args[1].arg and not v.keywords
            ok = ok and good
        r.add(f"facade|{name}", c.where(fac, fac.node), fac.short, f"return normalize_url.{name}(url)", "discharged" if ok else "violation",
              "delegates to common.normalize_url on its own argument" if ok else
              f"MarkdownIt.{name} does not simply delegate to common.normalize_url.{name}(url)")
    nl = p.func("common/normalize_url.py:normalizeLink")
    rets = [n for n in own_nodes(nl.node) if isinstance(n, ast.Return) and n.value is not None]
    ok = bool(rets) and all(isinstance(rt.value, ast.Call) and U(rt.value.func) == "mdurl.encode" and len(rt.value.args) == 1 and not rt.value.keywords
                            for rt in rets)
    r.add("normalizeLink|encode", c.where(nl, nl.node), nl.short, "return mdurl.encode(...)", "discharged" if ok else "violation",
          "every return value is the result of mdurl.encode (percent-encoding to URL-safe ASCII) with its default character sets" if ok else
          "a return value of normalizeLink is not (default) mdurl.encode output")
    r.add(*_validate_semantics(c))
    # a rejected destination stays literal text: the cursor moves past a parsed destination only where it validated.  In every
    # function that parses a destination, each store of `<result>.pos` lies behind the passing edge of a validateLink test.
    from .switch_rules import _edge_dominated
    ndest = 0
    # wrappers: a function every return of which is the (possibly adjusted) result object of parseLinkDestination
    wrappers: dict[str, tuple[Func, bool]] = {}
    for g in sorted(c.p.all_funcs(), key=lambda x: x.qual):
        rets = [x for x in own_nodes(g.node) if isinstance(x, ast.Return) and x.value is not None]
        locs = {n.targets[0].id for n in own_nodes(g.node) if isinstance(n, ast.Assign) and len(n.targets) == 1 and isinstance(n.targets[0], ast.Name)
                and isinstance(n.value, ast.Call) and U(n.value.func).split(".")[-1] == "parseLinkDestination"}
        if g.name != "parseLinkDestination" and rets and locs and all(isinstance(x.value, ast.Name) and x.value.id in locs for x in rets):
            # does the wrapper report a destination that fails validateLink as not ok?  (every path from the failing edge of the
            # validator test to the exit stores <result>.ok = False)
            gcfg = c.cfg(g)
            reports = False
            vt = [tn for tn in gcfg.nodes if tn.kind == "test" and tn.ast is not None
                  and any(isinstance(y, ast.Call) and U(y.func).split(".")[-1] == "validateLink" for y in ast.walk(tn.ast))]
            if vt:
                reports = True
                for tn in vt:
                    neg = isinstance(tn.ast, ast.UnaryOp) and isinstance(tn.ast.op, ast.Not)
                    starts = [m for (m, l) in tn.succ if l == ("T" if neg else "F")]
                    seen_: set[int] = set()
                    work_ = list(starts)
                    while work_:
                        m = work_.pop()
                        if m.id in seen_:
                            continue
                        seen_.add(m.id)
                        if m.kind == "stmt" and isinstance(m.ast, ast.Assign) and any(
                                isinstance(t, ast.Attribute) and t.attr == "ok" and isinstance(m.ast.value, ast.Constant) and m.ast.value.value is False
                                for t in m.ast.targets):
                            continue
                        if m is gcfg.exit:
                            reports = False
                            break
                        work_ += [x for (x, l) in m.succ if l != "exc"]
            wrappers[g.name] = (g, reports)

    def dest_call(v: ast.AST) -> str | None:
        if isinstance(v, ast.Call):
            nm = U(v.func).split(".")[-1]
            if nm == "parseLinkDestination" or nm in wrappers:
                return nm
        return None
    for f in sorted(phase, key=lambda f: f.qual):
        if f.name in wrappers:
            continue
        res_names = {n.targets[0].id for n in own_nodes(f.node) if isinstance(n, ast.Assign) and len(n.targets) == 1 and isinstance(n.targets[0], ast.Name)
                     and dest_call(n.value)}
        if not res_names:
            continue
        cfg = c.cfg(f)
        tests = []
        for tn in cfg.nodes:
            if tn.kind == "test" and tn.ast is not None and isinstance(tn.ast, ast.Call) and U(tn.ast.func).split(".")[-1] == "validateLink":
                tests.append(tn)
        for n in cfg.nodes:
            if n.kind != "stmt" or not isinstance(n.ast, (ast.Assign, ast.AugAssign, ast.Return)) or n.ast.value is None:
                continue
            # the end position of the parsed destination is stored, or handed back to the caller (return href, res.pos, ...)
            v = n.ast.value
            if isinstance(n.ast, ast.Return):
                v = next((x for x in ast.walk(n.ast.value) if isinstance(x, ast.Attribute) and x.attr == "pos" and isinstance(x.value, ast.Name)
                          and x.value.id in res_names), None)
            if not (isinstance(v, ast.Attribute) and v.attr == "pos" and isinstance(v.value, ast.Name) and v.value.id in res_names):
                continue
            from ..reach import Reaching
            rds = Reaching(cfg).at(n, v.value.id)
            srcs = {dest_call(d.value) for d in rds if d.kind == "assign" and d.value is not None} - {None}
            if not srcs:
                continue          # the name holds another helper's result here (the title)
            ndest += 1
            ok = any(_edge_dominated(cfg, tn, "T", n) for tn in tests)
            if not ok and all(s_ in wrappers and wrappers[s_][1] for s_ in srcs):
                # the wrapper validates and reports a rejected destination as not ok: the store must be behind `if <res>.ok`
                oktests = [tn for tn in cfg.nodes if tn.kind == "test" and tn.ast is not None and U(tn.ast) == f"{v.value.id}.ok"]
                ok = any(_edge_dominated(cfg, tn, "T", n) for tn in oktests)
            r.add(f"{f.short}|dest-cursor|{alpha(f, n.ast)[:50]}", c.where(f, n.ast), f.short, U(n.ast)[:60], "discharged" if ok else "violation",
                  "the cursor passes the destination only behind a successful validateLink test" if ok else
                  "the cursor is moved past a parsed destination on a path where validateLink did not succeed: a rejected destination "
                  "would be consumed (dropped from the output) instead of staying literal text")
    if ndest < 3:
        raise AnchorError(f"only {ndest} stores of a parsed destination's end position found (link, image, reference)")
    r.floor = 12
    if nsinks < 6:
        raise AnchorError(f"only {nsinks} URL sinks found; 9 were confirmed by reading")
    return r


def _validate_semantics(c: Ctx):
    """validateLink(url) must compute  (not BAD(u)) or GOOD(u)  where u = url lower-cased (or the patterns ignore case)."""
    vl = c.p.func("common/normalize_url.py:validateLink")
    m = vl.module
    regs = {name: (pat, flags) for (mod, name, pat, flags, _) in c.p.regex_constants() if mod is m and name}
    bad = [n for n, (pat, fl) in regs.items() if re.compile(pat, fl).search("javascript:x")]
    good = [n for n, (pat, fl) in regs.items() if re.compile(pat, fl).search("data:image/png;x") and n not in bad]
    where = c.where(vl, vl.node)
    if len(bad) != 1 or len(good) != 1:
        return ("validateLink|semantics", where, vl.short, "(not BAD) or GOOD", "violation",
                f"cannot identify exactly one bad-scheme and one good-data pattern (bad={bad}, good={good})")
    B, G = bad[0], good[0]
    param = vl.node.args.args[0].arg
    # the value the patterns are applied to must have been lower-cased (or both patterns carry IGNORECASE)
    icase = all(regs[n][1] & re.IGNORECASE for n in (B, G))
    lowered: set[str] = set()
    for n in own_nodes(vl.node):
        if isinstance(n, ast.Assign):
            has_lower = any(isinstance(x, ast.Call) and isinstance(x.func, ast.Attribute) and x.func.attr in ("lower", "casefold") for x in ast.walk(n.value))
            for t in n.targets:
                if isinstance(t, ast.Name):
                    if has_lower:
                        lowered.add(t.id)
                    else:
                        lowered.discard(t.id) if not any(isinstance(x, ast.Name) and x.id in lowered for x in ast.walk(n.value)) else None
    applied_ok = True
    uses = []
    for n in own_nodes(vl.node):
        if isinstance(n, ast.Call) and isinstance(n.func, ast.Attribute) and isinstance(n.func.value, ast.Name) and n.func.value.id in (B, G):
            uses.append(n)
            if n.func.attr not in ("search", "match"):
                applied_ok = False
            a = n.args[0] if n.args else None
            arg_lower = isinstance(a, ast.Name) and a.id in lowered or (
                a is not None and any(isinstance(x, ast.Call) and isinstance(x.func, ast.Attribute) and x.func.attr in ("lower", "casefold") for x in ast.walk(a)))
            if not (icase or arg_lower):
                applied_ok = False
            # and the argument must derive from the parameter
            if a is None or not any(isinstance(x, ast.Name) and (x.id == param or x.id in lowered) for x in ast.walk(a)):
                applied_ok = False
    if not uses or not applied_ok:
        return ("validateLink|semantics", where, vl.short, "(not BAD) or GOOD", "violation",
                "the scheme patterns are not applied (search/match) to the lower-cased url (and are not IGNORECASE): "
                "`JaVaScRiPt:` would pass")
    cfg = c.cfg(vl)
    for b, g in itertools.product((False, True), repeat=2):
        def atom(e: ast.AST, b=b, g=g):
            if isinstance(e, ast.Call) and isinstance(e.func, ast.Attribute) and isinstance(e.func.value, ast.Name):
                if e.func.value.id == B:
                    return b
                if e.func.value.id == G:
                    return g
            if isinstance(e, ast.Compare) and len(e.ops) == 1 and isinstance(e.left, ast.Name) and e.left.id == "validator":
                return isinstance(e.ops[0], (ast.Is, ast.Eq))          # validator is None on the facade path
            if isinstance(e, ast.Name) and e.id == "validator":
                return False
            return None
        val, how = simulate_return(cfg, atom)
        want = (not b) or g
        if how != "ret" or val is None or val != want:
            return ("validateLink|semantics", where, vl.short, "(not BAD) or GOOD", "violation",
                    f"with bad-scheme={b}, good-data={g} validateLink returns {val} ({how}); required {want}")
    return ("validateLink|semantics", where, vl.short, "(not BAD) or GOOD", "discharged",
            f"truth-table simulation over {B}/{G}: rejects exactly bad schemes that are not whitelisted data images; patterns applied to the lower-cased url")


def rule_urlre(c: Ctx) -> RuleResult:
    r = RuleResult("URLRE", "regex language facts of the validator: the bad-scheme pattern is start-anchored and covers javascript/vbscript/"
                            "file/data; the data whitelist is start-anchored and admits only gif/png/jpeg/webp followed by ';'")
    vl = c.p.func("common/normalize_url.py:validateLink")
    m = vl.module
    used = {x.id for x in ast.walk(vl.node) if isinstance(x, ast.Name)}
    regs = {name: (pat, flags, node) for (mod, name, pat, flags, node) in c.p.regex_constants() if mod is m and name and name in used}
    bad = [n for n, (pat, fl, _) in regs.items() if re.compile(pat, fl).search("javascript:x")]
    good = [n for n, (pat, fl, _) in regs.items() if re.compile(pat, fl).search("data:image/png;x") and n not in bad]
    if len(bad) != 1 or len(good) != 1:
        raise AnchorError(f"validator patterns not identifiable (bad={bad}, good={good})")
    bpat, bfl, bnode = regs[bad[0]]
    gpat, gfl, gnode = regs[good[0]]
    B = re.compile(bpat, bfl)
    G = re.compile(gpat, gfl)
    where_b = f"markdown_it/{m.rel}:{bnode.lineno}"
    where_g = f"markdown_it/{m.rel}:{gnode.lineno}"
    schemes = ["javascript", "vbscript", "file", "data"]
    thorough = c.tier == "thorough"
    for s in schemes:
        variants = [s]
        if thorough and (bfl & re.IGNORECASE):
            variants = ["".join(p) for p in itertools.product(*[(ch.lower(), ch.upper()) for ch in s])]
        ok = all(B.search(v + ":alert(1)") for v in variants)
        r.add(f"bad|{s}", where_b, bad[0], f"{s}: must match", "discharged" if ok else "violation",
              f"pattern matches `{s}:` at the start ({len(variants)} spelling(s))" if ok else f"the scheme blacklist does not match `{s}:`")
    # (whether the blacklist is anchored is not an obligation: an unanchored blacklist only rejects more)
    import re._parser as sp            # type: ignore[import]
    tree = sp.parse(gpat, gfl)
    lits = _alternation_literals(tree)
    allowed = {"gif", "png", "jpeg", "webp"}
    ok_alt = lits is not None and set(lits) <= allowed and len(lits) >= 1
    r.add("good|alternatives", where_g, good[0], f"image types {sorted(lits) if lits else '?'}", "discharged" if ok_alt else "violation",
          "whitelist alternatives are a subset of gif/png/jpeg/webp" if ok_alt else
          f"the data: whitelist admits other types than gif/png/jpeg/webp: {sorted(lits) if lits else 'not a plain alternation'}")
    anchored_g = bool(G.search("data:image/png;base64,x")) and not G.search("xdata:image/png;") and not G.search("data:text/html;data:image/png;")
    r.add("good|anchored", where_g, good[0], "anchored at the start", "discharged" if anchored_g else "violation",
          "matches only at the start of the url" if anchored_g else "the whitelist is not anchored at the start: `data:text/html;...data:image/png;` would pass")
    semi = not G.search("data:image/png") and not G.search("data:image/pngx;") and not G.search("data:image/svg+xml;")
    r.add("good|terminator", where_g, good[0], "type followed by ';'", "discharged" if semi else "violation",
          "the image type must be followed by ';' and svg+xml is rejected" if semi else "the whitelist admits types it must not (prefix match / svg)")
    prefix = all(not G.search(s) for s in ("data:,x", "data:text/html;base64,x", "data:application/javascript;x", "data:image/;"))
    r.add("good|prefix", where_g, good[0], "data:image/ prefix", "discharged" if prefix else "violation",
          "only data:image/<type>; passes" if prefix else "non-image data: urls pass the whitelist")
    # the normaliser itself: whatever path is taken, what normalizeLink returns has been through mdurl.encode (percent-encoding
    # of everything outside the URL-safe ASCII set) - an early `return url` fast path would hand raw characters to the sinks
    nl = c.p.func("common/normalize_url.py:normalizeLink")
    rd = c.reach(nl) if hasattr(c, "reach") else None
    for n in own_nodes(nl.node):
        if not isinstance(n, ast.Return):
            continue
        v = n.value
        seen_names: set[str] = set()
        while isinstance(v, ast.Name) and v.id not in seen_names:
            seen_names.add(v.id)
            defs = [x for x in own_nodes(nl.node) if isinstance(x, ast.Assign) and any(isinstance(t, ast.Name) and t.id == v.id for t in x.targets)]
            if len(defs) != 1:
                break
            v = defs[0].value
        ok = isinstance(v, ast.Call) and isinstance(v.func, ast.Attribute) and v.func.attr == "encode" and U(v.func.value).split(".")[-1] == "mdurl"
        r.add(f"normalizeLink|return|{U(n)[:40]}", c.where(nl, n), nl.short, U(n)[:70], "discharged" if ok else "violation",
              "the value returned is mdurl.encode(...) output" if ok else
              "normalizeLink returns a value that has not been through mdurl.encode on this path: unencoded characters (blanks, line "
              "breaks, non-ASCII) would reach href / src")
    r.functions = 2
    r.floor = 8
    return r


def _alternation_literals(tree: Any) -> list[str] | None:
    """Literal alternatives of the (single) alternation group in a parsed pattern."""
    import re._constants as sc         # type: ignore[import]
    found: list[list[str]] = []

    def lit(seq) -> str | None:
        out = ""
        for op, av in seq:
            if op is sc.LITERAL:
                out += chr(av)
            else:
                return None
        return out

    def walk(seq) -> None:
        for op, av in seq:
            if op is sc.SUBPATTERN:
                walk(av[3])
            elif op is sc.BRANCH:
                alts = []
                okk = True
                for b in av[1]:
                    s = lit(b)
                    if s is None:
                        okk = False
                        break
                    alts.append(s)
                if okk:
                    found.append(alts)
                else:
                    found.append(["<non-literal>"])
            elif op in (sc.MAX_REPEAT, sc.MIN_REPEAT):
                walk(av[2])
    walk(tree)
    if len(found) != 1:
        # prefix factoring by the parser (e.g. 'p' factored out of png|...)? fall back to enumeration
        return None
    return found[0]
