"""C20 rule families.

GUARD  the complexity guards whose removal changes no output are present and consulted on every path: skipToken's memo
       (lookup dominates dispatch, stored on every exit past the lookup), the backtick closer cache, the delimiter lower
       bounds (read key == written key, written on the no-match path, cursor steps by the jump table), the paren-depth
       cap of link destinations (checked inside the scan loop), and - when the nesting cap is hit - the dispatcher moves
       its cursor to the end of the range instead of recursing;
SCAN   a block rule consumes what it scans: the value stored to state.line on success has its copy origin in the
       lookahead cursor (or the cursor is handed to the nested tokenize).
"""
from __future__ import annotations

import ast

from ..cfg import CFG, Node
from ..core import AnchorError, Func, U, own_nodes
from ..ctx import Ctx
from ..reach import Reaching
from ..report import RuleResult, alpha
from ..syn import cmp_oriented, const_int, incr_of
from ..tokens import option_read_key

LINE_TABLES = ("bMarks", "eMarks", "tShift", "sCount", "bsCount")


def _must_pass(cfg: CFG, starts: list[Node], through, until, within: set[int] | None = None) -> Node | None:
    """Walk forward from `starts`; return a node satisfying `until` that is reachable without passing a node satisfying
    `through` (None if every path passes one)."""
    seen: set[int] = set()
    stack = list(starts)
    while stack:
        n = stack.pop()
        if n.id in seen:
            continue
        seen.add(n.id)
        if through(n):
            continue
        if until(n):
            return n
        if within is not None and n.ast is not None and id(n.ast) not in within:
            continue                  # left the region of interest (the loop body)
        stack.extend(m for (m, l) in n.succ if l != "exc")
    return None


def _stores_to(n: Node, pred) -> bool:
    a = n.ast
    if n.kind != "stmt" or not isinstance(a, (ast.Assign, ast.AugAssign, ast.AnnAssign)):
        return False
    tg = a.targets if isinstance(a, ast.Assign) else [a.target]
    return any(pred(t) for t in tg)


def rule_guard(c: Ctx) -> RuleResult:
    r = RuleResult("GUARD", "the complexity guards are present and consulted on every path: skipToken memo, backtick closer cache, "
                            "delimiter lower bounds, paren-depth cap, and cursor-to-end when the nesting cap is hit")
    # ---------------------------------------------------------------- G1 skipToken memo
    f = c.p.func("parser_inline.py:ParserInline.skipToken")
    st = f.node.args.args[1].arg
    cfg = c.cfg(f)
    r.functions += 1
    rd_sk = Reaching(cfg)

    def is_memo(e: ast.AST, at: ast.AST) -> bool:
        """e denotes the state's memo table: <state>.cache or a local bound to it."""
        if isinstance(e, ast.Attribute) and e.attr == "cache" and U(e.value) == st:
            return True
        if isinstance(e, ast.Name):
            ds = rd_sk.at_ast(at, e.id)
            return bool(ds) and all(d.value is not None and isinstance(d.value, ast.Attribute) and d.value.attr == "cache" for d in ds)
        return False
    lookups = [n for n in cfg.nodes if n.kind == "test" and isinstance(n.ast, ast.Compare) and len(n.ast.ops) == 1
               and isinstance(n.ast.ops[0], (ast.In, ast.NotIn)) and is_memo(n.ast.comparators[0], n.ast)]
    disp = [cs for cs in c.cg.sites.get(f, []) if cs.kind.startswith("dispatch:inline")]
    if not disp:
        # the dispatch loop may live in a private helper: the call of that helper stands for it
        disp = [cs for cs in c.cg.sites.get(f, []) if any(any(x.kind.startswith("dispatch:inline") for x in c.cg.sites.get(g, [])) for g in cs.callees)]
    if not disp:
        raise AnchorError("skipToken no longer dispatches the inline rules")
    dom = cfg.dominators()
    if not lookups:
        r.add("skipToken|lookup", c.where(f, f.node), f.short, "if pos in cache", "violation",
              "skipToken does not consult its memo before dispatching: every enclosing label scan re-runs the rules (quadratic on nested brackets)")
    else:
        lk = lookups[0]
        ok = all(lk.id in dom[n.id] for cs in disp for n in cfg.owner(cs.node))
        r.add("skipToken|lookup", c.where(f, lk.ast), f.short, U(lk.ast), "discharged" if ok else "violation",
              "the memo lookup dominates the rule dispatch" if ok else "the rule dispatch is reachable without the memo lookup")
        miss_lab = "F" if isinstance(lk.ast.ops[0], ast.In) else "T"
        starts = [m for (m, l) in lk.succ if l == miss_lab]

        def is_cache_store(n: Node) -> bool:
            return _stores_to(n, lambda t: isinstance(t, ast.Subscript) and is_memo(t.value, n.ast))
        bad = _must_pass(cfg, starts, is_cache_store, lambda n: n is cfg.exit)
        # which exit statement?
        r.add("skipToken|store", c.where(f, lk.ast), f.short, "cache[pos] = state.pos", "discharged" if bad is None else "violation",
              "every exit past a memo miss stores the result" if bad is None else
              "an exit of skipToken after a memo miss does not store into the memo: that position is re-evaluated by every enclosing scan "
              "(and a capped result may later be recomputed at a shallower level)")
    # ---------------------------------------------------------------- G5 cap branches
    from .total_rules import cap_edges
    for qual, cursor, endtxt in (("parser_block.py:ParserBlock.tokenize", "line", "endLine"),
                                 ("parser_inline.py:ParserInline.skipToken", "pos", "posMax")):
        # (ParserInline.tokenize needs no such branch: when the cap is hit it falls through to the one-character fallback)
        top = c.p.func(qual)
        cands = [top] + [g for cs in c.cg.sites.get(top, []) if cs.kind in ("direct", "method") for g in cs.callees if g.module is top.module]
        found_any = False
        for f in cands:
            direct = [(n, lab, d) for (n, lab, d) in cap_edges(c, f, depth=2) ]       # depth=2: direct comparisons only
            if not direct:
                continue
            found_any = True
            params = [a.arg for a in f.node.args.posonlyargs + f.node.args.args]
            stn = next((a for a in params if c.tf.scope(f).env.get(a) in ("StateBlock", "StateInline")), params[0] if params else "state")
            cfg = c.cfg(f)
            # names that denote the end of the range in this function: the parameter itself, or a parameter whose actual is it
            ends = {endtxt, f"{stn}.{endtxt}"}
            if f is not top:
                for pn in params:
                    acts = [U(a) for (_, a, _) in __import__("sa.interproc", fromlist=["actuals"]).actuals(c, f, pn)]
                    if acts and all(a in (endtxt, f"{stn}.{endtxt}") or a.endswith("." + endtxt) for a in acts):
                        ends.add(pn)
            for (n, lab, d) in direct:
                hit = "F" if lab == "T" else "T"
                starts = [m for (m, l) in n.succ if l == hit]

                def cur_store(x: Node, stn=stn, ends=ends) -> bool:
                    if x.kind != "stmt" or not isinstance(x.ast, (ast.Assign, ast.AugAssign)):
                        return False
                    tg = x.ast.targets if isinstance(x.ast, ast.Assign) else [x.ast.target]
                    for t in tg:
                        if U(t) == f"{stn}.{cursor}":
                            v = x.ast.value
                            while isinstance(v, ast.BinOp) and isinstance(v.op, ast.Add) and isinstance(v.right, ast.Constant):
                                v = v.left          # end + constant: still past the end of the range
                            return U(v) in ends
                    return False
                loop_heads = {h.id for h in cfg.nodes if h.kind in ("join",) and isinstance(h.ast, ast.While)}
                bad = _must_pass(cfg, starts, cur_store, lambda x: x is cfg.exit or x.id in loop_heads)
                r.add(f"{top.short}|cap-consumes", c.where(f, n.ast), f.short, U(n.ast), "discharged" if bad is None else "violation",
                      f"when the cap is hit the cursor {stn}.{cursor} is moved to the end of the range before the next iteration / the exit"
                      if bad is None else
                      f"when the nesting cap is hit the dispatcher can leave (or loop) without setting {stn}.{cursor} to {endtxt}"
                      ": the enclosing container reports a match that consumed nothing (the same line is dispatched again: non-termination)")
        if not found_any:
            r.add(f"{top.short}|cap", c.where(top, top.node), top.short, "level vs maxNesting", "violation", "no comparison of the level with option maxNesting")
    # ---------------------------------------------------------------- G2 backtick cache
    f = c.p.func("rules_inline/backticks.py:backtick")
    st = f.node.args.args[0].arg
    cfg = c.cfg(f)
    r.functions += 1
    dom = cfg.dominators()
    loops = [n for n in own_nodes(f.node) if isinstance(n, ast.While) and any(isinstance(x, ast.Attribute) and x.attr in ("index", "find") for x in ast.walk(n))]
    if not loops:
        loops = [n for n in own_nodes(f.node) if isinstance(n, ast.While) and isinstance(n.test, ast.Constant)]
    if not loops:
        raise AnchorError("backtick: closer scan loop not found")
    loop = loops[0]
    head = next(n for n in cfg.nodes if n.kind == "join" and n.ast is loop)
    tests = [n for n in cfg.nodes if n.kind == "test" and n.ast is not None and "backticksScanned" in U(n.ast)]
    ok = bool(tests) and any(t.id in dom[head.id] for t in tests)
    r.add("backtick|lookup", c.where(f, tests[0].ast if tests else loop), f.short, U(tests[0].ast) if tests else "-", "discharged" if ok else "violation",
          "the closer-cache test dominates the scan for a closer" if ok else
          "the scan for a closing backtick string is reachable without consulting backticksScanned / backticks: every opener rescans the rest of the paragraph")
    inside = {id(x) for b in loop.body for x in ast.walk(b)}

    def bt_store(n: Node) -> bool:
        return _stores_to(n, lambda t: isinstance(t, ast.Subscript) and U(t.value) == f"{st}.backticks")
    body_first = [m for (m, l) in head.succ]
    bad = _must_pass(cfg, body_first, bt_store, lambda n: n is head, {id(x) for x in ast.walk(loop)})
    r.add("backtick|store", c.where(f, loop), f.short, f"{st}.backticks[closerLength] = matchStart", "discharged" if bad is None else "violation",
          "every iteration that goes on scanning records the mismatching closer in the cache" if bad is None else
          "the scan loop can continue without recording the closer it just saw: the upper limits are lost and later openers rescan")

    def scanned_store(n: Node) -> bool:
        return _stores_to(n, lambda t: U(t) == f"{st}.backticksScanned")
    # exits of the loop that are not returns from inside it
    exits = []
    for n in cfg.nodes:
        if n.ast is not None and id(n.ast) in inside:
            for (m, l) in n.succ:
                if m.ast is not None and id(m.ast) not in inside and m is not head and m is not cfg.exit and l != "exc" and m.kind != "dispatch":
                    if not (isinstance(n.ast, ast.Return)):
                        exits.append(m)
                elif m.kind == "dispatch":
                    exits.append(m)
    # ... and the exit through the loop's own test (`while matchStart != -1:` - the search ran off the end)
    in_test = {id(x) for x in ast.walk(loop.test)} if not isinstance(loop.test, ast.Constant) else set()
    whole = {id(x) for x in ast.walk(loop)}
    for n in cfg.nodes:
        if n.kind == "test" and n.ast is not None and id(n.ast) in in_test:
            for (m, l) in n.succ:
                if l in ("T", "F") and m is not head and not (m.ast is not None and id(m.ast) in whole) and m is not cfg.exit:
                    exits.append(m)
                elif l in ("T", "F") and m is cfg.exit:
                    exits.append(m)
    bad = _must_pass(cfg, exits, scanned_store, lambda n: n is cfg.exit) if exits else cfg.exit
    r.add("backtick|scanned", c.where(f, loop), f.short, f"{st}.backticksScanned = True", "discharged" if bad is None else "violation",
          "when the scan runs off the end the paragraph is marked fully scanned" if bad is None else
          "the scan can run off the end of the paragraph without setting backticksScanned: every later backtick string scans to the end again")
    # ---------------------------------------------------------------- G3 delimiter lower bounds
    f = c.p.func("rules_inline/balance_pairs.py:processDelimiters")
    cfg = c.cfg(f)
    rd = Reaching(cfg)
    r.functions += 1
    # the opener search: an inner while loop `cursor > bound` (either operand order) whose bound is read from a two-level table
    table = None
    inner_loops = []
    from ..interproc import expand as _expand0

    def two_level(e: ast.AST, at: ast.AST) -> tuple[str, str, str] | None:
        """(table, first key, second key) of a cell `T[a][b]` - also when the row is held in a local: `row = T.get(a)` /
        `T[a]` / `T.setdefault(a, ..)` / `row = T[a] = [...]` (every definition of the row that reaches `at` must agree)."""
        if not isinstance(e, ast.Subscript) or isinstance(e.slice, ast.Slice):
            return None
        bkey = U(_expand0(c, f, e.slice, at))
        v = e.value
        if isinstance(v, ast.Subscript) and isinstance(v.value, ast.Name) and not isinstance(v.slice, ast.Slice):
            return (v.value.id, U(_expand0(c, f, v.slice, at)), bkey)
        if isinstance(v, ast.Name):
            found: set[tuple[str, str]] = set()
            for d in rd.at_ast(at, v.id):
                cands_: list[ast.AST] = []
                if d.kind == "assign" and isinstance(d.stmt, ast.Assign):
                    cands_ = [d.stmt.value] + [t for t in d.stmt.targets if isinstance(t, ast.Subscript)]
                elif d.kind == "assign" and d.value is not None:
                    cands_ = [d.value]
                hit = None
                for x in cands_:
                    if isinstance(x, ast.Subscript) and isinstance(x.value, ast.Name) and not isinstance(x.slice, ast.Slice):
                        hit = (x.value.id, U(_expand0(c, f, x.slice, d.stmt)))
                    elif isinstance(x, ast.Call) and isinstance(x.func, ast.Attribute) and x.func.attr in ("get", "setdefault") and x.args \
                            and isinstance(x.func.value, ast.Name):
                        hit = (x.func.value.id, U(_expand0(c, f, x.args[0], d.stmt)))
                if hit is None:
                    return None
                found.add(hit)
            if len(found) == 1:
                t_, a_ = next(iter(found))
                return (t_, a_, bkey)
        return None
    for w in own_nodes(f.node):
        if not isinstance(w, ast.While) or not isinstance(w.test, ast.Compare) or len(w.test.ops) != 1:
            continue
        a_, b_ = w.test.left, w.test.comparators[0]
        for cur_e, bnd_e, okop in ((a_, b_, (ast.Gt, ast.GtE)), (b_, a_, (ast.Lt, ast.LtE))):
            if isinstance(bnd_e, ast.Name) and isinstance(cur_e, ast.Name) and isinstance(w.test.ops[0], okop):
                from ..interproc import expand
                ds = rd.at_ast(w.test, bnd_e.id)
                for d in ds:
                    v = expand(c, f, d.value, d.stmt) if d.value is not None and d.stmt is not None else d.value
                    tl = two_level(v, d.stmt) if v is not None and d.stmt is not None else None
                    if tl is None and d.value is not None and d.stmt is not None:
                        tl = two_level(d.value, d.stmt)
                    if tl is not None:
                        table = tl[0]
                        inner_loops.append((w, cur_e.id, bnd_e.id))
    tname = table or "<bounds table>"
    from ..interproc import expand as _expand

    class _W:          # a write `T[a][b] = v` with its (expanded) key
        def __init__(self, node, key):
            self.node, self.key = node, key
            self.targets = node.targets
    reads_k: set[tuple[str, str]] = set()
    reads = []
    for n in own_nodes(f.node):
        if isinstance(n, ast.Subscript) and isinstance(n.ctx, ast.Load):
            e_ = _expand(c, f, n, n)
            tl = two_level(e_, n) or two_level(n, n)
            if tl is not None and tl[0] == tname:
                reads.append(n)
                reads_k.add((tl[1], tl[2]))
    writes_k: set[tuple[str, str]] = set()
    writes = []
    for n in own_nodes(f.node):
        if isinstance(n, ast.Assign) and len(n.targets) == 1 and isinstance(n.targets[0], ast.Subscript):
            t_ = n.targets[0]
            e_ = ast.Subscript(value=_expand(c, f, t_.value, n), slice=_expand(c, f, t_.slice, n), ctx=ast.Load())
            tl = two_level(e_, n) or two_level(ast.Subscript(value=t_.value, slice=t_.slice, ctx=ast.Load()), n)
            if tl is not None and tl[0] == tname:
                writes.append(n)
                writes_k.add((tl[1], tl[2]))

    def norm(e: ast.AST) -> str:
        class N(ast.NodeTransformer):
            def visit_BoolOp(self, node: ast.BoolOp) -> ast.AST:
                self.generic_visit(node)
                if isinstance(node.op, ast.Or) and len(node.values) == 2 and isinstance(node.values[1], ast.Constant) and node.values[1].value == 0:
                    return node.values[0]
                return node
        import copy
        return U(N().visit(copy.deepcopy(e)))
    if not reads or not writes:
        r.add("delims|bounds", c.where(f, f.node), f.short, "table of opener lower bounds", "violation",
              "the table of opener lower bounds is " + ("never read" if not reads else "never written") + ": failed searches are repeated for every closer")
    else:
        def normt(t: str) -> str:
            return norm(ast.parse(t, mode="eval").body)
        rk = {(normt(a_), normt(b_)) for (a_, b_) in reads_k}
        wk = {(normt(a_), normt(b_)) for (a_, b_) in writes_k}
        ok = rk == wk
        r.add("delims|key", c.where(f, writes[0]), f.short, U(writes[0].targets[0])[:90], "discharged" if ok else "violation",
              "the lower bound is written under the key it is read with" if ok else
              f"the lower bound is written under key {sorted(wk)} but read under {sorted(rk)}: bounds land in slots that are never consulted")
        # the inner loop's bound comes from the table, and its cursor steps by the jump table on every path
        okb = bool(inner_loops)
        for (w, cur, bnd) in inner_loops:
            head = next(n for n in cfg.nodes if n.kind == "join" and n.ast is w)

            def step(n: Node, cur=cur) -> bool:
                if n.kind != "stmt":
                    return False
                inc = incr_of(n.ast)
                return inc is not None and inc[0] == cur and not inc[2] and isinstance(inc[1], ast.BinOp) or (
                    inc is not None and inc[0] == cur and not inc[2] and any(isinstance(x, ast.Subscript) for x in ast.walk(inc[1])))
            inner_ids = {id(x) for x in ast.walk(w)}
            bad = _must_pass(cfg, [m for (m, l) in head.succ], step, lambda n: n is head, inner_ids)
            r.add("delims|jump", c.where(f, w), f.short, f"{cur} -= <jump table>[{cur}] + 1", "discharged" if bad is None else "violation",
                  "the opener search steps over already matched runs on every path" if bad is None else
                  "the opener search can move without using the jump table: matched runs are walked again")
        r.add("delims|bound", c.where(f, inner_loops[0][0] if inner_loops else f.node), f.short, "while <cursor> > <bound from the table>",
              "discharged" if okb else "violation",
              "the opener search stops at the recorded lower bound" if okb else "the opener search is not bounded by a value read from the table of lower bounds")
        # written on the no-match path
        w0 = writes[0]
        fcfg, fres = c.facts(f)
        guarded = any((z := fres.get(cn.id)) is not None and any("!= -1" in t or "== -1" in t for (t, p) in z.preds) for cn in fcfg.owner(w0))
        r.add("delims|nomatch", c.where(f, w0), f.short, U(w0)[:80], "discharged" if guarded else "violation",
              "the bound is recorded when the search for this closer failed" if guarded else "the bound store is not tied to the failed-search path")
    # ---------------------------------------------------------------- G4 paren-depth cap
    f0 = c.p.func("helpers/parse_link_destination.py:parseLinkDestination")
    r.functions += 1
    # the depth counter: a local that is incremented by 1 under a `( ` test and decremented elsewhere inside the scan loop -
    # in parseLinkDestination itself or in a helper of its module it delegates the bare-destination scan to
    incs = []
    cands = [f0] + sorted({g for cs in c.cg.sites.get(f0, []) for g in cs.callees if g.module is f0.module and g is not f0}, key=lambda x: x.qual)
    for f in cands:
        for n in own_nodes(f.node):
            inc = incr_of(n) if isinstance(n, (ast.Assign, ast.AugAssign)) else None
            if inc is not None and inc[2] and const_int(inc[1]) == 1 and inc[0].isidentifier():
                dec = any((d := incr_of(x)) is not None and d[0] == inc[0] and not d[2] for x in own_nodes(f.node) if isinstance(x, (ast.Assign, ast.AugAssign)))
                if dec:
                    incs.append((f, n, inc[0]))
    if not incs:
        raise AnchorError("parseLinkDestination: paren depth counter not found")
    for (f, inc, var) in incs:
        loop = None
        p = f.module.parents.get(inc)
        while p is not None and p is not f.node:
            if isinstance(p, ast.While):
                loop = p
                break
            p = f.module.parents.get(p)
        ok = False
        if loop is not None:
            for t in ast.walk(loop):
                if isinstance(t, ast.If):
                    co = cmp_oriented(t.test, lambda e: U(e) == var)
                    if co is not None and co[1] in (ast.Gt, ast.GtE) and isinstance(co[2], (ast.Constant, ast.Name)) \
                            and any(isinstance(x, (ast.Return, ast.Break)) for s_ in t.body for x in ast.walk(s_)):
                        ok = True
        r.add(f"{f.short}|paren-cap", c.where(f, inc), f.short, U(inc), "discharged" if ok else "violation",
              "the paren depth is compared with its cap inside the scan loop, which stops there" if ok else
              "the paren depth is not checked against its cap inside the scan loop: an unterminated destination is scanned to the end of "
              "the paragraph for every link opener (quadratic on '[a](b' repeated)")
    _opener_exit(c, r)
    r.floor = 12
    return r


def _opener_exit(c: Ctx, r: RuleResult) -> None:
    """G6: an inline rule that starts at an opening character and scans forward for the closing one without a memo gives up
    at the next opening character (a run of unmatched openers is otherwise rescanned to the end of the text once per opener).
    Instance: autolink, `<` ... `>`."""
    f = c.p.func("rules_inline/autolink.py:autolink")
    r.functions += 1
    # the opening character: the constant the character at state.pos is compared with on the way in
    opener = None
    for n in own_nodes(f.node):
        if isinstance(n, ast.If) and isinstance(n.test, ast.Compare) and len(n.test.ops) == 1 and isinstance(n.test.ops[0], ast.NotEq) \
                and isinstance(n.test.comparators[0], ast.Constant) and isinstance(n.test.comparators[0].value, str) \
                and len(n.test.comparators[0].value) == 1 and any(isinstance(x, ast.Return) for x in n.body):
            opener = n.test.comparators[0].value
            break
    if opener is None:
        raise AnchorError("autolink: entry test on the opening character not found")
    closer = {"<": ">", "[": "]", "(": ")"}.get(opener)
    loops = [n for n in own_nodes(f.node) if isinstance(n, (ast.While, ast.For))]

    def char_tests(loop: ast.AST, ch: str, ops) -> list[ast.AST]:
        out = []
        for x in ast.walk(loop):
            if isinstance(x, ast.Compare) and len(x.ops) == 1 and isinstance(x.ops[0], ops):
                for a, b in ((x.left, x.comparators[0]), (x.comparators[0], x.left)):
                    if isinstance(b, ast.Constant) and b.value == ch:
                        out.append(x)
        return out
    scan = [L for L in loops if char_tests(L, closer, (ast.Eq, ast.NotEq))] if closer else []
    if not scan:
        # no character loop: a library search (str.find / index / regex) for the closer scans just as far, with no early exit
        uses_find = any(isinstance(x, ast.Call) and isinstance(x.func, ast.Attribute) and x.func.attr in ("find", "index") and x.args
                        and isinstance(x.args[0], ast.Constant) and x.args[0].value == closer for x in own_nodes(f.node))
        r.add(f"{f.short}|opener-exit", c.where(f, f.node), f.short, "scan for the closing character", "violation",
              (f"the closing `{closer}` is searched with str.find / index, which runs to the end of the text for every unmatched `{opener}`"
               if uses_find else f"no loop scanning for the closing `{closer}` found") +
              f": n unmatched `{opener}` cost n scans (quadratic)")
        return
    for L in scan:
        ok = False
        # (a) an `if ch == opener: return / break` inside the loop, (b) the loop runs only while the character differs from the opener
        for t in ast.walk(L):
            if isinstance(t, ast.If) and any(any(x is cmp_ for x in ast.walk(t.test)) for cmp_ in char_tests(L, opener, (ast.Eq,))) \
                    and any(isinstance(x, (ast.Return, ast.Break)) for s_ in t.body for x in ast.walk(s_)):
                ok = True
        if isinstance(L, ast.While) and any(any(x is cmp_ for x in ast.walk(L.test)) for cmp_ in char_tests(L, opener, (ast.NotEq,))):
            ok = True
        r.add(f"{f.short}|opener-exit", c.where(f, L), f.short, U(L).split("\n")[0][:70], "discharged" if ok else "violation",
              f"the scan for `{closer}` gives up at the next `{opener}`" if ok else
              f"the scan for `{closer}` does not stop at the next `{opener}`: every unmatched `{opener}` scans on to the next `{closer}` or the end of "
              f"the text (quadratic on a run of `{opener}`)")


# ------------------------------------------------------------------------------------------------ SCAN
def rule_scan(c: Ctx) -> RuleResult:
    r = RuleResult("SCAN", "a block rule consumes what it scans: the value stored to state.line on success has its copy origin in the "
                           "line-lookahead cursor (cursor, cursor + constant), or the cursor is handed to the nested tokenize")
    n_rules = 0
    for reg in c.reg.rules["block"]:
        f = reg.func
        st = f.node.args.args[0].arg
        params = [a.arg for a in f.node.args.args]
        # cursors: locals incremented by 1 inside a while loop and used as a line index
        cursors: set[str] = set()
        for w in own_nodes(f.node):
            if not isinstance(w, ast.While):
                continue
            for x in ast.walk(w):
                inc_ = incr_of(x) if isinstance(x, (ast.Assign, ast.AugAssign)) else None
                if inc_ is not None and inc_[2] and const_int(inc_[1]) == 1 and inc_[0].isidentifier():
                    v = inc_[0]
                    used_as_line = False
                    for y in ast.walk(w):
                        if isinstance(y, ast.Subscript) and isinstance(y.value, ast.Attribute) and y.value.attr in LINE_TABLES \
                                and any(isinstance(z, ast.Name) and z.id == v for z in ast.walk(y.slice)):
                            used_as_line = True
                        if isinstance(y, ast.Call) and isinstance(y.func, ast.Attribute) and y.func.attr in ("isEmpty", "is_code_block", "getLines") \
                                and any(isinstance(z, ast.Name) and z.id == v for a in y.args for z in ast.walk(a)):
                            used_as_line = True
                    if used_as_line:
                        cursors.add(v)
        if not cursors:
            r.add(f"{f.short}|no-lookahead", c.where(f, f.node), f.short, f"def {f.name}", "discharged", "trivial: no line-lookahead loop")
            continue
        n_rules += 1
        r.functions += 1
        origin = set(cursors)
        changed = True

        def base_of(v: ast.AST) -> ast.AST:
            while isinstance(v, ast.BinOp) and isinstance(v.op, ast.Add) and (isinstance(v.right, ast.Constant) or (
                    isinstance(v.right, ast.IfExp) and isinstance(v.right.body, ast.Constant) and isinstance(v.right.orelse, ast.Constant))):
                v = v.left
            return v
        while changed:
            changed = False
            for a in own_nodes(f.node):
                if isinstance(a, ast.Assign) and incr_of(a) is None:
                    b = base_of(a.value)
                    names = [t.id for t in a.targets if isinstance(t, ast.Name)]
                    if (isinstance(b, ast.Name) and b.id in origin) or any(n in origin for n in names) and any(
                            isinstance(t, ast.Attribute) and U(t) == f"{st}.line" for t in a.targets):
                        for n_ in names:
                            if n_ not in origin:
                                origin.add(n_)
                                changed = True
        stores = [a for a in own_nodes(f.node) if isinstance(a, (ast.Assign, ast.AugAssign)) and any(
            U(t) == f"{st}.line" for t in (a.targets if isinstance(a, ast.Assign) else [a.target]))]
        nested = any(isinstance(x, ast.Call) and any(g.short == "ParserBlock.tokenize" for g in (c.cg.site_of.get(x).callees if c.cg.site_of.get(x) else []))
                     and any(isinstance(z, ast.Name) and z.id in origin for a in x.args[1:] for z in ast.walk(a)) for x in own_nodes(f.node))
        if not stores and nested:
            r.add(f"{f.short}|nested", c.where(f, f.node), f.short, "nested tokenize(state, start, cursor)", "discharged",
                  f"the lookahead cursor {sorted(cursors)} is handed to the nested tokenize as its end line")
        def skey(a_: ast.AST) -> str:
            """The store with every local that is neither a parameter nor a scan cursor blanked: the identity of a finding does not
            depend on how the count added to the start line is computed (inline, in a helper, through a tuple)."""
            import copy as _copy

            class B(ast.NodeTransformer):
                def visit_Name(self, node: ast.Name) -> ast.AST:
                    return node if (node.id in params or node.id in origin or node.id == st) else ast.Name(id="_", ctx=node.ctx)
            return f"{f.short}|{alpha(f, B().visit(_copy.deepcopy(a_)))[:60]}"
        for a in stores:
            key = skey(a)
            if isinstance(a, ast.Assign) and isinstance(a.value, ast.Name):
                # `end = start + n + 1; state.line = end`: keyed (and judged) by the definition of the local, so that a finding
                # keeps its identity when a temporary is introduced
                ds_ = [n_ for n_ in own_nodes(f.node) if isinstance(n_, ast.Assign) and any(isinstance(t_, ast.Name) and t_.id == a.value.id for t_ in n_.targets)]
                if len(ds_) == 1:
                    import copy as _copy
                    a2 = _copy.copy(a)
                    a2.value = ds_[0].value
                    key = skey(a2)
            if isinstance(a, ast.AugAssign):
                okc = isinstance(a.value, ast.Constant)
                r.add(key, c.where(f, a), f.short, U(a), "discharged" if okc else "violation",
                      "constant advance" if okc else "the cursor advances by a computed amount unrelated to the lookahead cursor")
                continue
            v = a.value
            b = base_of(v)
            ok = (isinstance(b, ast.Name) and b.id in origin) or any(isinstance(t, ast.Name) and t.id in origin for t in a.targets)
            how = f"copy origin in the lookahead cursor {sorted(cursors)}"
            if not ok and isinstance(b, ast.Name) and b.id in params:
                ok, how = True, "start line plus a constant: fixed lookahead"
            if not ok and isinstance(v, ast.Call) and U(v.func) == "min" and all(
                    (isinstance(base_of(x), ast.Attribute) and U(base_of(x)) == f"{st}.line") or (isinstance(x, ast.Name) and x.id in params) for x in v.args):
                ok, how = True, "bounded constant lookahead (cursor + constant, clamped to the end line)"
            if not ok and nested and isinstance(b, ast.Name):
                ok, how = (b.id in origin), how
            r.add(key, c.where(f, a), f.short, U(a)[:80], "discharged" if ok else "violation",
                  how if ok else
                  f"the rule scans with {sorted(cursors)} but then sets the line cursor to `{U(v)}`, whose copy origin is not the scan cursor: the "
                  f"lines scanned beyond it are scanned again by the next dispatch (work per line grows with the block length)")
    if n_rules < 6:
        raise AnchorError(f"only {n_rules} block rules with a line-lookahead loop found")
    r.floor = 10
    return r
