"""C01 rule families other than BND / PROG: SENT (line-table sentinel), NEST (recursion capped by maxNesting), CHR (code
points validated before chr), DEF (no possibly-unbound local), RAISE (who may raise in the parse phase), CLI (lenient
decoding on the command-line route)."""
from __future__ import annotations

import ast
from typing import Any

from ..cfg import CFG, Node
from ..core import AnchorError, Func, U, own_nodes
from ..ctx import Ctx
from ..dataflow import Problem, solve
from ..facts import expr_local
from ..reach import Reaching
from ..report import RuleResult, alpha
from ..tokens import _blocks, option_read_key

LINE_TABLES = ("bMarks", "eMarks", "tShift", "sCount", "bsCount")


# ------------------------------------------------------------------------------------------------ SENT
def rule_sent(c: Ctx) -> RuleResult:
    r = RuleResult("SENT", "the five line tables are appended in lockstep, once per scanned line and once more as the sentinel "
                           "after the scan; lineMax excludes the sentinel")
    init = c.p.func("rules_block/state_block.py:StateBlock.__init__")
    # the constructor and the helpers only it calls (an extracted line scanner)
    cands = [init]
    for cs in c.cg.sites.get(init, []):
        for g in cs.callees:
            if g.module is init.module and g not in cands and g.cls is None:
                cands.append(g)
    # a helper (function or private method) that appends one entry to all five tables, called only while constructing
    group_helpers: list[Func] = []
    for g in c.p.all_funcs():
        if g.module is not init.module or g is init or g.name == "__init__":
            continue
        callers = c.cg.callers.get(g, [])
        if not callers or any(cs.caller not in cands for cs in callers):
            continue
        for blk in _blocks(g.node):
            tabs_ = []
            for s_ in blk:
                if isinstance(s_, ast.Expr) and isinstance(s_.value, ast.Call) and isinstance(s_.value.func, ast.Attribute) and s_.value.func.attr == "append":
                    b_ = s_.value.func.value
                    if isinstance(b_, ast.Attribute) and isinstance(b_.value, ast.Name) and b_.attr in LINE_TABLES:
                        tabs_.append(b_.attr)
            if sorted(tabs_) == sorted(LINE_TABLES) and not any(isinstance(l_, (ast.For, ast.While)) and any(x is blk[0] for x in ast.walk(l_))
                                                                   for l_ in own_nodes(g.node)):
                group_helpers.append(g)

    def appended(stmt: ast.stmt) -> str | None:
        if isinstance(stmt, ast.Expr) and isinstance(stmt.value, ast.Call) and isinstance(stmt.value.func, ast.Attribute) \
                and stmt.value.func.attr == "append":
            b = stmt.value.func.value
            if isinstance(b, ast.Attribute) and isinstance(b.value, ast.Name) and b.value.id == "self" and b.attr in LINE_TABLES:
                return b.attr
            if isinstance(b, ast.Name) and b.id in LINE_TABLES:
                return b.id
        return None

    groups_in_loop = groups_after = 0
    for f in cands:
        r.functions += 1
        loops = [n for n in own_nodes(f.node) if isinstance(n, (ast.For, ast.While))]
        for cs in c.cg.sites.get(f, []):
            if any(g in group_helpers for g in cs.callees):
                in_loop = any(any(x is cs.node for x in ast.walk(l)) for l in loops)
                r.add(f"append-group|{'loop' if in_loop else 'after'}|via {cs.callees[0].short}", c.where(f, cs.node), f.short, U(cs.node)[:100], "discharged",
                      f"{cs.callees[0].short} appends one entry to all five line tables (" + ("per scanned line" if in_loop else "sentinel entry after the scan") + ")")
                if in_loop:
                    groups_in_loop += 1
                else:
                    groups_after += 1
        for blk in _blocks(f.node):
            tabs = [t for t in (appended(s) for s in blk) if t]
            if not tabs:
                continue
            first = next(s for s in blk if appended(s))
            in_loop = any(any(x is first for x in ast.walk(l)) for l in loops)
            key = f"append-group|{'loop' if in_loop else 'after'}"
            if sorted(tabs) == sorted(LINE_TABLES):
                r.add(key, c.where(f, first), f.short, "; ".join(U(s) for s in blk if appended(s))[:150], "discharged",
                      "all five line tables are appended together (" + ("per scanned line" if in_loop else "sentinel entry after the scan") + ")")
                if in_loop:
                    groups_in_loop += 1
                else:
                    groups_after += 1
            else:
                miss = sorted(set(LINE_TABLES) - set(tabs))
                dup = sorted({t for t in tabs if tabs.count(t) > 1})
                r.add(key, c.where(f, first), f.short, "; ".join(U(s) for s in blk if appended(s))[:150], "violation",
                      f"line tables out of lockstep in this block: missing {miss} duplicated {dup} - rules index all five by the same "
                      f"line number (IndexError, or a wrong indent for every later line)")
    f = init
    if groups_in_loop < 1:
        r.add("append-group|loop|missing", c.where(f, f.node), f.short, "scan loop", "violation",
              "no per-line append group of the five line tables inside a scan loop")
    if groups_after < 1:
        r.add("append-group|sentinel|missing", c.where(f, f.node), f.short, "after the scan loop", "violation",
              "the sentinel entry (one extra element in each of the five line tables after the scan) is missing: rules read one "
              "line past the end (state.bMarks[nextLine] with nextLine == lineMax) and would raise IndexError")
    # lineMax = len(<table>) - 1
    found = False
    for n in own_nodes(f.node):
        if isinstance(n, ast.Assign) and len(n.targets) == 1 and U(n.targets[0]) == "self.lineMax" and not isinstance(n.value, ast.Constant):
            found = True
            v = n.value
            ok = (isinstance(v, ast.BinOp) and isinstance(v.op, ast.Sub) and isinstance(v.right, ast.Constant) and v.right.value == 1
                  and isinstance(v.left, ast.Call) and U(v.left.func) == "len" and len(v.left.args) == 1
                  and U(v.left.args[0]).split(".")[-1] in LINE_TABLES)
            r.add("lineMax", c.where(f, n), f.short, U(n), "discharged" if ok else "violation",
                  "lineMax is the table length minus the sentinel" if ok else
                  "lineMax is not `len(<line table>) - 1`: with the sentinel counted as a line, or a real line dropped, the block "
                  "loop and the maps are off by one")
    if not found:
        raise AnchorError("StateBlock.__init__ no longer derives lineMax from a table length")
    r.floor = 3
    return r


# ------------------------------------------------------------------------------------------------ NEST
def _reads_option(c: Ctx, f: Func, e: ast.AST, key: str, at: ast.AST, rd: Reaching, depth: int = 0) -> bool:
    if depth > 4:
        return False
    for n in ast.walk(e):
        if option_read_key(n) == key:
            return True
    if isinstance(e, ast.Name):
        ds = rd.at_ast(at, e.id)
        return bool(ds) and all(d.value is not None and d.kind == "assign" and _reads_option(c, f, d.value, key, d.stmt, rd, depth + 1)
                                for d in ds)
    return False


def cap_edges(c: Ctx, g: Func, depth: int = 0) -> list[tuple[Node, str, str]]:
    """(test node, passing edge label, description) of g: edges that can only be taken while the nesting level is below
    the maxNesting option.  Either a direct comparison of `<state>.level` with a value read from the option, or a call to
    a boolean helper whose `return False` / `return True` is itself reachable only through such an edge."""
    from ..syn import cmp_oriented
    from .switch_rules import _edge_dominated
    cfg = c.cfg(g)
    rd = Reaching(cfg)
    out: list[tuple[Node, str, str]] = []
    for n in cfg.nodes:
        if n.kind != "test" or n.ast is None:
            continue
        co = cmp_oriented(n.ast, lambda e: ".level" in U(e) or U(e) == "level")
        if co is not None and _reads_option_ip(c, g, co[2], "maxNesting", n.ast, rd):
            lab = {ast.Lt: "T", ast.LtE: "T", ast.Gt: "F", ast.GtE: "F"}.get(co[1])
            if lab:
                out.append((n, lab, U(n.ast)))
            continue
        call = n.ast.operand if isinstance(n.ast, ast.UnaryOp) and isinstance(n.ast.op, ast.Not) else n.ast
        if isinstance(call, ast.Call) and depth < 2:
            cs = c.cg.site_of.get(call)
            if cs is not None and len(cs.callees) == 1 and cs.kind in ("direct", "method"):
                h = cs.callees[0]
                hedges = cap_edges(c, h, depth + 1)
                if not hedges:
                    continue
                hcfg = c.cfg(h)
                for val, lab in ((False, "F"), (True, "T")):
                    rets = [x for x in hcfg.nodes if x.kind == "stmt" and isinstance(x.ast, ast.Return) and isinstance(x.ast.value, ast.Constant)
                            and x.ast.value.value is val]
                    if rets and all(any(_edge_dominated(hcfg, t, l, x) for (t, l, _) in hedges) for x in rets):
                        out.append((n, lab, f"{U(call.func)}(...) is {val} only while {hedges[0][2]} passes"))
    return out


def _reads_option_ip(c: Ctx, g: Func, e: ast.AST, key: str, at: ast.AST, rd: Reaching) -> bool:
    """_reads_option, following a parameter to the actual arguments of g's callers."""
    if _reads_option(c, g, e, key, at, rd):
        return True
    if isinstance(e, ast.Name) and e.id in [a.arg for a in g.node.args.posonlyargs + g.node.args.args]:
        ds = rd.at_ast(at, e.id)
        if ds and all(d.kind == "param" for d in ds):
            from ..interproc import actuals, reaching
            acts = actuals(c, g, e.id)
            return bool(acts) and all(_reads_option(c, caller, a, key, cs.node, reaching(c, caller)) for (caller, a, cs) in acts)
    return False


def guarded_by_cap(c: Ctx, g: Func, node: ast.AST, depth: int = 0) -> str:
    """'' if the AST node (a call) in g may execute with the nesting level at / above the cap, else how it is guarded."""
    from .switch_rules import _edge_dominated
    cfg = c.cfg(g)
    edges = cap_edges(c, g)
    owners = cfg.owner(node)
    if edges and owners and all(any(_edge_dominated(cfg, t, lab, dn) for (t, lab, _) in edges) for dn in owners):
        return f"reachable only through `{edges[0][2]}` passing"
    if depth < 2:
        callers = [cs for cs in c.cg.callers.get(g, []) if not cs.kind.startswith("dispatch:")]
        if callers and g.name not in ("tokenize", "parse", "skipToken"):
            hows = [guarded_by_cap(c, cs.caller, cs.node, depth + 1) for cs in callers]
            if all(hows):
                return f"every call of {g.short} is guarded: " + hows[0]
    return ""


def rule_nest(c: Ctx) -> RuleResult:
    r = RuleResult("NEST", "every rule-dispatch site that can recurse is reachable only through the passing edge of a comparison of the "
                           "nesting level with a value read from option maxNesting (in the dispatcher itself, in a boolean helper it "
                           "tests, or at every call of the helper that contains the dispatch)")
    n_sites = 0
    for g in sorted(c.cg.api_phase(), key=lambda x: x.qual):
        for cs in c.cg.sites.get(g, []):
            if cs.kind not in ("dispatch:block:", "dispatch:inline:"):
                continue
            call = cs.node
            n_sites += 1
            r.functions += 1
            how = guarded_by_cap(c, g, call)
            key = f"{g.short}|{cs.kind}"
            r.add(key, c.where(g, call), g.short, U(call), "discharged" if how else "violation",
                  how + " (the right-hand side is read from option maxNesting)" if how else
                  "the dispatch is not guarded by a comparison of the nesting level with the maxNesting option: deeply nested input "
                  "recurses until RecursionError")
    if n_sites < 3:
        raise AnchorError(f"only {n_sites} main-chain dispatch sites found (expected ParserBlock.tokenize, ParserInline.tokenize, skipToken)")
    r.floor = 3
    return r


# ------------------------------------------------------------------------------------------------ CHR
def rule_chr(c: Ctx) -> RuleResult:
    r = RuleResult("CHR", "chr / fromCodePoint of a non-constant is dominated by a true isValidEntityCode test on the same value, "
                          "or the value originates from ord / charCodeAt / a delimiter marker")
    fcp = c.p.func("common/utils.py:fromCodePoint")
    sites: list[tuple[Func, ast.Call]] = []
    for f in sorted(c.cg.api_phase(), key=lambda x: x.qual):
        for cs in c.cg.sites.get(f, []):
            n = cs.node
            if (isinstance(n.func, ast.Name) and n.func.id == "chr" and cs.kind == "external") or fcp in cs.callees:
                sites.append((f, n))
    for (f, call) in sites:
        r.functions += 1
        arg = call.args[0] if call.args else None
        key = f"{f.short}|{alpha(f, call)}"
        if arg is None:
            r.add(key, c.where(f, call), f.short, U(call), "violation", "no argument")
            continue
        if isinstance(arg, ast.Constant) and isinstance(arg.value, int) and 0 <= arg.value <= 0x10FFFF:
            r.add(key, c.where(f, call), f.short, U(call), "discharged", "trivial: constant code point in range")
            continue
        if f is fcp and isinstance(arg, ast.Name) and arg.id == f.node.args.args[0].arg:
            r.add(key, c.where(f, call), f.short, U(call), "discharged", "forwarding wrapper: the obligation is at fromCodePoint's call sites")
            continue
        cfg, res = c.facts(f)
        how = ""
        for n in cfg.owner(call):
            z = res.get(n.id)
            if z is None:
                continue
            z = expr_local(z, call, next((x for x in CFG.roots(n) if any(y is call for y in ast.walk(x))), n.ast), f.module.parents)
            if z.holds(f"isValidEntityCode({U(arg)})", True):
                how = f"dominated by a true test of isValidEntityCode({U(arg)})"
            else:
                how = ""
                break
        if not how:
            how = _origin_ord(c, f, call, arg)
            if how and "None (" in how:
                # some origin is None: the call must sit behind `arg is not None`
                ok_nn = True
                for n in cfg.owner(call):
                    z = res.get(n.id)
                    if z is None:
                        continue
                    z = expr_local(z, call, next((x for x in CFG.roots(n) if any(y is call for y in ast.walk(x))), n.ast), f.module.parents)
                    if not (z.holds(f"{U(arg)} is None", False) or z.holds(f"{U(arg)} is not None", True)):
                        ok_nn = False
                if not ok_nn:
                    how = ""
        if not how:
            how = _valid_code_flow(c, f, call, arg)
        if how:
            r.add(key, c.where(f, call), f.short, U(call), "discharged", how)
        else:
            r.add(key, c.where(f, call), f.short, U(call), "violation",
                  f"`{U(arg)}` reaches chr() without a dominating isValidEntityCode test and is not the ordinal of an existing "
                  f"character: a numeric reference above 0x10FFFF raises ValueError")
    _valid_code_predicate(c, r)
    r.floor = 6
    return r


# ---- the validity predicate itself, decided over the interval domain -----------------------------------------------------
def _valid_code_predicate(c: Ctx, r: RuleResult) -> None:
    """isValidEntityCode(c) must be False for every surrogate (U+D800..U+DFFF) and for every c > 0x10FFFF: the two classes for
    which chr(c) raises or yields text that cannot be encoded.  The function is evaluated over *intervals* (the integer line is
    cut at every constant the function and its tables mention; on each piece every comparison has a definite value; operations
    the interval domain cannot follow - bit masks - evaluate to "either"), so the verdict covers all integers, not samples."""
    f = c.p.func("common/utils.py:isValidEntityCode")
    if len(f.node.args.args) != 1:
        raise AnchorError("isValidEntityCode no longer takes one argument")
    pname = f.node.args.args[0].arg
    # constants: in the body and in module-level tables the body names
    consts: set[int] = set()
    tables: dict[str, list[ast.AST]] = {}
    for x in ast.walk(f.node):
        if isinstance(x, ast.Constant) and isinstance(x.value, int) and not isinstance(x.value, bool):
            consts.add(x.value)
        elif isinstance(x, ast.Name) and x.id != pname:
            d = f.module.defs.get(x.id)
            v = getattr(d, "value", None)
            if isinstance(v, (ast.Tuple, ast.List, ast.Set)):
                tables[x.id] = list(v.elts)
                for y in ast.walk(v):
                    if isinstance(y, ast.Constant) and isinstance(y.value, int) and not isinstance(y.value, bool):
                        consts.add(y.value)
    # helper predicates of the same module the function calls (`_inRanges(c, TABLE)`): their constants count too
    helpers: dict[str, ast.FunctionDef] = {}
    for x in ast.walk(f.node):
        if isinstance(x, ast.Call) and isinstance(x.func, ast.Name):
            d = f.module.defs.get(x.func.id)
            if isinstance(d, ast.FunctionDef) and d is not f.node:
                helpers[x.func.id] = d
                for y in ast.walk(d):
                    if isinstance(y, ast.Constant) and isinstance(y.value, int) and not isinstance(y.value, bool):
                        consts.add(y.value)
    cuts = sorted(consts | {0xD800, 0xE000, 0x110000})
    INF = 1 << 40
    alias: set[str] = set()          # parameters of a helper being evaluated that stand for the analysed variable

    def atoms(lo: int, hi: int) -> list[tuple[int, int]]:
        pts = sorted({lo, hi + 1} | {k for k in cuts if lo < k <= hi} | {k + 1 for k in cuts if lo < k + 1 <= hi})
        return [(a, b - 1) for a, b in zip(pts, pts[1:])]

    T, F, B = frozenset({True}), frozenset({False}), frozenset({True, False})

    cenv: dict[str, int] = {}          # names bound to constants by an unrolled table loop

    def ival(e: ast.AST, iv: tuple[int, int]):
        """interval of an int expression, or None (unknown)"""
        if isinstance(e, ast.Name) and (e.id == pname or e.id in alias):
            return iv
        if isinstance(e, ast.Name) and e.id in cenv:
            return (cenv[e.id], cenv[e.id])
        if isinstance(e, ast.Constant) and isinstance(e.value, int) and not isinstance(e.value, bool):
            return (e.value, e.value)
        if isinstance(e, ast.BinOp) and isinstance(e.op, (ast.Add, ast.Sub)):
            a, b = ival(e.left, iv), ival(e.right, iv)
            if a and b:
                return (a[0] + b[0], a[1] + b[1]) if isinstance(e.op, ast.Add) else (a[0] - b[1], a[1] - b[0])
        return None

    def rng(e: ast.AST):
        """(lo, hi) inclusive of a `range(a, b)` display / (a, b) pair used as a block, or None"""
        if isinstance(e, ast.Call) and isinstance(e.func, ast.Name) and e.func.id == "range" and 1 <= len(e.args) <= 2 \
                and all(isinstance(a, ast.Constant) and isinstance(a.value, int) for a in e.args):
            a = [x.value for x in e.args]          # type: ignore[attr-defined]
            return (0, a[0] - 1) if len(a) == 1 else (a[0], a[1] - 1)
        return None

    def bval(e: ast.AST, iv: tuple[int, int], env: dict[str, ast.AST]) -> frozenset:
        if isinstance(e, ast.Constant) and isinstance(e.value, bool):
            return T if e.value else F
        if isinstance(e, ast.UnaryOp) and isinstance(e.op, ast.Not):
            return frozenset(not v for v in bval(e.operand, iv, env))
        if isinstance(e, ast.BoolOp):
            vals = [bval(v, iv, env) for v in e.values]
            if isinstance(e.op, ast.And):
                if any(v == F for v in vals):
                    return F
                return T if all(v == T for v in vals) else B
            if any(v == T for v in vals):
                return T
            return F if all(v == F for v in vals) else B
        if isinstance(e, ast.Compare):
            left = e.left
            acc = T
            for op, right in zip(e.ops, e.comparators):
                one = B
                if isinstance(op, (ast.In, ast.NotIn)):
                    a = ival(left, iv)
                    blk = rng(env.get(right.id, right) if isinstance(right, ast.Name) else right)
                    if a and blk:
                        if blk[0] <= a[0] and a[1] <= blk[1]:
                            one = T
                        elif a[1] < blk[0] or a[0] > blk[1]:
                            one = F
                    elif a and isinstance(right, (ast.Tuple, ast.List, ast.Set)) and all(isinstance(x, ast.Constant) for x in right.elts):
                        vs = {x.value for x in right.elts}          # type: ignore[attr-defined]
                        if a[0] == a[1]:
                            one = T if a[0] in vs else F
                        elif not any(a[0] <= v <= a[1] for v in vs if isinstance(v, int)):
                            one = F
                    if isinstance(op, ast.NotIn):
                        one = frozenset(not v for v in one)
                else:
                    a, b = ival(left, iv), ival(right, iv)
                    if a and b:
                        if isinstance(op, ast.Lt):
                            one = T if a[1] < b[0] else F if a[0] >= b[1] else B
                        elif isinstance(op, ast.LtE):
                            one = T if a[1] <= b[0] else F if a[0] > b[1] else B
                        elif isinstance(op, ast.Gt):
                            one = T if a[0] > b[1] else F if a[1] <= b[0] else B
                        elif isinstance(op, ast.GtE):
                            one = T if a[0] >= b[1] else F if a[1] < b[0] else B
                        elif isinstance(op, ast.Eq):
                            one = T if a[0] == a[1] == b[0] == b[1] else F if a[1] < b[0] or a[0] > b[1] else B
                        elif isinstance(op, ast.NotEq):
                            one = F if a[0] == a[1] == b[0] == b[1] else T if a[1] < b[0] or a[0] > b[1] else B
                if one == F:
                    return F
                if one == B:
                    acc = B
                left = right
            return acc
        if isinstance(e, ast.Call) and isinstance(e.func, ast.Name) and e.func.id in helpers and not e.keywords and len(alias) < 3:
            h = helpers[e.func.id]
            ps = [a.arg for a in h.args.args]
            if len(ps) == len(e.args):
                saved_alias, saved_tab, saved_c = set(alias), dict(tables), dict(cenv)
                ok_bind = True
                for pn, a in zip(ps, e.args):
                    if isinstance(a, ast.Name) and (a.id == pname or a.id in saved_alias):
                        alias.add(pn)
                    elif isinstance(a, ast.Name) and a.id in saved_tab:
                        tables[pn] = saved_tab[a.id]
                    elif isinstance(a, (ast.Tuple, ast.List)):
                        tables[pn] = list(a.elts)
                    elif isinstance(a, ast.Constant) and isinstance(a.value, int) and not isinstance(a.value, bool):
                        cenv[pn] = a.value
                    else:
                        ok_bind = False
                res_h = run(h.body, iv) if ok_bind else frozenset({True, False})
                alias.clear(); alias.update(saved_alias)
                tables.clear(); tables.update(saved_tab)
                cenv.clear(); cenv.update(saved_c)
                return frozenset(bool(v) for v in res_h)          # falling off the end returns None: falsy
        if isinstance(e, ast.Call) and isinstance(e.func, ast.Name) and e.func.id in ("any", "all") and len(e.args) == 1 \
                and isinstance(e.args[0], ast.GeneratorExp) and len(e.args[0].generators) == 1:
            g = e.args[0].generators[0]
            it = g.iter
            elts = tables.get(it.id) if isinstance(it, ast.Name) else list(it.elts) if isinstance(it, (ast.Tuple, ast.List)) else None
            if elts is not None and isinstance(g.target, ast.Name) and not g.ifs:
                vals = [bval(e.args[0].elt, iv, {**env, g.target.id: x}) for x in elts]
                if e.func.id == "any":
                    return T if any(v == T for v in vals) else F if all(v == F for v in vals) else B
                return F if any(v == F for v in vals) else T if all(v == T for v in vals) else B
            tg_ = g.target.elts if isinstance(g.target, (ast.Tuple, ast.List)) else None
            if elts is not None and tg_ is not None and not g.ifs and all(isinstance(t, ast.Name) for t in tg_) and all(
                    isinstance(el, (ast.Tuple, ast.List)) and len(el.elts) == len(tg_) and all(
                        isinstance(v, ast.Constant) and isinstance(v.value, int) and not isinstance(v.value, bool) for v in el.elts) for el in elts):
                # any(lo <= c <= hi for lo, hi in TABLE): one instance per row, the targets bound to the row's constants
                vals = []
                for el in elts:
                    saved_c2 = dict(cenv)
                    cenv.update({t.id: v.value for t, v in zip(tg_, el.elts)})          # type: ignore[union-attr]
                    vals.append(bval(e.args[0].elt, iv, env))
                    cenv.clear()
                    cenv.update(saved_c2)
                if e.func.id == "any":
                    return T if any(v == T for v in vals) else F if all(v == F for v in vals) else B
                return F if any(v == F for v in vals) else T if all(v == T for v in vals) else B
        return B

    def run(stmts: list[ast.stmt], iv: tuple[int, int]) -> frozenset:
        """possible return values of the statement list on c in iv (None in the set = falls through)"""
        out: set = set()
        for s_ in stmts:
            if isinstance(s_, ast.Return):
                out |= set(bval(s_.value, iv, {})) if s_.value is not None else {None}
                return frozenset(out)
            if isinstance(s_, ast.If):
                tv = bval(s_.test, iv, {})
                res_b = run(s_.body, iv) if True in tv else frozenset()
                res_o = run(s_.orelse, iv) if False in tv else frozenset()
                both = set(res_b) | set(res_o)
                falls = (True in tv and None in res_b) or (False in tv and (None in res_o or not s_.orelse))
                out |= {v for v in both if v is not None}
                if not falls:
                    return frozenset(out)
                continue
            if isinstance(s_, ast.Expr) and isinstance(s_.value, ast.Constant):
                continue
            if isinstance(s_, ast.For) and not s_.orelse:
                # for low, high in TABLE: ...   over a constant table: unrolled, the targets bound to the constants
                it = s_.iter
                elts = tables.get(it.id) if isinstance(it, ast.Name) else list(it.elts) if isinstance(it, (ast.Tuple, ast.List)) else None
                tg = s_.target.elts if isinstance(s_.target, (ast.Tuple, ast.List)) else [s_.target]
                if elts is not None and all(isinstance(t, ast.Name) for t in tg) \
                        and not any(isinstance(x, (ast.Break, ast.Continue)) for b_ in s_.body for x in ast.walk(b_)):
                    done = False
                    for el in elts:
                        vals = el.elts if isinstance(el, (ast.Tuple, ast.List)) and len(tg) > 1 else [el]
                        if len(vals) != len(tg) or not all(isinstance(v, ast.Constant) and isinstance(v.value, int) for v in vals):
                            return frozenset(out | {True, False})
                        saved = dict(cenv)
                        cenv.update({t.id: v.value for t, v in zip(tg, vals)})          # type: ignore[union-attr]
                        res_i = run(s_.body, iv)
                        cenv.clear()
                        cenv.update(saved)
                        out |= {v for v in res_i if v is not None}
                        if None not in res_i:
                            done = True
                            break
                    if done:
                        return frozenset(out)
                    continue
            return frozenset(out | {True, False})          # a statement the evaluator does not model: anything may happen
        return frozenset(out | {None})

    for (name, lo, hi, why) in (("surrogates", 0xD800, 0xDFFF, "chr() of it yields a lone surrogate: text that cannot be encoded (the command line's print raises)"),
                                ("above U+10FFFF", 0x110000, INF, "chr() of it raises ValueError")):
        bad = []
        for a in atoms(lo, hi):
            res_ = run(f.node.body, a)
            if res_ != F:
                bad.append(a)
        r.add(f"isValidEntityCode|{name}", c.where(f, f.node), f.short, f"c in [{lo:#x}, {'inf' if hi == INF else format(hi, '#x')}]",
              "violation" if bad else "discharged",
              (f"isValidEntityCode can return True for c in " + ", ".join(f"[{a:#x}, {'inf' if b >= INF else format(b, '#x')}]" for a, b in bad[:3]) + f": {why}") if bad else
              f"False on every piece of the range (interval evaluation over {len(atoms(lo, hi))} pieces cut at the function's constants)")


class _ValidCodes(Problem):
    """Names that hold a valid code point on every path: validated by a true isValidEntityCode test, or assigned an in-range
    literal; any other assignment removes the name."""

    def entry_state(self):
        return frozenset()

    def join(self, a, b, at):
        return a & b

    @staticmethod
    def _lit_ok(v: ast.AST) -> bool:
        return isinstance(v, ast.Constant) and isinstance(v.value, int) and not isinstance(v.value, bool) and 0 <= v.value <= 0x10FFFF

    def edge(self, n: Node, state, label: str, succ: Node):
        st = set(state)
        a = n.ast
        if a is None:
            return frozenset(st)
        if n.kind == "test" and label in ("T", "F"):
            if isinstance(a, ast.Call) and U(a.func).split(".")[-1] == "isValidEntityCode" and len(a.args) == 1 and isinstance(a.args[0], ast.Name):
                if label == "T":
                    st.add(a.args[0].id)
            return frozenset(st)
        if n.kind == "stmt" and label != "exc":
            if isinstance(a, ast.Assign):
                for t in a.targets:
                    for x in ast.walk(t):
                        if isinstance(x, ast.Name) and isinstance(x.ctx, ast.Store):
                            st.discard(x.id)
                if len(a.targets) == 1 and isinstance(a.targets[0], ast.Name) and _valid_code_expr(a.value, frozenset(st)):
                    st.add(a.targets[0].id)
            elif isinstance(a, (ast.AugAssign, ast.AnnAssign)) and isinstance(a.target, ast.Name):
                st.discard(a.target.id)
                if isinstance(a, ast.AnnAssign) and a.value is not None and _valid_code_expr(a.value, frozenset(st)):
                    st.add(a.target.id)
        elif n.kind == "for" and label == "iter":
            for x in ast.walk(a.target):
                if isinstance(x, ast.Name):
                    st.discard(x.id)
        return frozenset(st)


def _valid_code_expr(e: ast.AST, valid: frozenset) -> bool:
    if _ValidCodes._lit_ok(e):
        return True
    if isinstance(e, ast.Name):
        return e.id in valid
    if isinstance(e, ast.IfExp):
        t = e.test
        neg = False
        while isinstance(t, ast.UnaryOp) and isinstance(t.op, ast.Not):
            t, neg = t.operand, not neg
        if isinstance(t, ast.Call) and U(t.func).split(".")[-1] == "isValidEntityCode" and len(t.args) == 1 and isinstance(t.args[0], ast.Name):
            x = t.args[0].id
            yes, no = (e.orelse, e.body) if neg else (e.body, e.orelse)
            return _valid_code_expr(yes, valid | {x}) and _valid_code_expr(no, valid)
        return _valid_code_expr(e.body, valid) and _valid_code_expr(e.orelse, valid)
    return False


def _valid_code_flow(c: Ctx, f: Func, call: ast.Call, arg: ast.AST) -> str:
    cfg = c.cfg(f)
    res = solve(cfg, _ValidCodes(), widen_after=10**9)
    owners = [n for n in cfg.owner(call) if res.get(n.id) is not None]
    if not owners:
        return ""
    for n in owners:
        valid = res[n.id]
        # tests that dominate the call inside its own expression (`chr(x) if isValidEntityCode(x) else chr(0xFFFD)`)
        q = f.module.parents.get(call)
        cur: ast.AST = call
        extra = set()
        while q is not None and not isinstance(q, ast.stmt):
            if isinstance(q, ast.IfExp) and cur is not q.test:
                t, neg = q.test, False
                while isinstance(t, ast.UnaryOp) and isinstance(t.op, ast.Not):
                    t, neg = t.operand, not neg
                if isinstance(t, ast.Call) and U(t.func).split(".")[-1] == "isValidEntityCode" and len(t.args) == 1 and isinstance(t.args[0], ast.Name):
                    if (cur is q.body) != neg:
                        extra.add(t.args[0].id)
            cur, q = q, f.module.parents.get(q)
        if not _valid_code_expr(arg, frozenset(valid) | extra):
            return ""
    return "on every path the value is validated by isValidEntityCode or replaced by an in-range literal (valid-code dataflow)"


def _origin_ord(c: Ctx, f: Func, call: ast.Call, arg: ast.AST, depth: int = 0) -> str:
    if depth > 3:
        return ""
    if isinstance(arg, ast.Call):
        name = U(arg.func).split(".")[-1]
        if name in ("ord", "charCodeAt"):
            return f"value is the ordinal of an existing character ({name})"
        cs = c.cg.site_of.get(arg)
        if cs is not None and cs.callees and cs.kind in ("direct", "method") and depth < 3:
            # a helper of the repository: every value it returns must have such an origin
            hows = []
            for g in cs.callees:
                rets = [n for n in own_nodes(g.node) if isinstance(n, ast.Return) and n.value is not None]
                if not rets:
                    return ""
                for rt in rets:
                    h = _origin_ord(c, g, rt, rt.value, depth + 1)
                    if not h:
                        return ""
                    hows.append(h)
            return f"every return value of {cs.callees[0].short}: " + " / ".join(sorted(set(hows)))[:120]
        return ""
    if isinstance(arg, ast.Constant) and isinstance(arg.value, int) and 0 <= arg.value <= 0x10FFFF:
        return "constant"
    if isinstance(arg, ast.Attribute) and arg.attr == "marker" and c.tf.scope(f).type(arg.value) == "Delimiter":
        # Delimiter.marker is written only from ord(...)
        for g in c.p.all_funcs():
            for n in own_nodes(g.node):
                if isinstance(n, ast.Call) and c.cg.site_of.get(n) is not None and c.cg.site_of[n].kind == "ctor" \
                        and c.cg.site_of[n].detail == "Delimiter":
                    mk = next((k.value for k in n.keywords if k.arg == "marker"), n.args[0] if n.args else None)
                    if mk is None or not _origin_ord(c, g, n, mk, depth + 1):
                        return ""
        return "Delimiter.marker is constructed only from ord(...) values"
    if isinstance(arg, ast.Name):
        rd = Reaching(c.cfg(f))
        ds = rd.at_ast(call, arg.id)
        if not ds:
            return ""
        hows = []
        for d in ds:
            if d.kind == "param" and c.internal_helper(f):
                # a helper's parameter: the argument at every call site
                sites = c.cg.callers.get(f, [])
                if not sites or any(x.kind not in ("direct", "method") for x in sites):
                    return ""
                for x in sites:
                    a_ = c.eff.arg_for_param(x, f, arg.id)
                    h = _origin_ord(c, x.caller, x.node, a_, depth + 1) if a_ is not None else ""
                    if not h:
                        return ""
                    hows.append(h)
                continue
            if d.kind != "assign" or d.value is None:
                return ""
            h = _origin_ord(c, f, call, d.value, depth + 1)
            if not h:
                return ""
            hows.append(h)
        return "every reaching definition: " + " / ".join(sorted(set(hows)))
    if isinstance(arg, ast.Constant) and arg.value is None:
        return "None (the conversion is guarded by an `is not None` test: checked at the chr site)"
    if isinstance(arg, ast.IfExp):
        a_, b_ = _origin_ord(c, f, call, arg.body, depth + 1), _origin_ord(c, f, call, arg.orelse, depth + 1)
        return f"{a_} / {b_}" if a_ and b_ else ""
    return ""


# ------------------------------------------------------------------------------------------------ INT / UNIPRED
UNI_PREDS = {"isdigit", "isdecimal", "isnumeric", "isalpha", "isalnum", "isspace", "isupper", "islower", "istitle", "isidentifier", "isprintable",
             }
UNI_SPLIT = {"splitlines"}
_POSITIVE = "def f(state, pos):\n    ch = state.src[pos]\n    if ch.isdigit():\n        return int(ch)\n    return -1\n"


def _uni_pred_calls(fn: ast.AST, names: set[str] = UNI_PREDS) -> list[ast.Call]:
    return [n for n in ast.walk(fn) if isinstance(n, ast.Call) and isinstance(n.func, ast.Attribute) and n.func.attr in names
            and (not n.args or n.func.attr == "splitlines")]


def rule_unisplit(c: Ctx) -> RuleResult:
    r = RuleResult("UNISPLIT", "source text is split into lines at LF only: no Unicode-aware `str.splitlines()` (which also splits at VT, FF, "
                               "FS, GS, RS, NEL, U+2028, U+2029) is applied to the source in the parse phase")
    planted = _uni_pred_calls(ast.parse("def f(state):\n    return state.src.splitlines()\n"), UNI_SPLIT)
    if len(planted) != 1:
        raise AnchorError("UNISPLIT self-example did not match: the lint is broken")
    r.add("self-example", "<built-in>", "-", "state.src.splitlines()", "discharged", "trivial: the planted positive example is recognised (the lint is alive)")
    nf = 0
    for f in sorted(c.cg.parse_phase(), key=lambda x: x.qual):
        nf += 1
        rd0 = None
        for call in _uni_pred_calls(f.node, UNI_SPLIT):
            if not any(x is call for x in own_nodes(f.node)):
                continue
            rd0 = rd0 or Reaching(c.cfg(f))
            if not _is_source_text(c, f, call.func.value, call, rd0):
                continue
            r.add(f"{f.short}|splitlines|{alpha(f, call)}", c.where(f, call), f.short, U(call)[:70], "violation",
                  "`.splitlines()` on source text also breaks lines at VT, FF, FS/GS/RS, NEL, U+2028 and U+2029, which normalisation leaves "
                  "alone: line numbers (maps), line structure and single-line text change for inputs containing them")
    r.functions = nf
    r.add("scan", "markdown_it:0", "-", f"{nf} functions of the parse phase scanned", "discharged", "no Unicode-aware line splitting of source text")
    r.floor = 2
    return r


def _is_source_text(c: Ctx, f: Func, e: ast.AST, at: ast.AST, rd: Reaching, depth: int = 0) -> bool:
    """Does e denote (a character / slice of) the source text - as opposed to a decoded or computed string?"""
    if depth > 4:
        return False
    if isinstance(e, ast.Attribute) and e.attr == "src":
        return c.tf.scope(f).type(e.value) in ("StateBlock", "StateInline", "StateCore")
    if isinstance(e, ast.Subscript):
        return _is_source_text(c, f, e.value, at, rd, depth + 1)
    if isinstance(e, ast.Name):
        ds = rd.at_ast(at, e.id)
        if not ds:
            return False
        for d in ds:
            if d.kind == "param":
                # a str parameter named like the scanners' source argument
                if e.id in ("src", "string") and c.tf.scope(f).type(e) == "str":
                    continue
                return False
            if d.kind == "for" and isinstance(d.stmt, ast.For):
                it = d.stmt.iter
                if isinstance(it, ast.Call) and U(it.func) == "enumerate" and it.args:
                    it = it.args[0]
                if not _is_source_text(c, f, it, d.stmt.iter, rd, depth + 1):
                    return False
                continue
            if d.value is None or not _is_source_text(c, f, d.value, d.stmt, rd, depth + 1):
                return False
        return True
    if isinstance(e, ast.Call) and isinstance(e.func, ast.Attribute) and e.func.attr in ("getLines",):
        return True
    return False


def _digit_group_ok(pattern: str) -> bool:
    """Every character class / literal inside the pattern's capturing groups is a hex digit or an x marker."""
    import re._parser as sp          # type: ignore[import-not-found]
    ok = True
    hexd = set("0123456789abcdefABCDEFxX")

    def walk(seq, inside: bool) -> None:
        nonlocal ok
        for op, av in seq:
            name = str(op)
            if name == "SUBPATTERN":
                walk(av[3], True)
            elif name == "BRANCH":
                for alt in av[1]:
                    walk(alt, inside)
            elif name in ("MAX_REPEAT", "MIN_REPEAT"):
                walk(av[2], inside)
            elif name == "IN" and inside:
                for (k, v) in av:
                    if str(k) == "LITERAL" and chr(v) not in hexd:
                        ok = False
                    elif str(k) == "RANGE" and not all(chr(x) in hexd for x in range(v[0], v[1] + 1)):
                        ok = False
                    elif str(k) in ("CATEGORY", "NEGATE"):
                        ok = False
            elif name == "LITERAL" and inside and chr(av) not in hexd:
                ok = False
            elif name in ("ANY", "CATEGORY") and inside:
                ok = False
    walk(sp.parse(pattern), False)
    return ok


def rule_intarg(c: Ctx) -> RuleResult:
    r = RuleResult("INT", "the text handed to int() consists of ASCII (hex) digits: it is a group of a digit-class regex, or a source slice "
                          "delimited by code-point range tests - no Unicode-aware str predicate (isdigit, isspace ...) classifies source "
                          "characters anywhere in the parse phase")
    # positive example: the lint must fire on a planted use
    planted = _uni_pred_calls(ast.parse(_POSITIVE))
    if len(planted) != 1:
        raise AnchorError("UNIPRED self-example did not match: the lint is broken")
    r.add("self-example", "<built-in>", "-", "ch.isdigit()", "discharged", "trivial: the planted positive example is recognised (the lint is alive)")
    regexes = {(m.rel, name): (pat, flags) for (m, name, pat, flags, node) in c.p.regex_constants() if name}
    for f in sorted(c.cg.parse_phase(), key=lambda x: x.qual):
        rd0 = None
        for call in _uni_pred_calls(f.node):
            if c.p.func_of_node.get(f.node) is not f or not any(x is call for x in own_nodes(f.node)):
                continue
            recv_t = c.tf.scope(f).type(call.func.value)
            if recv_t not in ("str", None):
                continue
            rd0 = rd0 or Reaching(c.cfg(f))
            if not _is_source_text(c, f, call.func.value, call, rd0):
                continue          # a decoded / computed string, not characters of the source
            r.add(f"{f.short}|unipred|{alpha(f, call)}", c.where(f, call), f.short, U(call), "violation",
                  f"`.{call.func.attr}()` classifies by Unicode category ('²'.isdigit() is True, '\\x1c'.isspace() is True): the rules' grammar "
                  f"is defined on ASCII classes, and a character admitted here reaches code that assumes ASCII (int() raises ValueError)")
        rd = None
        for call in own_nodes(f.node):
            if not (isinstance(call, ast.Call) and isinstance(call.func, ast.Name) and call.func.id == "int" and call.args):
                continue
            if c.tf.scope(f).is_local("int"):
                continue
            arg = call.args[0]
            rd = rd or Reaching(c.cfg(f))
            key = f"{f.short}|int|{alpha(f, call)[:60]}"
            from .partial_rules import _in_try
            if _in_try(f, call, {"ValueError"}):
                r.add(key, c.where(f, call), f.short, U(call)[:70], "discharged", "inside a try whose handler catches ValueError")
                continue
            how = _int_source(c, f, arg, call, rd, regexes)
            if how.startswith("!"):
                r.add(key, c.where(f, call), f.short, U(call)[:70], "violation",
                      f"int() of {how[1:]}: a non-digit reaching int() raises ValueError out of parse()")
            else:
                r.add(key, c.where(f, call), f.short, U(call)[:70], "discharged", how)
    r.floor = 4
    return r


def _flag_consistent_defs(c: Ctx, f: Func, ds, use_at: ast.AST) -> list:
    """Reaching definitions that can actually be live at `use_at`: when the use sits in one arm of a conditional on a stable
    flag (`x if numeric else y`, `if numeric: ...`), definitions made in the *other* arm of an `if` on the same flag are not
    (`if numeric: m = A.search(..) else: m = B.search(..)` ... `f(m) if numeric else g(m)`)."""
    ds = list(ds)
    parents = f.module.parents
    # polarity of single-name tests known at the use
    known: dict[str, bool] = {}
    q, ch = parents.get(use_at), use_at
    while q is not None and q is not f.node:
        test, arm = None, None
        if isinstance(q, ast.IfExp):
            test, arm = q.test, (True if ch is q.body else False if ch is q.orelse else None)
        elif isinstance(q, ast.If):
            test, arm = q.test, (True if any(ch is x for x in q.body) else False if any(ch is x for x in q.orelse) else None)
        if test is not None and arm is not None:
            neg = False
            while isinstance(test, ast.UnaryOp) and isinstance(test.op, ast.Not):
                test, neg = test.operand, not neg
            if isinstance(test, ast.Name) and _flag_stable(c, f, test, None, use_at):
                known[test.id] = arm != neg
        ch, q = q, parents.get(q)
    if not known:
        return ds
    out = []
    for d in ds:
        live = True
        q, ch = parents.get(d.stmt) if d.stmt is not None else None, d.stmt
        while q is not None and q is not f.node and live:
            if isinstance(q, ast.If):
                test, neg = q.test, False
                while isinstance(test, ast.UnaryOp) and isinstance(test.op, ast.Not):
                    test, neg = test.operand, not neg
                arm = True if any(ch is x for x in q.body) else False if any(ch is x for x in q.orelse) else None
                if isinstance(test, ast.Name) and test.id in known and arm is not None and (arm != neg) != known[test.id]:
                    live = False
            ch, q = q, parents.get(q)
        if live:
            out.append(d)
    return out or ds


def _flag_stable(c: Ctx, f: Func, test: ast.AST, def_stmt: ast.AST | None, use_at: ast.AST) -> bool:
    """The names the selecting test mentions have one definition each in the function (so the test has the same value where the
    pattern was selected and where the match is used)."""
    for x in ast.walk(test):
        if isinstance(x, ast.Name):
            stores = [n for n in own_nodes(f.node) if isinstance(n, ast.Name) and n.id == x.id and isinstance(n.ctx, ast.Store)]
            if len(stores) > 1:
                return False
        elif isinstance(x, (ast.Call, ast.Attribute, ast.Subscript)):
            return False
    return True


def _int_source(c: Ctx, f: Func, e: ast.AST, at: ast.AST, rd: Reaching, regexes: dict, depth: int = 0, use_at: ast.AST | None = None) -> str:
    use_at = use_at or at          # where the value is consumed (conditions known there select among alternatives)
    if depth > 5:
        return "!a value whose provenance is too deep to follow"
    if isinstance(e, ast.Subscript):
        base = e.value
        if isinstance(base, ast.Attribute) and base.attr == "src":
            # slice of the source: delimited by a scanner; that scanner must use code-point range tests (no Unicode predicate is
            # allowed anywhere in the phase - checked above)
            return "a source slice delimited by code-point range tests (no Unicode-aware predicate in the phase)"
        return _int_source(c, f, base, at, rd, regexes, depth + 1, use_at)
    if isinstance(e, ast.Call) and isinstance(e.func, ast.Attribute) and e.func.attr == "group":
        m = e.func.value
        if isinstance(m, ast.Name):
            for d in _flag_consistent_defs(c, f, rd.at_ast(at, m.id), use_at):
                v = d.value
                if v is None or not (isinstance(v, ast.Call) and isinstance(v.func, ast.Attribute) and isinstance(v.func.value, (ast.Name, ast.IfExp))):
                    return f"!group of `{m.id}`, which is not the result of a module-level compiled pattern"
                recv_ = v.func.value
                cands = [recv_.id] if isinstance(recv_, ast.Name) else ["?"]
                if regexes.get((f.module.rel, cands[0])) is None:
                    # pattern = RE_A if flag else RE_B (or the conditional used directly as the receiver): the alternative selected
                    # by what is known about the flag where int() runs
                    ie_ = recv_ if isinstance(recv_, ast.IfExp) else None
                    if ie_ is None:
                        pds = [x for x in rd.at_ast(d.stmt, cands[0])] if d.stmt is not None else []
                        if len(pds) == 1 and pds[0].kind == "assign" and isinstance(pds[0].value, ast.IfExp):
                            ie_ = pds[0].value
                    if ie_ is not None and isinstance(ie_.body, ast.Name) and isinstance(ie_.orelse, ast.Name) \
                            and _flag_stable(c, f, ie_.test, d.stmt, use_at):
                        ie = ie_
                        fcfg, fres = c.facts(f)
                        known = None
                        for nd in fcfg.owner(use_at):
                            z = fres.get(nd.id)
                            if z is None:
                                continue
                            rt_ = next((x for x in CFG.roots(nd) if any(y is use_at for y in ast.walk(x))), nd.ast)
                            z = expr_local(z, use_at, rt_, f.module.parents) if rt_ is not None else z
                            from ..facts import norm_pred
                            t_, pol_ = norm_pred(ie.test, True)
                            k_ = True if z.holds(t_, pol_) else (False if z.holds(t_, not pol_) else None)
                            known = k_ if known is None or known == k_ else "mixed"
                        if known is True:
                            cands = [ie.body.id]
                        elif known is False:
                            cands = [ie.orelse.id]
                        else:
                            cands = [ie.body.id, ie.orelse.id]
                for cn_ in cands:
                    rx = regexes.get((f.module.rel, cn_))
                    if rx is None:
                        return f"!group of a match against `{cn_}`, which is not a foldable regex constant"
                    if not _digit_group_ok(rx[0]):
                        return f"!group of `{cn_}` = /{rx[0]}/, whose groups admit characters other than hex digits"
            return "group of a regex constant whose groups admit only (hex) digits"
        return "!a regex group whose match object cannot be traced"
    if isinstance(e, ast.Name):
        ds = rd.at_ast(at, e.id)
        if not ds:
            return f"!`{e.id}` (no reaching definition)"
        outs = []
        for d in ds:
            if d.kind == "param":
                # a helper's parameter: judged on the actual argument at every call site
                sites = [x for x in c.cg.callers.get(f, []) if x.kind in ("direct", "method")]
                if not sites or len(sites) != len(c.cg.callers.get(f, [])):
                    return f"!`{e.id}`, a parameter of a function that is not only called directly"
                for x in sites:
                    a_ = c.eff.arg_for_param(x, f, e.id)
                    if a_ is None:
                        return f"!`{e.id}`, a parameter whose argument cannot be identified at {x.caller.short}"
                    o = _int_source(c, x.caller, a_, x.node, Reaching(c.cfg(x.caller)), regexes, depth + 1)
                    if o.startswith("!"):
                        return o
                    outs.append(o + f" (argument at the call in {x.caller.short})")
                continue
            if d.value is None or d.kind not in ("assign", "walrus"):
                return f"!`{e.id}`, bound by {d.kind}"
            o = _int_source(c, f, d.value, d.stmt, rd, regexes, depth + 1, use_at)
            if o.startswith("!"):
                return o
            outs.append(o)
        return outs[0]
    if isinstance(e, ast.IfExp):
        a = _int_source(c, f, e.body, at, rd, regexes, depth + 1, use_at)
        b = _int_source(c, f, e.orelse, at, rd, regexes, depth + 1, use_at)
        return a if a.startswith("!") else b
    if isinstance(e, ast.Call):
        # a private helper that returns the digits: every value it returns must have such a source
        cs = c.cg.site_of.get(e)
        if cs is not None and len(cs.callees) == 1 and cs.kind in ("direct", "method"):
            g = cs.callees[0]
            rets = [n for n in own_nodes(g.node) if isinstance(n, ast.Return) and n.value is not None]
            if rets:
                grd = Reaching(c.cfg(g))
                outs2 = []
                for rt in rets:
                    o = _int_source(c, g, rt.value, rt, grd, regexes, depth + 1)
                    if o.startswith("!"):
                        return o
                    outs2.append(o)
                return outs2[0] + f" (returned by {g.short})"
    return f"!`{U(e)[:40]}`"


# ------------------------------------------------------------------------------------------------ DEF
FALSY = (None, False, 0, "", ())


def _truthiness(e: ast.AST) -> bool | None:
    """Constant truthiness of a flag-setting expression (None = not a constant-like expression)."""
    if isinstance(e, ast.Constant):
        return bool(e.value)
    if isinstance(e, ast.IfExp):
        a, b = _truthiness(e.body), _truthiness(e.orelse)
        return a if a is not None and a == b else None
    if isinstance(e, (ast.List, ast.Dict, ast.Tuple, ast.Set)):
        n = len(e.elts) if not isinstance(e, ast.Dict) else len(e.keys)
        return n > 0
    return None


_TRUTH = "<truth>"
_OTHER = ("o",)
_CANON = {ast.Eq: ("==", True), ast.NotEq: ("==", False), ast.Is: ("==", True), ast.IsNot: ("==", False),
          ast.Lt: ("<", True), ast.GtE: ("<", False), ast.Gt: (">", True), ast.LtE: (">", False)}
_FLIP = {ast.Lt: ast.Gt, ast.Gt: ast.Lt, ast.LtE: ast.GtE, ast.GtE: ast.LtE}
_PYOP = {"==": lambda a, b: a == b, "<": lambda a, b: a < b, ">": lambda a, b: a > b}


def _flag_test(test: ast.AST, truth: bool):
    """(flag name, key, constant operand, polarity) for a test that depends on one local name and constants only:
    `x`, `not x`, `x <op> const`, `const <op> x`.  key is the canonical predicate text, polarity says whether the predicate
    holds on the edge taken."""
    while isinstance(test, ast.UnaryOp) and isinstance(test.op, ast.Not):
        test, truth = test.operand, not truth
    if isinstance(test, ast.Name):
        return test.id, _TRUTH, None, truth
    if isinstance(test, ast.Compare) and len(test.ops) == 1:
        l, op, r = test.left, test.ops[0], test.comparators[0]
        if isinstance(l, ast.Constant) and isinstance(r, ast.Name):
            l, r = r, l
            op = _FLIP.get(type(op), type(op))()
        if isinstance(l, ast.Name) and isinstance(r, ast.Constant) and type(op) in _CANON:
            sym, pol = _CANON[type(op)]
            return l.id, f"{sym} {r.value!r}", (sym, r.value), truth if pol else not truth
        if isinstance(l, ast.Name) and isinstance(r, ast.UnaryOp) and isinstance(r.op, ast.USub) and isinstance(r.operand, ast.Constant) \
                and isinstance(r.operand.value, (int, float)) and type(op) in _CANON:
            sym, pol = _CANON[type(op)]
            return l.id, f"{sym} {-r.operand.value!r}", (sym, -r.operand.value), truth if pol else not truth
    return None


def _class_of(value: ast.AST | None):
    """Origin class of an assigned value: a constant, a value of known truthiness, or `other`."""
    if value is None:
        return _OTHER
    if isinstance(value, ast.Constant):
        return ("c", repr(value.value), value.value)
    if isinstance(value, ast.UnaryOp) and isinstance(value.op, ast.USub) and isinstance(value.operand, ast.Constant) \
            and isinstance(value.operand.value, (int, float)):
        return ("c", repr(-value.operand.value), -value.operand.value)
    t = _truthiness(value)
    if t is not None:
        return ("p", _TRUTH, t)
    return _OTHER


def _eval_class(k, key: str, operand) -> bool | None:
    """Does the predicate `key` hold of a value of origin class k?  None = unknown."""
    if k[0] == "c":
        v = k[2]
        try:
            if key == _TRUTH:
                return bool(v)
            sym, cv = operand
            if sym == "==":
                return (v is None) == (cv is None) and v == cv if (v is None or cv is None) else (type(v) is type(cv) or
                        isinstance(v, (int, float)) and isinstance(cv, (int, float))) and v == cv
            return bool(_PYOP[sym](v, cv))
        except TypeError:
            return None
    if k[0] == "p":
        if k[1] == key:
            return k[2]
        # truthy values are not None; a value equal to None is falsy
        if k[1] == _TRUTH and k[2] is True and key == "== None":
            return False
        if k[1] == "== None" and k[2] is True and key == _TRUTH:
            return False
    return None


class _DefProblem(Problem):
    """Definite assignment with origin classes.

    State: (D, I, K).  D = names definitely assigned.  K = set of (flag, class): the classes the flag's current value may
    have originated from (a constant, an unknown value refined by a test on it, or `other`).  I = set of (flag, class, name):
    whenever the flag's current value is of that class, `name` is assigned.  A test on the flag removes the classes the test
    excludes (an edge with no class left is infeasible) and adds the names implied by every remaining class.  At a join an
    implication survives if each side has it, has the name assigned outright, or cannot have the flag in that class."""

    def __init__(self, cfg: CFG, params: list[str], flags: set[str]) -> None:
        self.cfg, self.params, self.flags = cfg, params, flags

    def entry_state(self):
        return (frozenset(self.params), frozenset(), frozenset())

    def join(self, a, b, at):
        da, ia, ka = a
        db, ib, kb = b
        d = da & db
        k = ka | kb
        names = ((da | db) - d) | {nm for (_, _, nm) in ia} | {nm for (_, _, nm) in ib}
        names -= d
        imp = set()
        for (fl, cl) in k:
            in_a, in_b = (fl, cl) in ka, (fl, cl) in kb
            for nm in names:
                if (not in_a or nm in da or (fl, cl, nm) in ia) and (not in_b or nm in db or (fl, cl, nm) in ib):
                    imp.add((fl, cl, nm))
        return (d, frozenset(imp), k)

    def equal(self, a, b):
        return a == b

    def _assign(self, st, name: str, value: ast.AST | None, stmt: ast.AST | None = None):
        d, imp, k = st
        d = d | {name}
        if any(nm == name for (_, _, nm) in imp):
            imp = frozenset(x for x in imp if x[2] != name)
        if name in self.flags:
            imp = frozenset(x for x in imp if x[0] != name)
            k = frozenset(x for x in k if x[0] != name) | {(name, _class_of(value))}
        return (d, imp, k)

    def _assume(self, st, test: ast.AST, truth: bool):
        d, imp, k = st
        ft = _flag_test(test, truth)
        if ft is None or ft[0] not in self.flags:
            return st
        flag, key, operand, pol = ft
        mine = [cl for (fl, cl) in k if fl == flag]
        if not mine:
            return st
        keep: dict = {}
        for cl in mine:
            ev = _eval_class(cl, key, operand)
            if ev is not None and ev != pol:
                continue
            keep[cl] = ("p", key, pol) if cl == _OTHER else cl
        if not keep:
            return None               # no origin class of the flag satisfies the test on this edge: infeasible
        k2 = frozenset(x for x in k if x[0] != flag) | {(flag, new) for new in keep.values()}
        imp2 = set(x for x in imp if x[0] != flag)
        per_new: dict = {}
        for old, new in keep.items():
            got = {nm for (fl, cl, nm) in imp if fl == flag and cl == old}
            per_new[new] = per_new[new] & got if new in per_new else got
        for new, got in per_new.items():
            for nm in got:
                imp2.add((flag, new, nm))
        implied = None
        for got in per_new.values():
            implied = got if implied is None else implied & got
        return (d | (implied or set()), frozenset(imp2), k2)

    def edge(self, n: Node, state, label: str, succ: Node):
        st = state
        a = n.ast
        if a is None:
            return st
        for root in CFG.roots(n):
            for e in ast.walk(root):
                if isinstance(e, ast.NamedExpr) and isinstance(e.target, ast.Name):
                    st = self._assign(st, e.target.id, e.value)
        if n.kind == "test":
            if label in ("T", "F"):
                return self._assume(st, a, label == "T")
            return st
        if label == "exc":
            return state
        if n.kind == "stmt":
            if isinstance(a, ast.Assign):
                for t in a.targets:
                    for x in ast.walk(t):
                        if isinstance(x, ast.Name) and isinstance(x.ctx, ast.Store):
                            st = self._assign(st, x.id, a.value if isinstance(t, ast.Name) else None, a)
            elif isinstance(a, ast.AnnAssign):
                if a.value is not None and isinstance(a.target, ast.Name):
                    st = self._assign(st, a.target.id, a.value)
            elif isinstance(a, ast.AugAssign):
                if isinstance(a.target, ast.Name):
                    st = self._assign(st, a.target.id, None)
            elif isinstance(a, (ast.FunctionDef, ast.AsyncFunctionDef, ast.ClassDef)):
                st = self._assign(st, a.name, None)
            elif isinstance(a, (ast.Import, ast.ImportFrom)):
                for al in a.names:
                    st = self._assign(st, (al.asname or al.name).split(".")[0], None)
            elif isinstance(a, ast.Delete):
                d, imp, k = st
                for t in a.targets:
                    if isinstance(t, ast.Name):
                        d = d - {t.id}
                        imp = frozenset(x for x in imp if x[2] != t.id)
                st = (d, imp, k)
        elif n.kind == "for" and label == "iter":
            for x in ast.walk(a.target):
                if isinstance(x, ast.Name):
                    st = self._assign(st, x.id, None)
        elif n.kind == "with":
            for it in a.items:
                if it.optional_vars is not None:
                    for x in ast.walk(it.optional_vars):
                        if isinstance(x, ast.Name):
                            st = self._assign(st, x.id, None)
        elif n.kind == "except":
            if getattr(a, "name", None):
                st = self._assign(st, a.name, None)
        return st


def _tested_flags(fn: ast.AST, stored: set[str]) -> set[str]:
    """Locals that some test of the function examines on their own (`x`, `not x`, `x <op> const`)."""
    out: set[str] = set()
    def tests(e: ast.AST):
        if isinstance(e, ast.BoolOp):
            for v in e.values:
                yield from tests(v)
        elif isinstance(e, ast.UnaryOp) and isinstance(e.op, ast.Not):
            yield from tests(e.operand)
        else:
            yield e
    for n in own_nodes(fn):
        t = None
        if isinstance(n, (ast.If, ast.While, ast.IfExp, ast.Assert)):
            t = n.test
        if t is None:
            continue
        for e in tests(t):
            ft = _flag_test(e, True)
            if ft is not None and ft[0] in stored:
                out.add(ft[0])
    return out


_ADJ = ("read only when the character at the cursor is a tab (`ch == '\\t'` inside `isStrSpace(ch)`, ch = src[pos]); on the only "
        "path that leaves it unassigned the character at the same, unmoved cursor was tested to be neither ' ' nor '\\t', so "
        "the scan loop breaks before the read")


def _is_const_eq(t: ast.AST, name: str | None = None) -> tuple[str, str, bool] | None:
    """`<name> == '<c>'` -> (name, c, True);  `<name> != '<c>'` -> (name, c, False)"""
    if isinstance(t, ast.Compare) and len(t.ops) == 1 and isinstance(t.ops[0], (ast.Eq, ast.NotEq)) and isinstance(t.left, ast.Name) \
            and isinstance(t.comparators[0], ast.Constant) and isinstance(t.comparators[0].value, str):
        if name is None or t.left.id == name:
            return (t.left.id, t.comparators[0].value, isinstance(t.ops[0], ast.Eq))
    return None


def _eq_arms(i: ast.If, name: str | None = None):
    """(name, constant, statements run when equal, statements run when different) of `if name ==/!= const`."""
    ce = _is_const_eq(i.test, name)
    if ce is None:
        return None
    return (ce[0], ce[1], i.body, i.orelse) if ce[2] else (ce[0], ce[1], i.orelse, i.body)


def _tab_flag_exempt(f: Func, ld: ast.Name) -> bool:
    """The reviewed shape of the blockquote tab flag, stated structurally (robust to renaming, loop form, inverted tests and
    extraction into a helper):

      d = S[p]                       (possibly in try/except IndexError -> None)
      if d == ' ': ...X = ..   elif d == '\t': ...X = .. on every path   else: <no store to p, no X>
      <no store to p>
      loop:  c = S[p];  if isStrSpace(c): (if c == '\t': ... X ...) ...  else: break;   p += 1

    Every read of X is inside the `c == '\t'` arm; every store of X is inside the chain on d."""
    if f.module.rel != "rules_block/blockquote.py":
        return False
    parents = f.module.parents
    X = ld.id
    # -- the read: inside the equal arm of `c == '\t'` inside `if isStrSpace(c) ... else: break` inside a loop starting with c = S[p]
    n: ast.AST = ld
    tab_if = sp_if = loop = None
    cname = None
    while n in parents and n is not f.node:
        par = parents[n]
        if isinstance(par, ast.If):
            arms = _eq_arms(par)
            if tab_if is None and arms and arms[1] == "\t" and n in arms[2]:
                tab_if, cname = par, arms[0]
            elif tab_if is not None and sp_if is None:
                t, body, other = par.test, par.body, par.orelse
                if isinstance(t, ast.UnaryOp) and isinstance(t.op, ast.Not):
                    t, body, other = t.operand, par.orelse, par.body
                if isinstance(t, ast.Call) and U(t.func).split(".")[-1] == "isStrSpace" and len(t.args) == 1 \
                        and isinstance(t.args[0], ast.Name) and t.args[0].id == cname and n in body \
                        and other and isinstance(other[-1], ast.Break):
                    sp_if = par
        elif isinstance(par, (ast.While, ast.For)) and sp_if is not None and loop is None and n in par.body:
            loop = par
        n = par
    if tab_if is None or sp_if is None or loop is None:
        return False
    first = loop.body[0]
    if not (isinstance(first, ast.Assign) and len(first.targets) == 1 and isinstance(first.targets[0], ast.Name)
            and first.targets[0].id == cname and isinstance(first.value, ast.Subscript) and isinstance(first.value.slice, ast.Name)):
        return False
    S, pname = U(first.value.value), first.value.slice.id
    # -- the stores of X: all inside one if/elif chain on d == ' ' / d == '\t' that precedes the loop in the same block
    blk = None
    for b in _blocks(f.node):
        if loop in b:
            blk = b
    if blk is None:
        return False
    li = blk.index(loop)
    chain = None
    for st in reversed(blk[:li]):
        if isinstance(st, ast.If) and _eq_arms(st):
            chain = st
            break
    if chain is None:
        return False
    ci = blk.index(chain)
    dname = _eq_arms(chain)[0]           # type: ignore[index]
    consts: list[str] = []
    cur: ast.If = chain
    else_body: list[ast.stmt] = []

    def must_assign(stmts: list[ast.stmt]) -> bool:
        for st_ in stmts:
            if isinstance(st_, ast.Assign) and any(isinstance(t, ast.Name) and t.id == X for t in st_.targets):
                return True
            if isinstance(st_, ast.AnnAssign) and isinstance(st_.target, ast.Name) and st_.target.id == X and st_.value is not None:
                return True
            if isinstance(st_, ast.If) and st_.orelse and must_assign(st_.body) and must_assign(st_.orelse):
                return True
        return False
    while True:
        arms = _eq_arms(cur, dname)
        if arms is None or not must_assign(arms[2]):
            return False
        consts.append(arms[1])
        orelse = arms[3]
        if len(orelse) == 1 and isinstance(orelse[0], ast.If) and _eq_arms(orelse[0], dname):
            cur = orelse[0]
            continue
        else_body = orelse
        break
    if set(consts) != {" ", "\t"}:
        return False
    # every store of X lies inside the chain; the unassigned arm (else) and the statements up to the loop do not move p
    for x in own_nodes(f.node):
        if isinstance(x, ast.Name) and x.id == X and isinstance(x.ctx, ast.Store):
            q: ast.AST = x
            inside = False
            while q in parents:
                q = parents[q]
                if q is chain:
                    inside = True
                    break
                if q is loop:
                    break
            if not inside and not _in_other_chain(f, x, loop):
                return False
    for st in list(else_body) + blk[ci + 1:li]:
        for x in ast.walk(st):
            if isinstance(x, ast.Name) and x.id in (pname, dname) and isinstance(x.ctx, ast.Store):
                return False
    # d = S[p] just before the chain (directly or in a try whose handler sets d = None)
    ok_d = False
    for st in reversed(blk[:ci]):
        for x in ast.walk(st):
            if isinstance(x, (ast.Assign, ast.AnnAssign)):
                tg = x.targets[0] if isinstance(x, ast.Assign) else x.target
                if isinstance(tg, ast.Name) and tg.id == dname and x.value is not None:
                    if isinstance(x.value, ast.Subscript) and U(x.value.value) == S and isinstance(x.value.slice, ast.Name) \
                            and x.value.slice.id == pname:
                        ok_d = True
                    elif not (isinstance(x.value, ast.Constant) and x.value.value is None):
                        return False
        if ok_d:
            break
        if any(isinstance(x, ast.Name) and x.id == pname and isinstance(x.ctx, ast.Store) for x in ast.walk(st)):
            return False
    return ok_d


def _in_other_chain(f: Func, x: ast.AST, loop: ast.AST) -> bool:
    """A store of the flag that belongs to another copy of the same construct (the function has one copy for the first line
    and one inside the continuation loop): it is judged when the reads of that copy are examined."""
    parents = f.module.parents
    q = x
    while q in parents:
        q = parents[q]
        if isinstance(q, ast.If) and _is_const_eq(q.test) and _is_const_eq(q.test)[1] in (" ", "\t"):      # type: ignore[index]
            return True
    return False


def rule_def(c: Ctx) -> RuleResult:
    r = RuleResult("DEF", "no local of a parse/render-phase function can be read before assignment (definite assignment with "
                          "flag correlation)")
    for f in sorted(c.cg.api_phase(), key=lambda x: x.qual):
        node = f.node
        a = node.args
        params = [x.arg for x in a.posonlyargs + a.args + a.kwonlyargs] + ([a.vararg.arg] if a.vararg else []) + \
                 ([a.kwarg.arg] if a.kwarg else [])
        comp_bound: dict[int, set[str]] = {}
        stored: set[str] = set()
        declared_global: set[str] = set()
        for n in own_nodes(node):
            if isinstance(n, (ast.Global, ast.Nonlocal)):
                declared_global.update(n.names)
        comps = [n for n in own_nodes(node) if isinstance(n, (ast.ListComp, ast.SetComp, ast.DictComp, ast.GeneratorExp))]
        in_comp: dict[int, set[str]] = {}
        for cp in comps:
            names = {x.id for g in cp.generators for x in ast.walk(g.target) if isinstance(x, ast.Name)}
            for x in ast.walk(cp):
                in_comp.setdefault(id(x), set()).update(names)
        for n in own_nodes(node):
            if isinstance(n, ast.Name) and isinstance(n.ctx, (ast.Store, ast.Del)) and n.id not in in_comp.get(id(n), set()):
                stored.add(n.id)
            elif isinstance(n, (ast.FunctionDef, ast.ClassDef)):
                stored.add(n.name)
        # nested function definitions bind their name in this scope
        for sub in ast.iter_child_nodes(node):
            pass
        for n in ast.walk(node):
            if n is not node and isinstance(n, (ast.FunctionDef, ast.AsyncFunctionDef, ast.ClassDef)) and f.module.parents.get(n) is not None:
                p = f.module.parents.get(n)
                # direct child statement lists only
                q = p
                while q is not None and not isinstance(q, (ast.FunctionDef, ast.AsyncFunctionDef, ast.ClassDef, ast.Lambda)):
                    q = f.module.parents.get(q)
                if q is node:
                    stored.add(n.name)
        locals_ = (stored | set(params)) - declared_global
        loads = [n for n in own_nodes(node) if isinstance(n, ast.Name) and isinstance(n.ctx, ast.Load) and n.id in locals_
                 and n.id not in in_comp.get(id(n), set())]
        if not loads:
            continue
        r.functions += 1
        flags = _tested_flags(node, stored)
        cfg = c.cfg(f)
        res = solve(cfg, _DefProblem(cfg, params, flags), widen_after=10**9)
        seen_keys: set[str] = set()
        for ld in loads:
            owners = cfg.owner(ld)
            bad = False
            for n in owners:
                st = res.get(n.id)
                if st is None:
                    continue
                d = st[0]
                if ld.id in d:
                    continue
                # defined earlier inside the same node (walrus in the same test, or `x = ...; use x` cannot be one node)
                if _defined_within(n, ld):
                    continue
                bad = True
            key = f"{f.short}|{ld.id}"
            if not bad:
                if key not in seen_keys:
                    seen_keys.add(key)
                    r.add(key, c.where(f, ld), f.short, ld.id, "discharged",
                          "trivial: parameter" if ld.id in params else "definitely assigned on every path to each of its reads")
                continue
            if _tab_flag_exempt(f, ld):
                k2 = key + "|exempt"
                if k2 not in seen_keys:
                    seen_keys.add(k2)
                    r.add(key, c.where(f, ld), f.short, ld.id, "exempt", _ADJ)
                continue
            r.add(key + f"|{alpha(f, _stmt_of(f, ld))[:60]}", c.where(f, ld), f.short, ld.id, "violation",
                  f"local `{ld.id}` may be read before assignment on some path to this use (UnboundLocalError)")
    r.floor = 300
    return r


def _def_use_key(f: Func, ld: ast.Name) -> str:
    """Alpha-normalised text of the smallest arithmetic expression around a use (robust to renaming of locals)."""
    p = ld
    while p in f.module.parents and not isinstance(f.module.parents[p], ast.stmt):
        p = f.module.parents[p]
        if isinstance(p, ast.BinOp):
            return alpha(f, p)
    return alpha(f, ld)


def _stmt_of(f: Func, n: ast.AST) -> ast.AST:
    p = n
    while p in f.module.parents and not isinstance(p, ast.stmt):
        p = f.module.parents[p]
    if isinstance(p, (ast.If, ast.While)):
        return p.test
    if isinstance(p, ast.For):
        return p.iter
    return p


def _defined_within(n: Node, ld: ast.Name) -> bool:
    for root in CFG.roots(n):
        for e in ast.walk(root):
            if isinstance(e, ast.NamedExpr) and isinstance(e.target, ast.Name) and e.target.id == ld.id:
                if (e.lineno, e.col_offset) <= (ld.lineno, ld.col_offset):
                    return True
    return False


# ------------------------------------------------------------------------------------------------ RAISE
RAISE_TABLE: dict[tuple[str, str], str] = {
    ("MarkdownIt.parse", "TypeError"): "documented: non-mapping env / non-string source",
    ("MarkdownIt.parseInline", "TypeError"): "documented: non-mapping env / non-string source",
    ("linkify", "ModuleNotFoundError"): "documented: linkify switched on without the optional linkifier",
    ("linkify", "assert"): "core linkify: type narrowing of children lists built by the inline rule (always lists)",
    ("Token.attrJoin", "TypeError"): "attribute values written by the library are str / int literals; join is used on str (class)",
    ("Ruler.getRules", "assert"): "type narrowing after __compile__, which always stores a dict",
    ("replaceAt", "assert"): "index is a match position (non-negative by construction)",
}
ALLOWED_CLASSES = {"TypeError", "ModuleNotFoundError"}


def rule_raise(c: Ctx) -> RuleResult:
    r = RuleResult("RAISE", "the raise / assert statements reachable from parse, render, parseInline, renderInline are the "
                            "documented TypeError / ModuleNotFoundError sites plus a reviewed table")
    for f in sorted(c.cg.api_phase(), key=lambda x: x.qual):
        for n in own_nodes(f.node):
            cls = None
            if isinstance(n, ast.Raise):
                e = n.exc
                if e is None:
                    cls = "re-raise"
                else:
                    cls = U(e.func if isinstance(e, ast.Call) else e).split(".")[-1]
            elif isinstance(n, ast.Assert):
                cls = "assert"
            if cls is None:
                continue
            r.functions += 1
            key = f"{f.short}|{cls}"
            if (f.short, cls) in RAISE_TABLE:
                r.add(key, c.where(f, n), f.short, U(n)[:90], "discharged", "reviewed: " + RAISE_TABLE[(f.short, cls)])
            elif cls in ALLOWED_CLASSES and f.module.rel == "main.py":
                r.add(key, c.where(f, n), f.short, U(n)[:90], "discharged", "documented argument-type error of the public API")
            else:
                r.add(key, c.where(f, n), f.short, U(n)[:90], "violation",
                      f"new `{cls}` site reachable from the public entry points: parse/render may now raise something other "
                      f"than the documented TypeError / ModuleNotFoundError")
    r.floor = 8
    return r


# ------------------------------------------------------------------------------------------------ CLI
def rule_cli(c: Ctx) -> RuleResult:
    r = RuleResult("CLI", "the command-line route decodes file content leniently (errors='ignore'|'replace') inside the try that "
                          "handles OSError")
    f = c.p.func("cli/parse.py:convert_file")
    r.functions = 1
    opens = [n for n in own_nodes(f.node) if isinstance(n, ast.Call) and isinstance(n.func, ast.Name) and n.func.id == "open"]
    if not opens:
        raise AnchorError("cli/parse.py:convert_file no longer opens the file itself")
    for n in opens:
        mode = next((k.value for k in n.keywords if k.arg == "mode"), n.args[1] if len(n.args) > 1 else None)
        binary = isinstance(mode, ast.Constant) and isinstance(mode.value, str) and "b" in mode.value
        err = next((k.value for k in n.keywords if k.arg == "errors"), None)
        # surrogateescape / surrogatepass would smuggle lone surrogates into the text, and printing the result would raise
        ok_err = isinstance(err, ast.Constant) and err.value in ("ignore", "replace", "backslashreplace")
        in_try = False
        p = f.module.parents.get(n)
        child: ast.AST = n
        while p is not None and p is not f.node:
            if isinstance(p, ast.Try) and any(child is s or any(child is y for y in ast.walk(s)) for s in p.body):
                for h in p.handlers:
                    names = [U(x).split(".")[-1] for x in (h.type.elts if isinstance(h.type, ast.Tuple) else [h.type])] if h.type else ["*"]
                    if any(x in ("OSError", "IOError", "Exception", "BaseException", "*", "EnvironmentError") for x in names):
                        in_try = True
            child = p
            p = f.module.parents.get(p)
        if binary:
            r.add("open|decode", c.where(f, n), f.short, U(n), "violation",
                  "file opened in binary mode: decoding moved elsewhere, not recognised")
            continue
        r.add("open|errors", c.where(f, n), f.short, U(n), "discharged" if ok_err else "violation",
              "lenient decoding: errors=" + repr(getattr(err, "value", None)) if ok_err else
              "text-mode open without errors='ignore'/'replace': a non-UTF-8 byte in the file raises UnicodeDecodeError")
        r.add("open|try", c.where(f, n), f.short, U(n), "discharged" if in_try else "violation",
              "inside the try that handles OSError" if in_try else
              "open() outside a handler for OSError: a missing / unreadable file escapes as a traceback")
    _scalar_obligations(c, r)
    r.floor = 3
    return r


_SCALAR_CODECS = {"utf-8", "utf8", "utf_8", "u8", "ascii", "us-ascii", "latin-1", "latin1", "latin_1", "iso-8859-1", "iso8859-1", "cp1252"}


def _scalar_obligations(c: Ctx, r: RuleResult) -> None:
    """What the command line prints is encodable: parse / render build no string with a lone surrogate out of scalar-only
    input.  Code points enter a string through the input, through chr() (CHR), and through *decoders*: a UTF-8 / ASCII /
    Latin decoder (strict, ignore, replace) yields scalar values only; any other codec (punycode, idna, the escape codecs, or
    the surrogateescape / surrogatepass handlers) can yield U+D800..U+DFFF from plain ASCII, and its result must be checked -
    encoded once (which raises on a surrogate) or tested against the surrogate range - on every path before it is returned."""
    n_sites = 0
    for f in sorted(c.p.funcs.values(), key=lambda x: x.qual):
        for call in [n for n in own_nodes(f.node) if isinstance(n, ast.Call)]:
            fn = call.func
            enc: ast.AST | None = None
            errs: ast.AST | None = None
            kind = None
            if isinstance(fn, ast.Attribute) and fn.attr == "decode":
                base = fn.value
                if isinstance(base, ast.Name) and base.id == "codecs" and not c.tf.scope(f).is_local("codecs"):
                    kind = "codecs.decode"
                    enc = next((k.value for k in call.keywords if k.arg == "encoding"), call.args[1] if len(call.args) > 1 else None)
                    errs = next((k.value for k in call.keywords if k.arg == "errors"), call.args[2] if len(call.args) > 2 else None)
                else:
                    r_ = c.p.resolve(f.module, base) if isinstance(base, (ast.Name, ast.Attribute)) else None
                    if isinstance(r_, tuple) and r_[0] == "external":
                        # a third-party module's function that happens to be called decode (mdurl.decode)
                        r.add(f"scalar|{f.short}|{U(fn)}", c.where(f, call), f.short, U(call)[:70], "exempt",
                              f"third-party decoder {r_[1]}.decode: assumed to return scalar values only (mdurl.decode replaces invalid "
                              f"percent-encoded UTF-8, surrogate encodings included, by U+FFFD)")
                        n_sites += 1
                        continue
                    if r_ is not None and not isinstance(r_, tuple):
                        continue          # a module / function of the package named decode: its body is visited on its own
                    kind = "bytes.decode"
                    enc = next((k.value for k in call.keywords if k.arg == "encoding"), call.args[0] if len(call.args) > 0 else None)
                    errs = next((k.value for k in call.keywords if k.arg == "errors"), call.args[1] if len(call.args) > 1 else None)
            elif isinstance(fn, ast.Name) and fn.id == "str" and (len(call.args) >= 2 or any(k.arg == "encoding" for k in call.keywords)):
                kind = "str(bytes, enc)"
                enc = next((k.value for k in call.keywords if k.arg == "encoding"), call.args[1] if len(call.args) > 1 else None)
                errs = next((k.value for k in call.keywords if k.arg == "errors"), call.args[2] if len(call.args) > 2 else None)
            if kind is None:
                continue
            n_sites += 1
            key = f"scalar|{f.short}|{kind}|{U(enc) if enc is not None else 'utf-8'}"
            if errs is not None and not (isinstance(errs, ast.Constant) and errs.value in ("strict", "ignore", "replace", "backslashreplace", "xmlcharrefreplace")):
                r.add(key, c.where(f, call), f.short, U(call)[:70], "violation",
                      f"decoding with errors={U(errs)} can put lone surrogates into the text: printing the rendered result raises UnicodeEncodeError")
                continue
            if enc is None or (isinstance(enc, ast.Constant) and str(enc.value).lower() in _SCALAR_CODECS):
                r.add(key, c.where(f, call), f.short, U(call)[:70], "discharged", "UTF-8 / ASCII / Latin decoder: yields Unicode scalar values only")
                continue
            ok = _surrogate_checked(c, f, call)
            r.add(key, c.where(f, call), f.short, U(call)[:70], "discharged" if ok else "violation",
                  "the decoded text is encoded / tested for surrogates on every path before it leaves the function" if ok else
                  f"the {U(enc)} decoder accepts input that decodes to surrogate code points (U+D800..U+DFFF) and its result leaves the "
                  f"function unchecked: the text reaches tokens and the rendered output, which then cannot be encoded "
                  f"(the command line's print raises UnicodeEncodeError)")
    if n_sites < 2:
        raise AnchorError("no decoder call found in the package (the punycode helper and the URL decoder are expected)")


def _surrogate_checked(c: Ctx, f: Func, call: ast.Call) -> bool:
    """Every path from the statement holding the decoder call to a normal exit passes a statement that encodes the decoded value
    (x.encode(...) with UTF-8, strict) or tests it against the surrogate range."""
    cfg = c.cfg(f)
    owners = cfg.owner(call)
    if not owners:
        return False
    par = f.module.parents.get(call)
    var: str | None = None
    if isinstance(par, (ast.Assign, ast.AnnAssign)) and par.value is call:
        t = par.targets[0] if isinstance(par, ast.Assign) else par.target
        if isinstance(t, ast.Name):
            var = t.id
    if var is None:
        return False

    def is_check(a: ast.AST | None) -> bool:
        if a is None:
            return False
        for n in ast.walk(a):
            if isinstance(n, ast.Call) and isinstance(n.func, ast.Attribute) and n.func.attr == "encode" and isinstance(n.func.value, ast.Name) \
                    and n.func.value.id == var:
                enc = next((k.value for k in n.keywords if k.arg == "encoding"), n.args[0] if n.args else None)
                errs = next((k.value for k in n.keywords if k.arg == "errors"), n.args[1] if len(n.args) > 1 else None)
                if (enc is None or (isinstance(enc, ast.Constant) and "utf" in str(enc.value).lower())) \
                        and (errs is None or (isinstance(errs, ast.Constant) and errs.value == "strict")):
                    return True
        txt = U(a).lower()
        if var in {x.id for x in ast.walk(a) if isinstance(x, ast.Name)} and ("d800" in txt or "55296" in txt or "issurrogate" in txt):
            return True
        return False
    seen: set[int] = set()
    work = []
    for o in owners:
        for (m, lab) in o.succ:
            if lab != "exc":
                work.append(m)
    while work:
        n = work.pop()
        if n.id in seen:
            continue
        seen.add(n.id)
        if n is cfg.exit:
            return False
        if n.kind in ("stmt", "test") and is_check(n.ast):
            # the check raises (encode) or branches (test): either way the unchecked value does not pass silently
            continue
        for (m, lab) in n.succ:
            if lab != "exc":
                work.append(m)
    return True
