"""C16 rule families: ENV (the caller's env object reaches the rules by identity), REFKEY (the reference table is keyed by
normalizeReference at every access, first definition wins, later ones are recorded as duplicates), FOLD (normalizeReference
collapses blanks and applies a full case fold), SIB (definition, link and image use the same destination / title helpers),
RESUB (no re flag passed in the positional `count` slot of re.sub / re.split)."""
from __future__ import annotations

import ast
import re as _re

from ..cfg import CFG
from ..core import AnchorError, Func, U, own_nodes
from ..ctx import Ctx
from ..reach import Reaching
from ..dataflow import Problem, solve
from ..cfg import Node
from ..report import RuleResult, alpha

API = ["parse", "render", "parseInline", "renderInline"]


def _default_idiom(v: ast.AST, is_alias) -> bool:
    """`{} if P is None else P` / `P if P is not None else {}` / `P or {}`-free forms, P being the env object"""
    if isinstance(v, ast.IfExp):
        if isinstance(v.orelse, ast.Name) and is_alias(v.orelse) and isinstance(v.body, ast.Dict) and not v.body.keys \
                and U(v.test) == f"{v.orelse.id} is None":
            return True
        if isinstance(v.body, ast.Name) and is_alias(v.body) and isinstance(v.orelse, ast.Dict) and not v.orelse.keys \
                and U(v.test) == f"{v.body.id} is not None":
            return True
    return False


def _through_helper(v: ast.AST, f: Func, al) -> bool:
    """v = self._own_env(env) / _own_env(env): a helper of the class / module every return of which is its parameter or
    the default idiom over it, applied to the env object."""
    if not (isinstance(v, ast.Call) and len(v.args) == 1 and not v.keywords and al(v.args[0])):
        return False
    hd = None
    if isinstance(v.func, ast.Name):
        hd = f.module.defs.get(v.func.id)
    elif isinstance(v.func, ast.Attribute) and isinstance(v.func.value, ast.Name) and f.cls:
        cd = next((x for x in ast.walk(f.module.tree) if isinstance(x, ast.ClassDef) and x.name == f.cls.split("@")[0]), None)
        hd = next((x for x in (cd.body if cd else []) if isinstance(x, ast.FunctionDef) and x.name == v.func.attr), None)
    if not isinstance(hd, ast.FunctionDef):
        return False
    ps = [a.arg for a in hd.args.args if a.arg not in ("self", "cls")]
    if len(ps) != 1:
        return False
    pal = lambda x: isinstance(x, ast.Name) and x.id == ps[0]          # noqa: E731
    rets = [x for x in own_nodes(hd) if isinstance(x, ast.Return)]
    stores = [x for x in own_nodes(hd) if isinstance(x, ast.Name) and isinstance(x.ctx, ast.Store)]
    if not rets:
        return False
    for rt in rets:
        if rt.value is None:
            return False
        if pal(rt.value) or _default_idiom(rt.value, pal):
            continue
        # if env is None: return {}   ...   return env
        par = f.module.parents.get(rt)
        if isinstance(rt.value, ast.Dict) and not rt.value.keys and isinstance(par, ast.If) and U(par.test) == f"{ps[0]} is None":
            continue
        return False
    def guarded_default(x: ast.Name) -> bool:
        a = f.module.parents.get(x)
        g = f.module.parents.get(a)
        return isinstance(a, ast.Assign) and isinstance(a.value, ast.Dict) and not a.value.keys and len(a.targets) == 1 \
            and isinstance(g, ast.If) and U(g.test) == f"{ps[0]} is None" and a in g.body
    return not [x for x in stores if x.id == ps[0] and not guarded_default(x)]


def _is_env_alias(e: ast.AST, f: Func | None = None, depth: int = 0) -> bool:
    """The env object itself: the name / parameter `env`, an attribute `.env`, or a local of f bound only to the env object
    or to the default idiom over it."""
    if (isinstance(e, ast.Name) and e.id == "env") or (isinstance(e, ast.Attribute) and e.attr == "env"):
        return True
    if isinstance(e, ast.Name) and f is not None and depth < 3:
        ds = [n for n in own_nodes(f.node) if isinstance(n, ast.Assign) and any(isinstance(t, ast.Name) and t.id == e.id for t in n.targets)]
        others = [n for n in own_nodes(f.node) if isinstance(n, ast.Name) and n.id == e.id and isinstance(n.ctx, ast.Store)
                  and not isinstance(f.module.parents.get(n), ast.Assign)]
        if ds and not others:
            al = lambda x: _is_env_alias(x, f, depth + 1)          # noqa: E731

            return all(al(d.value) or _default_idiom(d.value, al) or _through_helper(d.value, f, al) or (
                isinstance(d.value, ast.Dict) and not d.value.keys and isinstance(f.module.parents.get(d), ast.If)
                and U(f.module.parents.get(d).test).endswith(" is None")) for d in ds)
    return False


def rule_env(c: Ctx) -> RuleResult:
    r = RuleResult("ENV", "the env mapping passed to (or created by) the API entry point reaches every parser state by identity: each hop "
                          "forwards the object itself, never a copy")
    nh = 0
    for f in sorted(c.cg.api_phase(), key=lambda x: x.qual):
        # (a) call sites whose callee has a parameter named env
        for cs in c.cg.sites.get(f, []):
            for g in cs.callees:
                params = [a.arg for a in g.node.args.posonlyargs + g.node.args.args + g.node.args.kwonlyargs]
                if "env" not in params:
                    continue
                arg = c.eff.arg_for_param(cs, g, "env")
                if arg is None:
                    continue          # default used
                nh += 1
                ok = _is_env_alias(arg, f)
                r.add(f"{f.short}|call {g.short}|env", c.where(f, cs.node), f.short, U(cs.node)[:80], "discharged" if ok else "violation",
                      f"forwards `{U(arg)}` itself to {g.short}" if ok else
                      f"`{U(arg)[:50]}` is passed as env to {g.short}: not the caller's env object (a copy or a fresh mapping), so definitions "
                      f"recorded by the rules are lost to the caller and seeded ones are not seen")
                break
        # (b) stores into <x>.env
        for n in own_nodes(f.node):
            if isinstance(n, ast.Assign) and any(isinstance(t, ast.Attribute) and t.attr == "env" for t in n.targets):
                nh += 1
                ok = _is_env_alias(n.value, f)
                r.add(f"{f.short}|store env", c.where(f, n), f.short, U(n)[:70], "discharged" if ok else "violation",
                      "the state keeps the object it was given" if ok else f"the state stores `{U(n.value)[:50]}` instead of the env object it was given")
    # (c) the API defaults: env = {} if env is None else env
    api_funcs = [c.p.func(f"main.py:MarkdownIt.{m}") for m in API]
    helpers_ = [g for f0 in api_funcs for cs in c.cg.sites.get(f0, []) for g in cs.callees
                if g.cls == "MarkdownIt" and g.name.startswith("_") and g not in api_funcs]
    for f in api_funcs + sorted(set(helpers_), key=lambda x: x.qual):
        for n in own_nodes(f.node):
            if isinstance(n, ast.Assign) and any(isinstance(t, ast.Name) and (t.id == "env" or _default_idiom(n.value, lambda x: _is_env_alias(x, f)))
                                                 for t in n.targets):
                nh += 1
                v = n.value
                if _default_idiom(v, lambda x: _is_env_alias(x, f)):
                    r.add(f"{f.short}|default env", c.where(f, n), f.short, U(n), "discharged",
                          "a fresh empty mapping only when the caller passed none; otherwise the caller's object")
                    continue
                ok = isinstance(v, ast.IfExp) and isinstance(v.orelse, ast.Name) and v.orelse.id == "env" and isinstance(v.body, ast.Dict) \
                    and not v.body.keys and U(v.test) in ("env is None",)
                ok = ok or (isinstance(v, ast.IfExp) and isinstance(v.body, ast.Name) and v.body.id == "env" and isinstance(v.orelse, ast.Dict)
                            and not v.orelse.keys and U(v.test) in ("env is not None",))
                # statement form:  if env is None: env = {}
                par = f.module.parents.get(n)
                if not ok and isinstance(v, ast.Dict) and not v.keys and isinstance(par, ast.If) and U(par.test) == "env is None" \
                        and n in par.body and not par.orelse:
                    ok = True
                # helper form:  env = self._env_or_new(env)
                ok = ok or _through_helper(v, f, lambda x: isinstance(x, ast.Name) and x.id == "env")
                r.add(f"{f.short}|default env", c.where(f, n), f.short, U(n), "discharged" if ok else "violation",
                      "a fresh empty mapping only when the caller passed none; otherwise the caller's object" if ok else
                      "the entry point rebinds env to something other than `{} if env is None else env`: a caller-supplied (possibly empty) "
                      "mapping may be replaced or copied")
    if nh < 8:
        raise AnchorError(f"only {nh} env hops found")
    r.floor = 8
    return r


def _refs_expr(e: ast.AST) -> bool:
    """e is <x>.env['references'] (or a local alias is handled by the caller)."""
    return isinstance(e, ast.Subscript) and isinstance(e.slice, ast.Constant) and e.slice.value == "references" and _is_env_alias(e.value)


def _key_is_normalised(c: Ctx, f: Func, key: ast.AST, at: ast.AST, rd: Reaching) -> bool:
    nr = c.p.func("common/utils.py:normalizeReference")
    if isinstance(key, ast.Call):
        cs = c.cg.site_of.get(key)
        return cs is not None and nr in cs.callees and len(cs.callees) == 1
    if isinstance(key, ast.Name):
        ds = rd.at_ast(at, key.id)
        if ds and all(d.kind == "param" for d in ds):
            # a helper's parameter: every caller must pass a normalised key
            from ..interproc import actuals, reaching
            acts = actuals(c, f, key.id)
            return bool(acts) and all(_key_is_normalised(c, caller, a, cs.node, reaching(c, caller)) for (caller, a, cs) in acts)
        if not ds:
            return False
        for d in ds:
            if d.kind == "assign" and d.value is not None:
                if not _key_is_normalised(c, f, d.value, d.stmt, rd):
                    return False
            elif d.kind == "unpack":
                # label, raw, href, ... = definition: the component that flows into the key, wherever it is built
                from ..interproc import reaching, unpack_sources
                srcs = unpack_sources(c, f, key.id, d.stmt)
                if not srcs or not all(_key_is_normalised(c, g, e_, at_, reaching(c, g)) for (g, e_, at_) in srcs):
                    return False
            else:
                return False
        return True
    return False


def rule_refkey(c: Ctx) -> RuleResult:
    r = RuleResult("REFKEY", "every access to env['references'] uses a key produced by normalizeReference; the table is created only when "
                             "absent; the first definition of a label wins and later ones are appended to duplicate_refs")
    n_access = 0
    for f in sorted(c.cg.parse_phase(), key=lambda x: x.qual):
        rd = None
        aliases: set[str] = set()
        for n in own_nodes(f.node):
            if isinstance(n, ast.Assign) and len(n.targets) == 1 and isinstance(n.targets[0], ast.Name):
                v = n.value
                if _refs_expr(v) or (isinstance(v, ast.Call) and isinstance(v.func, ast.Attribute) and v.func.attr == "setdefault"
                                     and _is_env_alias(v.func.value) and v.args and isinstance(v.args[0], ast.Constant) and v.args[0].value == "references"):
                    aliases.add(n.targets[0].id)

        def is_refs(e: ast.AST) -> bool:
            return _refs_expr(e) or (isinstance(e, ast.Name) and e.id in aliases)

        for n in own_nodes(f.node):
            key = None
            what = ""
            if isinstance(n, ast.Subscript) and is_refs(n.value) and not (isinstance(n.slice, ast.Constant)):
                key, what = n.slice, "subscript"
            elif isinstance(n, ast.Call) and isinstance(n.func, ast.Attribute) and n.func.attr in ("get", "setdefault", "pop") and is_refs(n.func.value) and n.args:
                key, what = n.args[0], n.func.attr
            elif isinstance(n, ast.Compare) and len(n.ops) == 1 and isinstance(n.ops[0], (ast.In, ast.NotIn)) and is_refs(n.comparators[0]):
                key, what = n.left, "membership test"
            if key is None:
                continue
            rd = rd or Reaching(c.cfg(f))
            n_access += 1
            ok = _key_is_normalised(c, f, key, n, rd)
            r.add(f"{f.short}|{what}|{alpha(f, n)[:60]}", c.where(f, n), f.short, U(n)[:80], "discharged" if ok else "violation",
                  "the key is a normalizeReference(...) result on every path" if ok else
                  f"the reference table is accessed with key `{U(key)}`, which is not (only) a normalizeReference(...) result: labels that "
                  f"differ in case or inner whitespace would not meet")
    # writer discipline in the reference rule (or the private helper it delegates the bookkeeping to)
    ref_rule = c.p.func("rules_block/reference.py:reference")
    writers = [ref_rule] + [g for cs in c.cg.sites.get(ref_rule, []) if cs.kind == "direct" for g in cs.callees if g.module is ref_rule.module]
    done_any = False
    for f in writers:
        has_store = any(isinstance(n, (ast.Assign, ast.Call)) and "references" in U(n) for n in own_nodes(f.node))
        if not has_store:
            continue
        cfg, res = c.facts(f)
        stores = [n for n in own_nodes(f.node) if isinstance(n, ast.Assign) and len(n.targets) == 1 and isinstance(n.targets[0], ast.Subscript)
                  and (_refs_expr(n.targets[0].value))]
        ralias: set[str] = set()
        for n in own_nodes(f.node):
            if isinstance(n, ast.Assign) and len(n.targets) == 1 and isinstance(n.targets[0], ast.Name):
                v = n.value
                if _refs_expr(v) or (isinstance(v, ast.Call) and isinstance(v.func, ast.Attribute) and v.func.attr == "setdefault"
                                     and _is_env_alias(v.func.value) and v.args and isinstance(v.args[0], ast.Constant) and v.args[0].value == "references"):
                    ralias.add(n.targets[0].id)
        setdefs = [n for n in own_nodes(f.node) if isinstance(n, ast.Call) and isinstance(n.func, ast.Attribute) and n.func.attr == "setdefault"
                   and (_refs_expr(n.func.value) or (isinstance(n.func.value, ast.Name) and n.func.value.id in ralias)) and len(n.args) == 2
                   and not isinstance(n.args[0], ast.Constant)]
        stores += [n for n in own_nodes(f.node) if isinstance(n, ast.Assign) and len(n.targets) == 1 and isinstance(n.targets[0], ast.Subscript)
                   and isinstance(n.targets[0].value, ast.Name) and n.targets[0].value.id in ralias]
        dups = [n for n in own_nodes(f.node) if isinstance(n, ast.Call) and isinstance(n.func, ast.Attribute) and n.func.attr == "append"
                and "duplicate_refs" in U(n.func.value)]
        done = False
        for s in stores:
            key = U(s.targets[0].slice)          # type: ignore[attr-defined]
            tbl = U(s.targets[0].value)          # type: ignore[attr-defined]
            guarded = False
            for cn in cfg.owner(s):
                z = res.get(cn.id)
                if z is not None and z.holds(f"{key} in {tbl}", False):
                    guarded = True
            done = True
            r.add(f"{f.short}|first-wins", c.where(f, s), f.short, U(s)[:70], "discharged" if guarded else "violation",
                  f"the store is dominated by `{key} not in {tbl}`: an existing definition is never overwritten" if guarded else
                  f"the table store is not guarded by `{key} not in {tbl}`: a later definition of a label would replace the first one")
            # complement appends to duplicate_refs
            okd = False
            for d in dups:
                for cn in cfg.owner(d):
                    z = res.get(cn.id)
                    if z is not None and z.holds(f"{key} in {tbl}", True):
                        okd = True
            r.add(f"{f.short}|duplicates", c.where(f, dups[0] if dups else s), f.short, U(dups[0])[:70] if dups else "-", "discharged" if okd else "violation",
                  "when the label is already defined the definition is appended to duplicate_refs" if okd else
                  "a definition whose label is already in the table is not recorded in duplicate_refs on the complementary path")
        for sd in setdefs:
            # setdefault form: the duplicate branch must test identity with the stored object
            par = f.module.parents.get(sd)
            ok = isinstance(par, ast.Compare) and len(par.ops) == 1 and isinstance(par.ops[0], (ast.IsNot, ast.Is)) and bool(dups)
            done = True
            r.add(f"{f.short}|first-wins", c.where(f, sd), f.short, U(par if par is not None else sd)[:80], "discharged" if ok else "violation",
                  "setdefault keeps the first definition; the duplicate branch is taken when the stored object is not the new one (identity)" if ok else
                  "setdefault form without an identity test (`is not`) against the new entry: a later definition that compares equal to the "
                  "first is neither stored nor recorded as a duplicate")
        done_any = done_any or done
    if not done_any:
        f = ref_rule
        r.add(f"{f.short}|first-wins", c.where(f, f.node), f.short, "store into env['references']", "violation",
              "the reference rule no longer stores definitions into env['references'] in a recognised form")
    # creation guard
    for g in sorted(c.cg.parse_phase(), key=lambda x: x.qual):
        for n in own_nodes(g.node):
            if isinstance(n, ast.Assign) and len(n.targets) == 1 and _refs_expr(n.targets[0]):
                gcfg, gres = c.facts(g)
                envtxt = U(n.targets[0].value)          # type: ignore[attr-defined]
                ok = False
                for cn in gcfg.owner(n):
                    z = gres.get(cn.id)
                    if z is not None and z.holds(f"'references' in {envtxt}", False):
                        ok = True
                r.add(f"{g.short}|create", c.where(g, n), g.short, U(n), "discharged" if ok else "violation",
                      "the table is created only when env has none (seeded definitions survive)" if ok else
                      "env['references'] is (re)created without a `'references' not in env` guard: definitions seeded by the caller or "
                      "recorded earlier in the document are discarded")
    if n_access < 3:
        raise AnchorError(f"only {n_access} keyed accesses to env['references'] found")
    r.floor = 4
    return r


def rule_fold(c: Ctx) -> RuleResult:
    r = RuleResult("FOLD", "normalizeReference returns its argument with blanks trimmed and collapsed (\\s+ -> one space, no count limit) and "
                           "a full case fold (.lower().upper() or .casefold()) applied")
    f = c.p.func("common/utils.py:normalizeReference")
    p = f.node.args.args[0].arg
    rd = Reaching(c.cfg(f))
    rets = [n for n in own_nodes(f.node) if isinstance(n, ast.Return) and n.value is not None]
    if not rets:
        raise AnchorError("normalizeReference has no return")

    def chain(e: ast.AST, at: ast.AST, depth: int = 0) -> list[str] | None:
        """Outermost-first list of transforms applied to the parameter; None if the derivation leaves the recognised forms."""
        if depth > 8:
            return None
        if isinstance(e, ast.Name):
            if e.id == p:
                ds = rd.at_ast(at, e.id)
                if all(d.kind == "param" for d in ds):
                    return []
            ds = rd.at_ast(at, e.id)
            outs = []
            for d in ds:
                if d.kind != "assign" or d.value is None:
                    return None
                o = chain(d.value, d.stmt, depth + 1)
                if o is None:
                    return None
                outs.append(o)
            return outs[0] if outs and all(o == outs[0] for o in outs) else None
        if isinstance(e, ast.Call) and isinstance(e.func, ast.Attribute):
            m = e.func.attr
            if U(e.func.value) == "re" and m == "sub":
                if len(e.args) != 3:
                    return ["re.sub with a positional count/flags argument"] + (chain(e.args[2], at, depth + 1) or [])
                if any(k.arg == "count" and not (isinstance(k.value, ast.Constant) and k.value.value == 0) for k in e.keywords):
                    return ["re.sub with a count limit"] + (chain(e.args[2], at, depth + 1) or [])
                pat, rep = e.args[0], e.args[1]
                inner = chain(e.args[2], at, depth + 1)
                if inner is None:
                    return None
                if isinstance(pat, ast.Constant) and isinstance(rep, ast.Constant) and pat.value in (r"\s+",) and rep.value == " ":
                    return ["collapse"] + inner
                return [f"re.sub({U(pat)}, {U(rep)})"] + inner
            if m == "sub" and isinstance(e.func.value, ast.Name) and len(e.args) >= 2:
                # <COMPILED_RE>.sub(repl, x[, count])
                pat = None
                for (mm, name, ptxt, flags, node) in c.p.regex_constants():
                    if name == e.func.value.id and mm is f.module:
                        pat = ptxt
                if pat is not None:
                    inner = chain(e.args[1], at, depth + 1)
                    if inner is None:
                        return None
                    if len(e.args) > 2 or any(k.arg == "count" and not (isinstance(k.value, ast.Constant) and k.value.value == 0) for k in e.keywords):
                        return ["compiled sub with a count limit"] + inner
                    rep = e.args[0]
                    if pat == r"\s+" and isinstance(rep, ast.Constant) and rep.value == " ":
                        return ["collapse"] + inner
                    return [f"{e.func.value.id}.sub({U(rep)})"] + inner
            inner = chain(e.func.value, at, depth + 1)
            if inner is None:
                return None
            if m in ("strip", "lower", "upper", "casefold") and not e.args:
                return [m] + inner
            if m == "join" and False:
                return None
            return [f".{m}()"] + inner
        if isinstance(e, ast.Call) and isinstance(e.func, ast.Name) and e.func.id == "str" and len(e.args) == 1:
            return chain(e.args[0], at, depth + 1)
        return None

    for rt in rets:
        ch = chain(rt.value, rt)
        key = f"{f.short}|return"
        if ch is None:
            r.add(key, c.where(f, rt), f.short, U(rt)[:80], "violation", "the return value is not derived from the argument by the recognised string transforms")
            continue
        seq = list(reversed(ch))          # innermost first
        bad = [t for t in seq if t not in ("strip", "collapse", "lower", "upper", "casefold")]
        fold = "casefold" in seq or ("lower" in seq and "upper" in seq and seq.index("lower") < len(seq) - 1 - seq[::-1].index("upper"))
        coll = "collapse" in seq and "strip" in seq
        order = coll and fold and seq.index("collapse") < (seq.index("casefold") if "casefold" in seq else seq.index("lower"))
        if bad:
            why = f"unexpected transform {bad[0]}"
        elif not coll:
            why = "blanks are not trimmed and collapsed (strip + `\\s+` -> ' ')"
        elif not fold:
            why = "no full case fold: `.lower()` or `.upper()` alone leaves variants such as 'ẞ'/'ß', 'ϴ'/'θ' apart (need .lower().upper() or .casefold())"
        elif not order:
            why = "the case fold is applied before the blanks are collapsed"
        else:
            why = ""
        r.add(key, c.where(f, rt), f.short, U(rt)[:80] + "   [" + " > ".join(seq) + "]", "discharged" if not why else "violation",
              "strip, collapse blanks, then a full case fold" if not why else why + ": labels that should match no longer meet")
    r.floor = 1
    return r


def rule_sib(c: Ctx) -> RuleResult:
    r = RuleResult("SIB", "the reference definition, the inline link and the image parse destination and title with the same helpers and "
                          "normalise the destination with normalizeLink")
    pd = c.p.func("helpers/parse_link_destination.py:parseLinkDestination")
    pt = c.p.func("helpers/parse_link_title.py:parseLinkTitle")
    users = [c.p.func("rules_block/reference.py:reference"), c.p.func("rules_inline/link.py:link"), c.p.func("rules_inline/image.py:image")]
    def closure(f: Func) -> list[Func]:
        """f and the helpers it calls directly (two levels): functions of its own module or of the helpers package other than the
        shared parsers themselves."""
        out, todo = [f], [(f, 0)]
        while todo:
            g, d = todo.pop()
            for cs in c.cg.sites.get(g, []):
                if cs.kind in ("direct", "method") and len(cs.callees) == 1:
                    h = cs.callees[0]
                    if h not in out and h not in (pd, pt) and d < 2 and (h.module is f.module or h.module.rel.startswith("helpers/")) \
                            and h not in users:
                        out.append(h)
                        todo.append((h, d + 1))
        return out
    for f in users:
        fam = closure(f)
        sites = [cs for g in fam for cs in c.cg.sites.get(g, [])]
        for helper, nm in ((pd, "parseLinkDestination"), (pt, "parseLinkTitle")):
            ok = any(helper in cs.callees and len(cs.callees) == 1 for cs in sites)
            r.add(f"{f.short}|{nm}", c.where(f, f.node), f.short, nm, "discharged" if ok else "violation",
                  f"calls the shared helper {nm}" if ok else f"{f.short} does not call the shared helper {nm}: its notion of a "
                  f"{'destination' if helper is pd else 'title'} can drift from the other two forms")
        # normalizeLink applied to the destination result's .str
        ok = False
        for g in fam:
            rd = Reaching(c.cfg(g))
            for n in own_nodes(g.node):
                if isinstance(n, ast.Call) and isinstance(n.func, ast.Attribute) and n.func.attr == "normalizeLink" and len(n.args) == 1:
                    a = n.args[0]
                    if isinstance(a, ast.Attribute) and a.attr == "str" and isinstance(a.value, ast.Name):
                        for d in rd.at_ast(n, a.value.id):
                            if d.value is not None and isinstance(d.value, ast.Call):
                                cs = c.cg.site_of.get(d.value)
                                if cs is not None and pd in cs.callees:
                                    ok = True
        r.add(f"{f.short}|normalizeLink(dest)", c.where(f, f.node), f.short, "normalizeLink(res.str)", "discharged" if ok else "violation",
              "the destination result is normalised with normalizeLink" if ok else
              f"{f.short} does not pass the parsed destination through normalizeLink: the reference form and the inline form of one link differ")
    r.floor = 9
    return r


FLAG_NAMES = {"I", "IGNORECASE", "M", "MULTILINE", "S", "DOTALL", "X", "VERBOSE", "A", "ASCII", "U", "UNICODE", "L", "LOCALE"}


def rule_resub(c: Ctx) -> RuleResult:
    r = RuleResult("RESUB", "no re flag is passed in the positional `count` / `maxsplit` slot of re.sub / re.subn / re.split or of a compiled "
                            "pattern's sub / split")
    n = 0
    for f in sorted(c.p.all_funcs(), key=lambda x: x.qual):
        for call in own_nodes(f.node):
            if not (isinstance(call, ast.Call) and isinstance(call.func, ast.Attribute) and call.func.attr in ("sub", "subn", "split")):
                continue
            is_mod = U(call.func.value) == "re"
            slot = (3 if call.func.attr != "split" else 2) if is_mod else (2 if call.func.attr != "split" else 1)
            if not is_mod and c.tf.scope(f).type(call.func.value) in ("str",):
                continue
            n += 1
            bad = None
            if len(call.args) > slot:
                a = call.args[slot]
                if any(isinstance(x, ast.Attribute) and U(x.value) == "re" and x.attr in FLAG_NAMES for x in ast.walk(a)):
                    bad = a
            key = f"{f.short}|{alpha(f, call)[:60]}"
            if bad is not None:
                r.add(key, c.where(f, call), f.short, U(call)[:90], "violation",
                      f"`{U(bad)}` is a flag constant but sits in the positional count slot: the substitution silently stops after "
                      f"{U(bad)} (= a small integer) replacements")
            else:
                r.add(key, c.where(f, call), f.short, U(call)[:90], "discharged", "trivial: no flag constant in the count slot")
    r.floor = 5
    return r


# ------------------------------------------------------------------------------------------------ NLCOUNT
def rule_nlcount(c: Ctx) -> RuleResult:
    """The number of lines a reference definition claims is a count of the line feeds of the *source* text it scanned.

    `reference` sets the block cursor to `startLine + lines + 1`; `lines` is fed by counters in the rule itself and by the
    `lines` field of the link-destination / link-title scanners.  Every value that flows into that sum must be a line-feed
    count of raw source text: the constant 0; a counter that is only ever incremented by one under a test that the scanned
    character of a string *parameter* is LF; another such count added to it; the component of a helper's result that is such
    a count; or `<raw slice of a string parameter>.count("\\n")`.  A count taken from decoded text (after unescapeAll: an
    entity `&#10;` becomes a line feed there) makes the definition claim lines it does not occupy."""
    from ..interproc import reaching, actuals
    r = RuleResult("NLCOUNT", "the line count that moves the block cursor past a reference definition counts line feeds of the raw source "
                              "only (counters stepped under an LF test of the scanned character, or raw-slice.count('\\n'))")
    memo: dict[tuple, str] = {}

    def str_params(f: Func) -> set[str]:
        sc = c.tf.scope(f)
        return {a.arg for a in f.node.args.posonlyargs + f.node.args.args + f.node.args.kwonlyargs if sc.type(ast.Name(id=a.arg, ctx=ast.Load())) == "str"
                or (a.annotation is not None and U(a.annotation) == "str")}

    def raw_text(f: Func, e: ast.AST, at: ast.AST, depth: int = 0) -> bool:
        """e is the source string itself or a slice of it (a str parameter, state.src, or a single-definition local of those)"""
        if depth > 3:
            return False
        if isinstance(e, ast.Subscript) and isinstance(e.slice, ast.Slice):
            return raw_text(f, e.value, at, depth)
        if isinstance(e, ast.Attribute) and e.attr == "src":
            return True
        if isinstance(e, ast.Call) and isinstance(e.func, ast.Attribute) and e.func.attr in ("strip", "lstrip", "rstrip"):
            return raw_text(f, e.func.value, at, depth)
        if isinstance(e, ast.Call) and isinstance(e.func, ast.Attribute) and e.func.attr in ("getLines", "getLine"):
            return True          # lines cut out of the source (prefixes of enclosing containers removed; line feeds kept)
        if isinstance(e, ast.Name):
            if e.id in str_params(f):
                return all(d.kind == "param" for d in reaching(c, f).at_ast(at, e.id)) or True
            ds = list(reaching(c, f).at_ast(at, e.id))
            return bool(ds) and all(d.kind == "assign" and d.value is not None and raw_text(f, d.value, d.stmt, depth + 1) for d in ds)
        return False

    def char_of_source(f: Func, e: ast.AST, at: ast.AST, depth: int = 0) -> bool:
        if depth > 3:
            return False
        if isinstance(e, ast.Call) and isinstance(e.func, ast.Name) and e.func.id in ("charCodeAt", "charStrAt") and len(e.args) == 2:
            return raw_text(f, e.args[0], at)
        if isinstance(e, ast.Call) and isinstance(e.func, ast.Name) and e.func.id == "ord" and len(e.args) == 1:
            return char_of_source(f, e.args[0], at, depth + 1)
        if isinstance(e, ast.Subscript) and not isinstance(e.slice, ast.Slice):
            return raw_text(f, e.value, at)
        if isinstance(e, ast.Name):
            ds = list(reaching(c, f).at_ast(at, e.id))
            return bool(ds) and all(d.kind in ("assign", "walrus") and d.value is not None and char_of_source(f, d.value, d.stmt, depth + 1) for d in ds)
        return False

    def lf_guarded(f: Func, stmt: ast.AST) -> bool:
        cfg, res = c.facts(f)
        owners = cfg.owner(stmt)
        if not owners:
            return False
        for nd in owners:
            z = res.get(nd.id)
            if z is None:
                continue
            ok = False
            for (t, pol) in z.preds:
                if not pol:
                    continue
                try:
                    pe_ = ast.parse(t, mode="eval").body
                except SyntaxError:
                    continue
                if isinstance(pe_, ast.Compare) and len(pe_.ops) == 1 and isinstance(pe_.ops[0], ast.Eq):
                    for a_, b_ in ((pe_.left, pe_.comparators[0]), (pe_.comparators[0], pe_.left)):
                        if isinstance(b_, ast.Constant) and b_.value in (10, "\n") and char_of_source(f, a_, stmt):
                            ok = True
            if not ok:
                return False
        return True

    def count(f: Func, e: ast.AST, at: ast.AST, depth: int = 0) -> str:
        """'' if e is a raw line-feed count, else the reason why not"""
        if depth > 8:
            return "the derivation is too deep to follow"
        if isinstance(e, ast.Constant) and e.value == 0 and not isinstance(e.value, bool):
            return ""
        if isinstance(e, ast.BinOp) and isinstance(e.op, ast.Add):
            return count(f, e.left, at, depth) or count(f, e.right, at, depth)
        if isinstance(e, ast.IfExp):
            return count(f, e.body, at, depth) or count(f, e.orelse, at, depth)
        if isinstance(e, ast.Call) and isinstance(e.func, ast.Attribute) and e.func.attr == "count" and len(e.args) == 1 \
                and isinstance(e.args[0], ast.Constant) and e.args[0].value == "\n":
            return "" if raw_text(f, e.func.value, at) else (f"`{U(e)[:50]}` in {f.short} counts the line feeds of `{U(e.func.value)[:30]}`, which is not a raw "
                                                           f"slice of the source (decoding can create line feeds: `&#10;`)")
        if isinstance(e, ast.Attribute) and isinstance(e.value, ast.Name):
            key = ("attr", e.attr)
            if key in memo:
                return memo[key]
            memo[key] = ""
            why = ""
            nst = 0
            for g in c.p.all_funcs():
                if g.module.rel.startswith(("cli/", "tree.py", "token.py")):
                    continue
                for n in own_nodes(g.node):
                    if isinstance(n, ast.Assign) and any(isinstance(t, ast.Attribute) and t.attr == e.attr for t in n.targets):
                        nst += 1
                        why = why or count(g, n.value, n, depth + 1)
                    elif isinstance(n, ast.AugAssign) and isinstance(n.target, ast.Attribute) and n.target.attr == e.attr:
                        nst += 1
                        why = why or incr(g, n, n.value, depth + 1)
            if not nst:
                why = f"no store to a field `{e.attr}` found"
            memo[key] = why
            return why
        if isinstance(e, ast.Name):
            key = (f, e.id, id(at))
            if key in memo:
                return memo[key]
            memo[key] = ""
            ds = list(reaching(c, f).at_ast(at, e.id))
            why = "" if ds else f"`{e.id}` has no definition reaching this point"
            for d in ds:
                if why:
                    break
                if d.kind == "assign" and d.value is not None:
                    v = d.value
                    if isinstance(v, ast.BinOp) and isinstance(v.op, ast.Add) and isinstance(v.left, ast.Name) and v.left.id == e.id:
                        why = count(f, v.left, d.stmt, depth) or incr(f, d.stmt, v.right, depth)
                    else:
                        why = count(f, v, d.stmt, depth)
                elif d.kind == "aug" and isinstance(d.stmt, ast.AugAssign) and isinstance(d.stmt.op, ast.Add):
                    why = count(f, e, d.stmt, depth) or incr(f, d.stmt, d.stmt.value, depth)
                elif d.kind == "unpack" and isinstance(d.stmt, ast.Assign) and len(d.stmt.targets) == 1 \
                        and isinstance(d.stmt.targets[0], (ast.Tuple, ast.List)):
                    from ..interproc import unpack_sources
                    srcs = unpack_sources(c, f, e.id, d.stmt)
                    if srcs is None:
                        why = f"`{e.id}` is unpacked from `{U(d.stmt.value)[:40]}` in {f.short}: its component cannot be followed"
                    else:
                        for (g_, x_, at_) in srcs:
                            why = why or count(g_, x_, at_, depth + (g_ is not f))
                elif d.kind == "param":
                    acts = actuals(c, f, e.id)
                    if not acts:
                        why = f"parameter `{e.id}` of {f.short} has no resolvable call site"
                    for (caller, a_, cs_) in acts:
                        why = why or count(caller, a_, cs_.node, depth + 1)
                else:
                    why = f"`{e.id}` is defined by a {d.kind} in {f.short}: not a line-feed count of the source"
            memo[key] = why
            return why
        if isinstance(e, ast.Call):
            return ret_count(f, e, None, depth + 1)
        return f"`{U(e)[:50]}` in {f.short} is not a line-feed count of the raw source"

    def ret_count(f: Func, call: ast.Call, idx: int | None, depth: int) -> str:
        cs = c.cg.site_of.get(call)
        if cs is None or len(cs.callees) != 1 or cs.kind not in ("direct", "method"):
            return f"`{U(call)[:50]}` in {f.short}: callee not resolved"
        g = cs.callees[0]
        rets = [x for x in own_nodes(g.node) if isinstance(x, ast.Return) and x.value is not None]
        if not rets:
            return f"{g.short} returns nothing"
        for rt in rets:
            v = rt.value
            if idx is not None:
                if not (isinstance(v, (ast.Tuple, ast.List)) and idx < len(v.elts)):
                    return f"{g.short} does not return a tuple with component {idx}"
                v = v.elts[idx]
            why = count(g, v, rt, depth + 1)
            if why:
                return why
        return ""

    counter_sites: list[tuple[Func, ast.AST]] = []

    def incr(f: Func, stmt: ast.AST, amount: ast.AST, depth: int) -> str:
        if isinstance(amount, ast.Constant) and amount.value == 1:
            if lf_guarded(f, stmt):
                if not any(s_ is stmt for (_, s_) in counter_sites):
                    counter_sites.append((f, stmt))
                return ""
            return f"`{U(stmt)}` in {f.short} is not dominated by a test that the scanned source character is a line feed"
        if isinstance(amount, ast.Constant):
            return f"`{U(stmt)}` in {f.short} steps the line count by {amount.value!r}"
        return count(f, amount, stmt, depth)

    nsinks = 0
    for reg in c.reg.rules["block"]:
        f = reg.func
        params = [a.arg for a in f.node.args.args]
        if len(params) < 2:
            continue
        st, start = params[0], params[1]
        for n in own_nodes(f.node):
            if not (isinstance(n, ast.Assign) and any(U(t) == f"{st}.line" for t in n.targets)):
                continue
            # start + X (+ const) with X a name that is neither a parameter nor derived from a line cursor
            terms: list[ast.AST] = []

            def flat(e: ast.AST) -> None:
                if isinstance(e, ast.BinOp) and isinstance(e.op, ast.Add):
                    flat(e.left)
                    flat(e.right)
                else:
                    terms.append(e)
            v = n.value
            if isinstance(v, ast.Name):
                ds = [d for d in reaching(c, f).at_ast(n, v.id) if d.kind == "assign" and d.value is not None]
                if len(ds) == 1:
                    v = ds[0].value
            flat(v)
            if not (len(terms) >= 2 and any(isinstance(t, ast.Name) and t.id == start for t in terms)):
                continue
            others = [t for t in terms if not (isinstance(t, ast.Name) and t.id == start) and not isinstance(t, ast.Constant)]
            if not others:
                continue
            nsinks += 1
            r.functions += 1
            for t in others:
                why = count(f, t, n)
                r.add(f"{f.short}|{alpha(f, n)[:50]}|{U(t)}", c.where(f, n), f.short, U(n)[:70], "violation" if why else "discharged",
                      f"`{U(t)}` moves the block cursor but is not a count of source line feeds: {why} - the definition would claim lines "
                      f"it does not occupy (its map, and the lines skipped, are wrong)" if why else
                      f"`{U(t)}` is a sum of line-feed counts of the raw source (counters stepped under an LF test / raw .count('\\n') / 0)")
    if nsinks == 0:
        r.add("no-sink", "markdown_it/rules_block/reference.py:0", "-", "state.line = start + <count>", "discharged",
              "no block rule moves the cursor by a computed line count")
    # ---- completeness of the count: in a `while` loop that steps such a counter, the scan position moves one character at a time
    # and every character it leaves has been tested for LF (or lies beyond the end): a line feed that is stepped over uncounted -
    # `pos += 2` over an escaped pair, an escape branch that no longer looks at the escaped character - makes the definition
    # claim too few lines
    from ..syn import incr_of, const_int
    done_loops: set[int] = set()
    for (f, site) in counter_sites:
        loop = f.module.parents.get(site)
        while loop is not None and loop is not f.node and not isinstance(loop, (ast.While, ast.For)):
            loop = f.module.parents.get(loop)
        if not isinstance(loop, ast.While) or id(loop) in done_loops:
            continue
        done_loops.add(id(loop))
        inside = {id(x) for x in ast.walk(loop)}
        # the position variable: the index of a character read from raw text inside the loop
        pvars: set[str] = set()
        for x in ast.walk(loop):
            idx = None
            if isinstance(x, ast.Call) and isinstance(x.func, ast.Name) and x.func.id in ("charCodeAt", "charStrAt") and len(x.args) == 2 and raw_text(f, x.args[0], x):
                idx = x.args[1]
            elif isinstance(x, ast.Subscript) and not isinstance(x.slice, ast.Slice) and isinstance(x.ctx, ast.Load) and raw_text(f, x.value, x):
                idx = x.slice
            if isinstance(idx, ast.Name):
                pvars.add(idx.id)
        stepped = {io[0] for n in ast.walk(loop) if isinstance(n, (ast.Assign, ast.AugAssign)) and (io := incr_of(n)) is not None}
        pvars &= stepped
        if len(pvars) != 1:
            continue
        pv = next(iter(pvars))
        cfg = c.cfg(f)

        def char_at_p(e: ast.AST) -> bool:
            if isinstance(e, ast.Call) and isinstance(e.func, ast.Name) and e.func.id in ("charCodeAt", "charStrAt") and len(e.args) == 2:
                return isinstance(e.args[1], ast.Name) and e.args[1].id == pv and raw_text(f, e.args[0], e)
            if isinstance(e, ast.Call) and isinstance(e.func, ast.Name) and e.func.id == "ord" and len(e.args) == 1:
                return char_at_p(e.args[0])
            if isinstance(e, ast.Subscript) and not isinstance(e.slice, ast.Slice):
                return isinstance(e.slice, ast.Name) and e.slice.id == pv and raw_text(f, e.value, e)
            return False

        class _Scan(Problem):
            """state: (tested, frozenset of locals holding the character at the current position)"""
            def entry_state(self):
                return (False, frozenset())

            def join(self, a, b, at):
                return (a[0] and b[0], a[1] & b[1])

            def edge(self, n: Node, st, label: str, succ: Node):
                tested, fresh = st
                a = n.ast
                if a is None:
                    return st
                if n.kind == "test" and label in ("T", "F"):
                    e, pos_ = a, label == "T"
                    while isinstance(e, ast.UnaryOp) and isinstance(e.op, ast.Not):
                        e, pos_ = e.operand, not pos_
                    if isinstance(e, ast.Compare) and len(e.ops) == 1:
                        l_, op, r_ = e.left, e.ops[0], e.comparators[0]
                        for x_, y_ in ((l_, r_), (r_, l_)):
                            if isinstance(y_, ast.Constant) and y_.value in (10, "\n") and isinstance(op, (ast.Eq, ast.NotEq)) \
                                    and (char_at_p(x_) or (isinstance(x_, ast.Name) and x_.id in fresh)):
                                return (True, fresh)
                            # the character is known to be some other constant (`code == 0x5C` held): not a line feed
                            if isinstance(y_, ast.Constant) and isinstance(y_.value, (int, str)) and y_.value not in (10, "\n") \
                                    and ((isinstance(op, ast.Eq) and pos_) or (isinstance(op, ast.NotEq) and not pos_)) \
                                    and (char_at_p(x_) or (isinstance(x_, ast.Name) and x_.id in fresh)):
                                return (True, fresh)
                        # beyond the end: nothing to test at this position
                        if isinstance(l_, ast.Name) and l_.id == pv and ((isinstance(op, ast.Lt) and not pos_) or (isinstance(op, ast.GtE) and pos_)):
                            return (True, fresh)
                        # ... the same test written the other way round (`maximum > pos` failed, `maximum <= pos` held)
                        if isinstance(r_, ast.Name) and r_.id == pv and ((isinstance(op, ast.Gt) and not pos_) or (isinstance(op, ast.LtE) and pos_)):
                            return (True, fresh)
                    return st
                if n.kind == "stmt" and label != "exc" and isinstance(a, (ast.Assign, ast.AugAssign, ast.AnnAssign)):
                    io = incr_of(a) if isinstance(a, (ast.Assign, ast.AugAssign)) else None
                    if io is not None and io[0] == pv:
                        return (False, frozenset())
                    tg = a.targets if isinstance(a, ast.Assign) else [a.target]
                    names = {x.id for t in tg for x in ast.walk(t) if isinstance(x, ast.Name) and isinstance(x.ctx, ast.Store)}
                    if pv in names:
                        return (False, frozenset())
                    v = getattr(a, "value", None)
                    if v is not None and len(names) == 1 and char_at_p(v):
                        return (tested, fresh | names)
                    return (tested, frozenset(fresh - names))
                return st
        res_ = solve(cfg, _Scan(), widen_after=10**9)
        for n in cfg.nodes:
            a = n.ast
            if n.kind != "stmt" or a is None or id(a) not in inside or not isinstance(a, (ast.Assign, ast.AugAssign)):
                continue
            io = incr_of(a)
            stores_p = any(isinstance(x, ast.Name) and x.id == pv and isinstance(x.ctx, ast.Store)
                           for t in (a.targets if isinstance(a, ast.Assign) else [a.target]) for x in ast.walk(t))
            if not stores_p:
                continue
            st = res_.get(n.id)
            if st is None:
                continue
            key = f"{f.short}|scan {pv}|{alpha(f, a)}|{sum(1 for o in r.obligations if o.key.startswith(f.short + '|scan'))}"
            if io is None or io[0] != pv or not io[2] or const_int(io[1]) != 1:
                r.add(key, c.where(f, a), f.short, U(a), "violation",
                      f"the scan that counts line feeds moves `{pv}` by something other than one character: a line feed inside the span it "
                      f"steps over is not counted, and the definition claims too few lines")
                continue
            r.add(key, c.where(f, a), f.short, U(a), "discharged" if st[0] else "violation",
                  f"the character at `{pv}` has been tested for LF (or lies beyond the end) on every path to this step" if st[0] else
                  f"`{pv}` is stepped past a character that was not tested for LF on some path (an escaped character, for instance): a line "
                  f"feed there is not counted, and the definition claims too few lines")
    r.floor = 1
    return r
