"""C17 rule families.

NORM   `normalize` is the first core rule (table, presets), and the value it stores back into state.src has, on every path,
       passed through a complete line-ending normalisation (CRLF then CR, or a verified regex) and the NUL replacement;
       regex constants are decided as languages (bounded-exhaustive over a 3-letter alphabet - constants only, no repository
       code runs).
FRAME  column frames: T1 every tab-stop computation `4 - E % 4` outside the constructor has an absolute operand (E contains
       a bsCount[.] term); T2 every non-restoring store to bsCount[i] keeps it absolute (+=, or the old value on the right);
       T3 a per-line marker flag used inside a column computation is assigned from the line it is applied to.
"""
from __future__ import annotations

import ast
import itertools
import re
from typing import Any

from ..cfg import CFG, Node
from ..core import AnchorError, Func, U, own_nodes, presets
from ..ctx import Ctx
from ..dataflow import Problem, solve
from ..report import RuleResult, alpha
from ..tokens import _blocks

NEED = frozenset({"crlf", "cr", "nul"})


def _regex_of(c: Ctx, f: Func, e: ast.AST) -> tuple[str, int] | None:
    """(pattern, flags) if e names a module-level compiled regex constant."""
    if isinstance(e, ast.Name):
        for (m, name, pat, flags, node) in c.p.regex_constants():
            if name == e.id and m is f.module:
                return pat, flags
        r = c.p.resolve_name(f.module, e.id)
        if isinstance(r, tuple) and r and r[0] == "const":
            for (m, name, pat, flags, node) in c.p.regex_constants():
                if name == r[2] and m is r[1]:
                    return pat, flags
    return None


def _alphabet_strings(alpha_: str, n: int):
    for k in range(n + 1):
        for t in itertools.product(alpha_, repeat=k):
            yield "".join(t)


def _is_newline_normaliser(pat: str, flags: int, repl: str) -> tuple[bool, int]:
    if repl != "\n":
        return False, 0
    rx = re.compile(pat, flags)
    n = 0
    for s in _alphabet_strings("\r\na", 5):
        n += 1
        if rx.sub("\n", s) != s.replace("\r\n", "\n").replace("\r", "\n"):
            return False, n
    return True, n


def _is_nul_replacer(pat: str, flags: int) -> tuple[bool, int]:
    rx = re.compile(pat, flags)
    n = 0
    for s in _alphabet_strings("\0a\n", 4):
        n += 1
        if rx.sub("X", s) != s.replace("\0", "X"):
            return False, n
    return True, n


class _Unsupported(Exception):
    pass


def _repl_function(c: Ctx, f: Func, e: ast.AST):
    """A replacement *function* handed to `<RE>.sub`: a lambda or a module-level function of one parameter whose body only selects
    among constants by the matched text (`"\ufffd" if m.group() == "\0" else "\n"`, early-return ifs, a literal table indexed
    by the match).  Returned as a Python callable match-text -> replacement, built by folding the source expression - no code
    of the repository runs.  None when the body is anything else."""
    node: ast.AST | None = None
    if isinstance(e, ast.Lambda):
        node = e
    elif isinstance(e, ast.Name):
        h = c.p.resolve(f.module, e)
        if isinstance(h, Func) and h.cls is None:
            node = h.node
            f = h
    if node is None:
        return None
    ps = [a.arg for a in node.args.posonlyargs + node.args.args]
    if len(ps) != 1 or node.args.vararg or node.args.kwarg or node.args.kwonlyargs:
        return None
    mp = ps[0]

    def ev(x: ast.AST, text: str) -> Any:
        if isinstance(x, ast.Constant):
            return x.value
        if isinstance(x, ast.Call) and isinstance(x.func, ast.Attribute) and isinstance(x.func.value, ast.Name) and x.func.value.id == mp \
                and x.func.attr == "group" and not x.keywords and (not x.args or (len(x.args) == 1 and isinstance(x.args[0], ast.Constant) and x.args[0].value == 0)):
            return text
        if isinstance(x, ast.Subscript) and isinstance(x.value, ast.Name) and x.value.id == mp and isinstance(x.slice, ast.Constant) and x.slice.value == 0:
            return text
        if isinstance(x, ast.IfExp):
            return ev(x.body, text) if ev(x.test, text) else ev(x.orelse, text)
        if isinstance(x, ast.BoolOp):
            v: Any = None
            for y in x.values:
                v = ev(y, text)
                if (isinstance(x.op, ast.And) and not v) or (isinstance(x.op, ast.Or) and v):
                    return v
            return v
        if isinstance(x, ast.UnaryOp) and isinstance(x.op, ast.Not):
            return not ev(x.operand, text)
        if isinstance(x, ast.Compare) and len(x.ops) == 1:
            a, b = ev(x.left, text), ev(x.comparators[0], text)
            op = x.ops[0]
            try:
                if isinstance(op, ast.Eq):
                    return a == b
                if isinstance(op, ast.NotEq):
                    return a != b
                if isinstance(op, ast.In):
                    return a in b
                if isinstance(op, ast.NotIn):
                    return a not in b
            except TypeError:
                raise _Unsupported
            raise _Unsupported
        if isinstance(x, (ast.Tuple, ast.List, ast.Set)):
            return tuple(ev(y, text) for y in x.elts)
        if isinstance(x, ast.Dict) and all(k is not None for k in x.keys):
            return {ev(k, text): ev(v_, text) for k, v_ in zip(x.keys, x.values)}          # type: ignore[arg-type]
        if isinstance(x, ast.Subscript):
            tab, k = ev(x.value, text), ev(x.slice, text)
            if isinstance(tab, dict) and k in tab:
                return tab[k]
            raise _Unsupported          # a missing key raises at run time: not a normaliser
        if isinstance(x, ast.Call) and isinstance(x.func, ast.Attribute) and x.func.attr == "get" and 1 <= len(x.args) <= 2 and not x.keywords:
            tab = ev(x.func.value, text)
            if isinstance(tab, dict):
                return tab.get(ev(x.args[0], text), ev(x.args[1], text) if len(x.args) == 2 else None)
            raise _Unsupported
        if isinstance(x, ast.Name) and x.id != mp:
            d = f.module.defs.get(x.id)
            v_ = getattr(d, "value", None)
            if isinstance(d, (ast.Assign, ast.AnnAssign)) and v_ is not None and not any(
                    isinstance(y, ast.Name) and y.id == x.id and isinstance(y.ctx, ast.Store) for g in c.p.all_funcs() if g.module is f.module for y in ast.walk(g.node)):
                return ev(v_, text)
        raise _Unsupported

    def run(stmts: list[ast.stmt], text: str) -> Any:
        for s_ in stmts:
            if isinstance(s_, ast.Expr) and isinstance(s_.value, ast.Constant):
                continue
            if isinstance(s_, ast.Return) and s_.value is not None:
                return ("ret", ev(s_.value, text))
            if isinstance(s_, ast.If):
                r_ = run(s_.body if ev(s_.test, text) else s_.orelse, text)
                if r_ is not None:
                    return r_
                continue
            raise _Unsupported
        return None

    def call(text: str) -> str:
        if isinstance(node, ast.Lambda):
            v = ev(node.body, text)
        else:
            r_ = run(node.body, text)          # type: ignore[attr-defined]
            if r_ is None:
                raise _Unsupported
            v = r_[1]
        if not isinstance(v, str):
            raise _Unsupported
        return v
    return call


def _callable_sub_facts(pat: str, flags: int, fn) -> tuple[frozenset, int]:
    """Facts established by `<RE>.sub(fn, s)` for a replacement function (see _repl_function), decided on all strings over
    {CR, LF, NUL, a} up to length 4: no CR / no NUL is left, and the result is exactly what the reference replace chains give
    (anything else the substitution does to the text is not part of normalisation and forfeits every fact)."""
    rx = re.compile(pat, flags)
    n = 0
    outs: list[tuple[str, str]] = []
    try:
        for s in _alphabet_strings("\r\n\0a", 4):
            n += 1
            outs.append((s, rx.sub(lambda m: fn(m.group()), s)))
        nl_ok = all("\r" not in o for (_, o) in outs)
        nul_ok = all("\0" not in o for (_, o) in outs)
        r0 = fn("\0") if nul_ok else ""
    except _Unsupported:
        return frozenset(), n
    if "\r" in r0 or "\0" in r0:
        return frozenset(), n
    for (s, o) in outs:
        ref = s
        if nl_ok:
            ref = ref.replace("\r\n", "\n").replace("\r", "\n")
        if nul_ok:
            ref = ref.replace("\0", r0)
        if o != ref:
            return frozenset(), n
    got: set[str] = set()
    if nl_ok:
        got |= {"crlf", "cr"}
    if nul_ok:
        got |= {"nul"}
    return frozenset(got), n


class _NormProblem(Problem):
    """var -> frozenset of facts about the string it holds: 'crlf' (no CR LF pair left), 'cr' (no CR left), 'nul' (no NUL left)."""

    def __init__(self, c: Ctx, f: Func, src_expr: str) -> None:
        self.c, self.f, self.src = c, f, src_expr
        self.evaluated = 0

    def entry_state(self) -> dict:
        return {}

    def join(self, a: dict, b: dict, at: Node) -> dict:
        return {k: a[k] & b[k] for k in a.keys() & b.keys()}

    def facts_of(self, e: ast.AST, env: dict) -> frozenset | None:
        """Facts of the string value of e; None = not derived from the source at all."""
        if isinstance(e, ast.Name):
            return env.get(e.id)
        if U(e) == self.src:
            return env.get(self.src, frozenset())
        if isinstance(e, ast.Call) and isinstance(e.func, ast.Attribute):
            fn = e.func
            # <RE>.sub(repl, w)
            if fn.attr == "sub" and len(e.args) >= 2:
                rx = _regex_of(self.c, self.f, fn.value)
                w = self.facts_of(e.args[1], env)
                if rx is None or w is None:
                    return frozenset() if w is not None else None
                repl = e.args[0].value if isinstance(e.args[0], ast.Constant) else None
                fn_ = _repl_function(self.c, self.f, e.args[0]) if repl is None else None
                if fn_ is not None:
                    got, n = _callable_sub_facts(rx[0], rx[1], fn_)
                    self.evaluated += n
                    return w | got
                if isinstance(repl, str):
                    ok, n = _is_newline_normaliser(rx[0], rx[1], repl)
                    self.evaluated += n
                    if ok:
                        return w | {"crlf", "cr"}
                    ok, n = _is_nul_replacer(rx[0], rx[1])
                    self.evaluated += n
                    if ok and "\0" not in repl and "\r" not in repl:
                        return w | {"nul"}
                return frozenset()
            # w.replace(a, b)   (a, b literals or module-level string constants)
            def _lit(x: ast.AST):
                if isinstance(x, ast.Constant):
                    return x.value if isinstance(x.value, str) else None
                if isinstance(x, (ast.Name, ast.Attribute)) and not (isinstance(x, ast.Name) and self.c.tf.scope(self.f).is_local(x.id)):
                    try:
                        v_ = self.c.p.fold(self.f.module, x)
                    except Exception:          # noqa: BLE001
                        return None
                    return v_ if isinstance(v_, str) else None
                return None
            if fn.attr == "replace" and len(e.args) == 2 and all(_lit(a) is not None for a in e.args):
                w = self.facts_of(fn.value, env)
                if w is None:
                    return None
                a, b = _lit(e.args[0]), _lit(e.args[1])
                if a == "\r\n" and b == "\n":
                    return w | {"crlf"}
                if a == "\r" and b == "\n":
                    return (w | {"cr"}) if "crlf" in w else frozenset(w - {"cr"})
                if a == "\0" and "\0" not in b and "\r" not in b:
                    return w | {"nul"}
                if "\r" in b or "\0" in b:
                    return frozenset()
                return frozenset()           # any other rewrite of the source is not part of normalisation
            w = self.facts_of(fn.value, env)
            if w is not None:
                return frozenset()           # unknown string method on the flowing value (splitlines, strip, ...)
            for a in e.args:
                if self.facts_of(a, env) is not None:
                    return frozenset()       # "\n".join(<derived>) etc.
            return None
        if isinstance(e, ast.Call):
            # a helper of the same module applied to the flowing value: the facts of what it returns, with its parameter
            # starting from the facts of the argument
            depth = getattr(self, "depth", 0)
            # (resolved by name: the rule works on an unrolled copy of the function, whose nodes the call graph does not know)
            h = self.c.p.resolve(self.f.module, e.func) if isinstance(e.func, ast.Name) else None
            if isinstance(h, Func) and h.module is self.f.module and h is not self.f and h.cls is None and depth < 3 \
                    and not e.keywords and len(e.args) <= len(h.node.args.args):
                hentry: dict = {}
                flowing = False
                for pn, a_ in zip([a.arg for a in h.node.args.args], e.args):
                    fx_ = self.facts_of(a_, env) if a_ is not None else None
                    if fx_ is not None:
                        hentry[pn] = fx_
                        flowing = True
                if flowing:
                    hp = _NormProblem(self.c, h, "\0no-src")
                    hp.depth = depth + 1          # type: ignore[attr-defined]
                    hp.entry_state = lambda he=hentry: dict(he)          # type: ignore[method-assign]
                    hcfg = self.c.cfg(h)
                    hres = solve(hcfg, hp, widen_after=10**9)
                    self.evaluated += hp.evaluated
                    acc = None
                    for rn in hcfg.nodes:
                        if rn.kind == "stmt" and isinstance(rn.ast, ast.Return) and hres.get(rn.id) is not None:
                            fx_ = hp.facts_of(rn.ast.value, hres[rn.id]) if rn.ast.value is not None else None
                            fx_ = frozenset() if fx_ is None else fx_
                            acc = fx_ if acc is None else acc & fx_
                    return acc if acc is not None else frozenset()
            for a in list(e.args):
                if self.facts_of(a, env) is not None:
                    return frozenset()
            return None
        if isinstance(e, ast.IfExp):
            a, b = self.facts_of(e.body, env), self.facts_of(e.orelse, env)
            if a is None or b is None:
                return a if b is None else b
            return a & b
        if isinstance(e, (ast.BinOp, ast.JoinedStr, ast.Subscript)):
            subs = [self.facts_of(x, env) for x in ast.iter_child_nodes(e) if isinstance(x, ast.expr)]
            subs = [s for s in subs if s is not None]
            if subs:
                out = subs[0]
                for s in subs[1:]:
                    out = out & s
                # concatenation can create a CR LF pair across the seam; slices are safe
                return out if isinstance(e, ast.Subscript) else frozenset(out - {"crlf"}) if len(subs) > 1 else out
        return None

    def edge(self, n: Node, state: dict, label: str, succ: Node) -> dict | None:
        env = dict(state)
        a = n.ast
        if a is None:
            return env
        if n.kind == "test" and label in ("T", "F"):
            # "<lit>" in v   /   "<lit>" not in v (decomposed by the CFG into `in` with swapped edges)
            if isinstance(a, ast.Compare) and len(a.ops) == 1 and isinstance(a.left, ast.Constant) and isinstance(a.left.value, str):
                v = a.comparators[0]
                key = v.id if isinstance(v, ast.Name) else (self.src if U(v) == self.src else None)
                absent = (isinstance(a.ops[0], ast.In) and label == "F") or (isinstance(a.ops[0], ast.NotIn) and label == "T")
                if key is not None and absent:
                    cur = env.get(key, frozenset() if key == self.src else None)
                    if cur is not None:
                        lit = a.left.value
                        add: set[str] = set()
                        if lit == "\r":
                            add = {"crlf", "cr"}
                        elif lit == "\r\n":
                            add = {"crlf"}
                        elif lit == "\0":
                            add = {"nul"}
                        env[key] = cur | add
            return env
        if n.kind == "stmt" and isinstance(a, (ast.Assign, ast.AnnAssign)) and getattr(a, "value", None) is not None:
            fx = self.facts_of(a.value, env)
            tg = a.targets if isinstance(a, ast.Assign) else [a.target]
            for t in tg:
                k = t.id if isinstance(t, ast.Name) else (self.src if U(t) == self.src else None)
                if k is None:
                    continue
                if fx is None:
                    env.pop(k, None)
                else:
                    env[k] = fx
        elif n.kind == "stmt" and isinstance(a, ast.AugAssign) and isinstance(a.target, ast.Name):
            if a.target.id in env:
                env[a.target.id] = frozenset()
        return env


def _unroll_const_loops(c: Ctx, f: Func) -> ast.AST:
    """A copy of f's body in which every `for <targets> in <module-level tuple/list literal>` is replaced by its body repeated once
    per element, the targets substituted by the element's expressions (a table-driven loop is the same program as the
    straight-line code it abbreviates)."""
    import copy
    fn = copy.deepcopy(f.node)

    def table_of(it: ast.AST):
        if isinstance(it, ast.Name):
            d = f.module.defs.get(it.id)
            v = getattr(d, "value", None)
            if isinstance(v, (ast.Tuple, ast.List)) and it.id not in {x.id for x in ast.walk(f.node) if isinstance(x, ast.Name) and isinstance(x.ctx, ast.Store)}:
                return v
        if isinstance(it, (ast.Tuple, ast.List)):
            return it
        return None

    class R(ast.NodeTransformer):
        def visit_For(self, node: ast.For):
            self.generic_visit(node)
            tab = table_of(node.iter)
            if tab is None or node.orelse or any(isinstance(x, (ast.Break, ast.Continue)) for b in node.body for x in ast.walk(b)):
                return node
            out: list[ast.stmt] = []
            for e in tab.elts:
                if isinstance(node.target, ast.Name):
                    sub = {node.target.id: e}
                elif isinstance(node.target, ast.Tuple) and isinstance(e, (ast.Tuple, ast.List)) and len(e.elts) == len(node.target.elts) \
                        and all(isinstance(t, ast.Name) for t in node.target.elts):
                    sub = {t.id: v for t, v in zip(node.target.elts, e.elts)}
                else:
                    return node

                class S(ast.NodeTransformer):
                    def visit_Name(self, n: ast.Name):
                        if isinstance(n.ctx, ast.Load) and n.id in sub:
                            return ast.copy_location(copy.deepcopy(sub[n.id]), n)
                        return n
                for b in node.body:
                    out.append(S().visit(copy.deepcopy(b)))
            return out or node
    fn = R().visit(fn)
    ast.fix_missing_locations(fn)
    return fn


def rule_norm(c: Ctx) -> RuleResult:
    r = RuleResult("NORM", "normalize is the first core rule everywhere, and what it stores into state.src has passed, on every path, "
                           "through a complete CR LF / CR -> LF normalisation and the NUL replacement")
    core = c.reg.rules["core"]
    norm = next((reg for reg in core if reg.name == "normalize"), None)
    if norm is None:
        r.add("table|normalize", "markdown_it/parser_core.py:0", "-", "_rules", "violation", "no core rule named `normalize` is registered")
        r.floor = 1
        return r
    r.add("table|first", c.where(norm.func, norm.func.node), "parser_core._rules", f"index of 'normalize' = {norm.index}",
          "discharged" if norm.index == 0 else "violation",
          "normalize is the first core rule: nothing reads the source before it" if norm.index == 0 else
          f"normalize is registered at position {norm.index}: {[x.name for x in core[:norm.index]]} see CR / NUL characters")
    for name, cfg_ in sorted(presets(c.p).items()):
        comp = (cfg_.get("components") or {}).get("core") or {}
        rules = comp.get("rules")
        ok = rules is None or "normalize" in rules
        r.add(f"preset|{name}", f"markdown_it/presets/{name}.py:0", f"presets.{name}.make", f"core rules = {rules}",
              "discharged" if ok else "violation",
              "core rule list absent (all enabled) or contains normalize" if ok else "the preset's core rule list omits normalize")
    # process() runs the chain in order
    proc = c.p.func("parser_core.py:ParserCore.process")
    loops = [n for n in own_nodes(proc.node) if isinstance(n, ast.For)]
    it0 = loops[0].iter if loops else None
    if isinstance(it0, ast.Name):
        ds0 = [n.value for n in own_nodes(proc.node) if isinstance(n, ast.Assign) and any(isinstance(t, ast.Name) and t.id == it0.id for t in n.targets)]
        it0 = ds0[0] if len(ds0) == 1 else it0
    ok = len(loops) == 1 and isinstance(it0, ast.Call) and U(it0.func).endswith("getRules") \
        and not any(isinstance(x, ast.Call) and U(x.func) in ("reversed", "sorted") for x in ast.walk(it0))
    r.add("process|order", c.where(proc, proc.node), proc.short, "for rule in self.ruler.getRules(''): rule(state)",
          "discharged" if ok else "violation",
          "the core chain is executed in registration order" if ok else "ParserCore.process does not simply iterate the compiled chain")
    # the body
    f = norm.func
    st = f.node.args.args[0].arg
    src = f"{st}.src"
    from ..cfg import CFG as _CFG
    cfg = _CFG(_unroll_const_loops(c, f))
    prob = _NormProblem(c, f, src)
    res = solve(cfg, prob, widen_after=10**9)
    stores = [n for n in cfg.nodes if n.kind == "stmt" and isinstance(n.ast, ast.Assign) and any(U(t) == src for t in n.ast.targets)]
    r.functions += 1
    if not stores:
        r.add("body|store", c.where(f, f.node), f.short, f"{src} = ...", "violation", f"normalize never stores back into {src}")
    for n in stores:
        env = res.get(n.id)
        if env is None:
            continue
        fx = prob.facts_of(n.ast.value, env)
        fx = fx if fx is not None else frozenset()
        miss = sorted(NEED - fx)
        what = {"crlf": "CR LF pairs are not replaced on some path", "cr": "lone CR characters are not replaced on some path (or before the "
                "CR LF pairs)", "nul": "NUL characters are not replaced on some path"}
        r.add("body|store", c.where(f, n.ast), f.short, U(n.ast), "discharged" if not miss else "violation",
              "on every path the stored value has no CR LF pair, no CR and no NUL left (regex languages decided on all strings over "
              "{CR, LF, a} up to length 5)" if not miss else "; ".join(what[m] for m in miss) + ": the encodings of one document no longer "
              "parse identically, or CR / NUL reaches token content")
    # every path to the exit stores
    exits_without = False
    sid = {n.id for n in stores}
    seen: set[int] = set()
    stack = [cfg.entry]
    while stack:
        n = stack.pop()
        if n.id in seen or n.id in sid:
            continue
        seen.add(n.id)
        if n is cfg.exit:
            exits_without = True
            break
        stack.extend(m for (m, l) in n.succ if l != "exc")
    # an early exit is fine when the source provably needs no change on that path
    if exits_without:
        okall = True
        for (p, l) in cfg.exit.pred:
            env = res.get(p.id)
            if env is None or p.id in sid:
                continue
            out = prob.edge(p, env, l, cfg.exit) or {}
            if not NEED <= out.get(src, frozenset()):
                # was a store on the way?
                if not _store_on_all_paths(cfg, p, sid):
                    okall = False
        r.add("body|all-paths", c.where(f, f.node), f.short, "exits of normalize", "discharged" if okall else "violation",
              "exits that do not store are reached only when the source needs no change" if okall else
              "normalize can return without storing the normalised string")
    else:
        r.add("body|all-paths", c.where(f, f.node), f.short, "exits of normalize", "discharged", "every path stores the normalised string")
    r.extra_evals = prob.evaluated          # type: ignore[attr-defined]
    r.notes.append(f"regex language decisions: {prob.evaluated} strings evaluated against the reference replace chain")
    r.floor = 6
    return r


def _store_on_all_paths(cfg: CFG, target: Node, sid: set[int]) -> bool:
    seen: set[int] = set()
    stack = [cfg.entry]
    while stack:
        n = stack.pop()
        if n.id in seen or n.id in sid:
            continue
        seen.add(n.id)
        if n is target:
            return False
        stack.extend(m for (m, l) in n.succ if l != "exc")
    return True


# ------------------------------------------------------------------------------------------------ FRAME
_LINE_TABLES = ("bsCount", "sCount", "tShift", "bMarks", "eMarks")


def _is_line_table(f: Func, e: ast.AST) -> bool:
    """e denotes one of the per-line tables: `<state>.bMarks`, or a local bound only to such an attribute (also as a component of
    `bMarks, eMarks = self.bMarks, self.eMarks`)."""
    if isinstance(e, ast.Attribute):
        return e.attr in _LINE_TABLES
    if isinstance(e, ast.Name):
        vals: list[ast.AST | None] = []
        for n in own_nodes(f.node):
            if isinstance(n, ast.Assign):
                for t in n.targets:
                    if isinstance(t, ast.Name) and t.id == e.id:
                        vals.append(n.value)
                    elif isinstance(t, (ast.Tuple, ast.List)):
                        for k, x in enumerate(t.elts):
                            if isinstance(x, ast.Name) and x.id == e.id:
                                vals.append(n.value.elts[k] if isinstance(n.value, (ast.Tuple, ast.List)) and len(n.value.elts) == len(t.elts) else None)
        return bool(vals) and all(isinstance(v, ast.Attribute) and v.attr in _LINE_TABLES for v in vals)
    return False


def _tabstops(fn: ast.AST) -> list[ast.BinOp]:
    out = []
    for n in own_nodes(fn):
        if isinstance(n, ast.BinOp) and isinstance(n.op, ast.Mod) and isinstance(n.right, ast.Constant) and n.right.value == 4:
            out.append(n)
    return out


def _mentions_bscount(e: ast.AST) -> bool:
    return any(isinstance(x, ast.Attribute) and x.attr == "bsCount" for x in ast.walk(e))


def rule_frame(c: Ctx) -> RuleResult:
    r = RuleResult("FRAME", "column frames: tab stops are computed on absolute columns (a bsCount term is present), stores to bsCount keep "
                            "it absolute, and per-line marker flags used in column arithmetic come from the line they are applied to")
    c = c.normalised("rules_block/")
    r.notes += c.norm_notes()
    phase = c.cg.parse_phase()
    n1 = n2 = 0
    for f in sorted(phase, key=lambda x: x.qual):
        if not f.module.rel.startswith(("rules_block/", "parser_block")):
            continue
        if f.short == "StateBlock.__init__":
            pass
        col_flags: dict[str, list[ast.AST]] = {}
        # ---- T1
        for m in _tabstops(f.node):
            n1 += 1
            key = f"{f.short}|T1|{alpha(f, m)}"
            if _is_ctor_scan(c, f):
                r.add(key, c.where(f, m), f.short, U(m), "exempt", "constructor scan: a physical line is scanned from its start, the frames coincide")
                continue
            from ..interproc import expand
            ok = _absolute(m.left) or _absolute(expand(c, f, m.left, m))
            r.add(key, c.where(f, m), f.short, U(m), "discharged" if ok else "violation",
                  "tab stop computed on the absolute column (bsCount term present)" if ok else
                  "tab stop computed on a column relative to the logical line start: inside a container whose prefix is not a multiple "
                  "of four columns a tab expands to the wrong width (tab and space spellings parse differently)")
            for x in ast.walk(m.left):
                if isinstance(x, ast.IfExp) and isinstance(x.test, ast.Name):
                    col_flags.setdefault(x.test.id, []).append(x.test)
            # ---- T4: a line-table cell used in the computation through a local alias must not be hoisted out of a loop that moves
            #          on to other lines (the alias keeps the offset of the line it was read for)
            for x in ast.walk(m.left):
                if not isinstance(x, ast.Name):
                    continue
                defs = [d for d in own_nodes(f.node) if isinstance(d, ast.Assign) and len(d.targets) == 1 and isinstance(d.targets[0], ast.Name)
                        and d.targets[0].id == x.id]
                if len(defs) != 1 or not (isinstance(defs[0].value, ast.Subscript) and isinstance(defs[0].value.value, ast.Attribute)
                                          and defs[0].value.value.attr in ("bsCount", "sCount", "tShift", "bMarks", "eMarks")):
                    continue
                d = defs[0]
                idx_names = {y.id for y in ast.walk(d.value.slice) if isinstance(y, ast.Name)}
                loops = []
                q = f.module.parents.get(m)
                while q is not None and q is not f.node:
                    if isinstance(q, (ast.While, ast.For)):
                        loops.append(q)
                    q = f.module.parents.get(q)
                stale = ""
                for L in loops:
                    if any(y is d for y in ast.walk(L)):
                        continue            # defined inside this loop: re-read on every iteration
                    stored = {t.id for n_ in ast.walk(L) for t in _store_names(n_)}
                    moved = stored & idx_names
                    if moved:
                        stale = f"`{x.id} = {U(d.value)}` is read once before the loop at line {L.lineno}, which reassigns {sorted(moved)}"
                        break
                    # a loop over lines (it indexes the line tables by a variable it moves): a cell read before the loop belongs
                    # to one fixed line, whatever its index is called
                    line_vars = {y.id for n_ in ast.walk(L) if isinstance(n_, ast.Subscript) and _is_line_table(f, n_.value)
                                 for y in ast.walk(n_.slice) if isinstance(y, ast.Name)} & stored
                    if line_vars:
                        stale = (f"`{x.id} = {U(d.value)}` is read once before the loop at line {L.lineno}, which walks the lines "
                                 f"({sorted(line_vars)}) and measures each of them with that one cell")
                        break
                r.add(f"{f.short}|T4|{alpha(f, m)}|{x.id}", c.where(f, m), f.short, U(m), "violation" if stale else "discharged",
                      f"a stale copy of a line-table cell is used for the column: {stale}; later lines are measured with the first line's "
                      f"offset" if stale else f"the hoisted cell `{x.id}` is read for the line that is being measured")
        # ---- T2
        for n in own_nodes(f.node):
            tgt = val = None
            aug = False
            if isinstance(n, ast.Assign) and len(n.targets) == 1:
                tgt, val = n.targets[0], n.value
            elif isinstance(n, ast.AugAssign):
                tgt, val, aug = n.target, n.value, True
            if not (isinstance(tgt, ast.Subscript) and isinstance(tgt.value, ast.Attribute) and tgt.value.attr == "bsCount"):
                continue
            n2 += 1
            key = f"{f.short}|T2|{alpha(f, n)[:80]}"
            if _is_ctor_scan(c, f):
                r.add(key, c.where(f, n), f.short, U(n)[:80], "exempt", "constructor")
                continue
            restore = _is_restore(f, val) or _is_loop_restore(c, f, n, val)
            same_cell = any(isinstance(x, ast.Subscript) and U(x) == U(tgt) for x in ast.walk(val))
            ok = aug and isinstance(n.op, ast.Add) or restore or same_cell
            r.add(key, c.where(f, n), f.short, U(n)[:90], "discharged" if ok else "violation",
                  ("restore from the save list" if restore else "the new value is built from the cell's previous (absolute) value") if ok else
                  "bsCount of the line is overwritten with a quantity relative to the current logical start: the offset inherited from "
                  "an enclosing quote is lost, so tabs inside nested quotes expand from the wrong column")
            for x in ast.walk(val):
                if isinstance(x, ast.IfExp) and isinstance(x.test, ast.Name):
                    col_flags.setdefault(x.test.id, []).append(x.test)
        # ---- T3
        if col_flags:
            _t3(c, r, f, col_flags)
    if n1 < 5 or n2 < 2:
        raise AnchorError(f"only {n1} tab-stop computations / {n2} bsCount stores found")
    r.floor = 8
    return r


def _store_names(n: ast.AST) -> list[ast.Name]:
    tg: list[ast.AST] = []
    if isinstance(n, ast.Assign):
        tg = list(n.targets)
    elif isinstance(n, (ast.AugAssign, ast.AnnAssign)):
        tg = [n.target]
    elif isinstance(n, ast.For):
        tg = [n.target]
    return [x for t in tg for x in ast.walk(t) if isinstance(x, ast.Name)]


def _absolute(e: ast.AST) -> bool:
    """The column expression carries the bsCount term on every alternative: a sum has it if one operand has it, a conditional
    expression only if both arms do (`a + bsCount + 1 if flag else 0` parses as `(a + bsCount + 1) if flag else 0`)."""
    if isinstance(e, ast.IfExp):
        return _absolute(e.body) and _absolute(e.orelse)
    if isinstance(e, ast.BinOp) and isinstance(e.op, (ast.Add, ast.Sub)):
        return _absolute(e.left) or _absolute(e.right)
    if isinstance(e, ast.BinOp):
        return False
    if isinstance(e, (ast.Constant, ast.Name)):
        return False
    return _mentions_bscount(e)


def _is_ctor_scan(c: Ctx, f: Func) -> bool:
    """StateBlock.__init__, or a helper only it calls that has no access to a StateBlock (it scans raw physical lines)."""
    if f.short == "StateBlock.__init__":
        return True
    init = c.p.func("rules_block/state_block.py:StateBlock.__init__")
    callers = c.cg.callers.get(f, [])
    if not callers or any(cs.caller is not init for cs in callers):
        return False
    sc = c.tf.scope(f)
    return not any(sc.env.get(a.arg) == "StateBlock" for a in f.node.args.posonlyargs + f.node.args.args)


def _is_loop_restore(c: Ctx, f: Func, stmt: ast.AST, val: ast.AST) -> bool:
    """The value is a component of the target of a `for` over the rule's save structure (the LOCK model)."""
    if not isinstance(val, (ast.Name, ast.Subscript)):
        return False
    loop = f.module.parents.get(stmt)
    while loop is not None and not isinstance(loop, ast.For):
        loop = f.module.parents.get(loop)
        if loop is f.node:
            return False
    if loop is None:
        return False
    from .ctx_rules import SaveModel
    st = f.node.args.args[0].arg if f.node.args.args else "state"
    m = SaveModel(c, f, st)
    if not m.lists:
        return False
    names = {x.id for x in ast.walk(loop.iter) if isinstance(x, ast.Name)}
    tnames = {x.id for x in ast.walk(loop.target) if isinstance(x, ast.Name)}
    base = val.id if isinstance(val, ast.Name) else (val.value.id if isinstance(val.value, ast.Name) else None)
    return bool(names & set(m.lists)) and base in tnames


def _is_restore(f: Func, val: ast.AST) -> bool:
    """value is an element of a local list that only ever receives saved bsCount cells."""
    if isinstance(val, ast.Subscript) and isinstance(val.value, ast.Name):
        name = val.value.id
        srcs = []
        for n in own_nodes(f.node):
            if isinstance(n, ast.Assign) and any(isinstance(t, ast.Name) and t.id == name for t in n.targets):
                empty = (isinstance(n.value, ast.List) and not n.value.elts) or (
                    isinstance(n.value, ast.Call) and U(n.value.func) == "list" and not n.value.args and not n.value.keywords)
                if not empty:          # the empty initial list holds nothing yet
                    srcs.append(n.value)
            if isinstance(n, ast.Call) and isinstance(n.func, ast.Attribute) and n.func.attr == "append" and U(n.func.value) == name:
                srcs.extend(n.args)
        return bool(srcs) and all(_mentions_bscount(s) for s in srcs)
    return False


class _MustDef(Problem):
    def __init__(self, names: set[str], dontcare_blocks: set[int]) -> None:
        self.names, self.dc = names, dontcare_blocks

    def entry_state(self):
        return frozenset()

    def join(self, a, b, at):
        return a & b

    def edge(self, n: Node, state, label: str, succ: Node):
        a = n.ast
        st = set(state)
        if n.kind == "stmt" and isinstance(a, (ast.Assign, ast.AnnAssign, ast.AugAssign)):
            tg = a.targets if isinstance(a, ast.Assign) else [a.target]
            for t in tg:
                for x in ast.walk(t):
                    if isinstance(x, ast.Name) and x.id in self.names:
                        st.add(x.id)
            if id(a) in self.dc:
                st |= self.names
        return frozenset(st)


def _t3(c: Ctx, r: RuleResult, f: Func, col_flags: dict[str, list[ast.AST]]) -> None:
    cfg = c.cfg(f)
    names = set(col_flags)
    # "no blank after the marker" statements: flag := False where the flag feeds a bsCount store -> no tab stop is computed from
    # this line's marker, the tab-stop flags are don't-care
    t2flags = set()
    for n in own_nodes(f.node):
        if isinstance(n, (ast.Assign, ast.AugAssign)):
            tgt = n.targets[0] if isinstance(n, ast.Assign) else n.target
            if isinstance(tgt, ast.Subscript) and isinstance(tgt.value, ast.Attribute) and tgt.value.attr == "bsCount":
                for x in ast.walk(n.value):
                    if isinstance(x, ast.IfExp) and isinstance(x.test, ast.Name):
                        t2flags.add(x.test.id)
    dc: set[int] = set()
    for n in own_nodes(f.node):
        if isinstance(n, ast.Assign) and len(n.targets) == 1 and isinstance(n.targets[0], ast.Name) and n.targets[0].id in t2flags \
                and isinstance(n.value, ast.Constant) and n.value.value is False:
            dc.add(id(n))
    loops = [n for n in own_nodes(f.node) if isinstance(n, (ast.While, ast.For))]
    for name, reads in sorted(col_flags.items()):
        assigns = [n for n in own_nodes(f.node) if isinstance(n, ast.Assign) and any(isinstance(t, ast.Name) and t.id == name for t in n.targets)]
        for rd in reads:
            # region = innermost loop containing the read and an assignment of the flag; else the whole function
            region = None
            for l in loops:
                if any(x is rd for x in ast.walk(l)) and any(any(x is a for x in ast.walk(l)) for a in assigns):
                    if region is None or any(x is l for x in ast.walk(region)):
                        region = l
            ok = _mustdef_in_region(cfg, f, region, rd, name, names, dc)
            where = "this iteration of the per-line loop" if region is not None else "the function"
            r.add(f"{f.short}|T3|{name}|{'loop' if region is not None else 'first'}|{alpha(f, _enclosing_stmt(f, rd))[:50]}",
                  c.where(f, rd), f.short, f"{name} in {U(_enclosing_expr(f, rd))[:60]}", "discharged" if ok else "violation",
                  f"`{name}` is assigned in {where} on every path to this use (or no blank follows the marker)" if ok else
                  f"`{name}` can reach this column computation with a value assigned while processing an earlier line (or before the "
                  f"loop): the tab width of this line would depend on the marker of another line")


def _enclosing_stmt(f: Func, n: ast.AST) -> ast.AST:
    p = n
    while p in f.module.parents and not isinstance(p, ast.stmt):
        p = f.module.parents[p]
    return p


def _enclosing_expr(f: Func, n: ast.AST) -> ast.AST:
    p = n
    while p in f.module.parents and not isinstance(f.module.parents[p], ast.stmt):
        p = f.module.parents[p]
    return p


def _mustdef_in_region(cfg: CFG, f: Func, region: ast.AST | None, rd: ast.AST, name: str, names: set[str], dc: set[int]) -> bool:
    prob = _MustDef(names, dc)
    if region is None:
        res = solve(cfg, prob, widen_after=10**9)
        for n in cfg.owner(rd):
            st = res.get(n.id)
            if st is not None and name not in st:
                return False
        return True
    # restart the analysis at the loop head: states entering the head from anywhere are reset to the empty set
    head = next((n for n in cfg.nodes if n.kind in ("join", "for") and n.ast is region), None)
    if head is None:
        return False

    class P(_MustDef):
        def edge(self, n, state, label, succ):
            out = super().edge(n, state, label, succ)
            if succ is head:
                return frozenset()
            return out
    res = solve(cfg, P(names, dc), widen_after=10**9)
    for n in cfg.owner(rd):
        st = res.get(n.id)
        if st is not None and name not in st:
            return False
    return True


# ------------------------------------------------------------------------------------------------ SPACETAB
_SPACETAB_POSITIVE = r"[0-9]{1,9}[.)](?= |$)"


def _space_without_tab(pattern: str) -> list[str]:
    """Places of a regular expression that accept U+0020 but not U+0009 in the same class / alternation."""
    import re._parser as sp          # type: ignore[import-not-found]
    try:
        tree = sp.parse(pattern)
    except Exception:          # noqa: BLE001
        return []
    bad: list[str] = []

    def accepts(item, ch: int) -> bool:
        op, av = item
        name = str(op)
        if name == "LITERAL":
            return av == ch
        if name == "RANGE":
            return av[0] <= ch <= av[1]
        if name == "CATEGORY":
            return "SPACE" in str(av) and "NOT" not in str(av)
        return False

    def walk(seq) -> None:
        for op, av in seq:
            name = str(op)
            if name == "LITERAL" and av == 0x20:
                bad.append("a literal space")
            elif name == "IN":
                items = [x for x in av if str(x[0]) != "NEGATE"]
                neg = any(str(x[0]) == "NEGATE" for x in av)
                if not neg and any(accepts(x, 0x20) for x in items) and not any(accepts(x, 0x09) for x in items):
                    bad.append("a character class with space but no tab")
            elif name == "BRANCH":
                alts = av[1]
                # single-character alternatives: ( |$), ( |\t)
                singles = [a for a in alts if len(a) == 1]
                has_sp = any(str(a[0][0]) == "LITERAL" and a[0][1] == 0x20 for a in singles)
                has_tab = any(accepts(a[0], 0x09) for a in singles)
                if has_sp and not has_tab:
                    bad.append("an alternation with space but no tab")
                for a in alts:
                    walk([x for x in a if not (len(a) == 1 and str(x[0]) == "LITERAL" and x[1] == 0x20)])
            elif name in ("SUBPATTERN",):
                walk(av[3])
            elif name in ("MAX_REPEAT", "MIN_REPEAT", "POSSESSIVE_REPEAT"):
                walk(av[2])
            elif name in ("ASSERT", "ASSERT_NOT"):
                walk(av[1])
            elif name == "ATOMIC_GROUP":
                walk(av)
    walk(tree)
    return bad


def rule_spacetab(c: Ctx) -> RuleResult:
    r = RuleResult("SPACETAB", "a regular expression applied by a block rule accepts a tab wherever it accepts a space (structural "
                               "whitespace is space-or-tab; the hand-written scanners use isStrSpace)")
    planted = _space_without_tab(_SPACETAB_POSITIVE)
    if not planted:
        raise AnchorError("SPACETAB self-example did not match: the lint is broken")
    r.add("self-example", "<built-in>", "-", _SPACETAB_POSITIVE, "discharged", "trivial: the planted positive example is recognised (the lint is alive)")
    n = 0
    for (m, name, pat, flags, node) in c.p.regex_constants():
        if not m.rel.startswith("rules_block/"):
            continue
        n += 1
        bad = _space_without_tab(pat)
        where = f"markdown_it/{m.rel}:{getattr(node, 'lineno', 0)}"
        key = f"{m.rel}|{name or pat[:30]}"
        r.add(key, where, m.rel, repr(pat)[:70], "violation" if bad else "discharged",
              (f"the pattern has {bad[0]}: a marker followed by a tab is treated differently from the same marker followed by a space "
               f"(tab / space equivalence of structural whitespace)") if bad else "no place of the pattern accepts a space without accepting a tab")
    r.notes.append(f"{n} regular expressions of the block rules examined")
    r.floor = 1
    return r
