"""C08 / C09 rule families.

PROV    the payload of verbatim tokens (content of code_block / fence / html_block / code_inline), the markup / info of block
        tokens and the ordered-list start come from source-derived atoms through an allowed-transform list only;
UNIT    the indent handed to getLines is a column quantity (sCount / blkIndent / literals), never a character count;
UBLANK  no predicate over a payload uses a Unicode-blank-sensitive str method (argument-less strip / split / isspace);
PAD     the one-space padding of a code span is removed only under startswith(' ') and endswith(' ') and a not-all-spaces test;
TABLES  the four escapable-character tables denote the same set, the 32 ASCII punctuation characters; escape / entity emit the
        placeholder kind with the literal character as content;
ACCUM   a text accumulator (initialised "", extended with += inside a loop) is never overwritten with a fresh piece inside the loop.
"""
from __future__ import annotations

import ast
import string as _string
from typing import Any

from ..core import AnchorError, Func, U, own_nodes
from ..ctx import Ctx
from ..reach import Reaching
from ..report import RuleResult, alpha
from ..tokens import literal_strs, token_sites

VERBATIM = {"code_block", "fence", "html_block", "code_inline"}
BLANK_METHODS = {"strip", "lstrip", "rstrip", "split", "rsplit", "splitlines", "isspace", "expandtabs", "title", "capitalize"}
COLUMN_FIELDS = {"sCount", "blkIndent", "bsCount", "listIndent", "ddIndent"}
CHAR_FIELDS = {"tShift", "bMarks", "eMarks", "pos", "posMax"}


class Prov:
    def __init__(self, c: Ctx, f: Func, param_atoms: bool = False) -> None:
        self.c, self.f = c, f
        self.sc = c.tf.scope(f)
        self.rd = Reaching(c.cfg(f))
        self.params = {a.arg for a in f.node.args.posonlyargs + f.node.args.args + f.node.args.kwonlyargs}
        self.param_atoms = param_atoms        # inside a helper: its parameters stand for already checked values

    def _is_source(self, e: ast.AST) -> bool:
        """e denotes a source string: <state>.src, or a local alias of it (src = state.src)."""
        if isinstance(e, ast.Attribute) and e.attr == "src" and self.sc.type(e.value) in ("StateBlock", "StateInline", "StateCore"):
            return True
        if isinstance(e, ast.Name):
            ds = [n.value for n in own_nodes(self.f.node) if isinstance(n, ast.Assign) and any(isinstance(t, ast.Name) and t.id == e.id for t in n.targets)]
            others = [n for n in own_nodes(self.f.node) if isinstance(n, ast.Name) and n.id == e.id and isinstance(n.ctx, ast.Store)
                      and not isinstance(self.f.module.parents.get(n), ast.Assign)]
            return bool(ds) and not others and all(self._is_source(d) for d in ds)
        return False

    def bad(self, e: ast.AST, at: ast.AST, field: str, seen: frozenset[str] = frozenset(), depth: int = 0) -> str:
        """'' if e is an allowed derivation from the source, else the offending sub-expression and why."""
        if depth > 8:
            return f"derivation of `{U(e)[:40]}` too deep to follow"
        if isinstance(e, ast.Constant):
            # None stands for "no such text" (a helper that found nothing): the caller's test decides, nothing is recorded
            return "" if isinstance(e.value, (str, int)) or e.value is None else f"`{U(e)}`"
        if isinstance(e, ast.Subscript):
            if self._is_source(e.value):
                return ""                                          # src[a:b] / src[i]
            if self.param_atoms and isinstance(e.value, ast.Name) \
                    and e.value.id in {a.arg for a in self.f.node.args.posonlyargs + self.f.node.args.args + self.f.node.args.kwonlyargs} \
                    and not any(isinstance(n, ast.Name) and n.id == e.value.id and isinstance(n.ctx, ast.Store) for n in own_nodes(self.f.node)):
                return ""                                          # inside a helper: a character / slice of the (checked) argument
            if isinstance(e.value, ast.Constant) and isinstance(e.value.value, str):
                return ""                                          # constant slicing of a literal ("########"[:level])
            if isinstance(e.slice, ast.Slice):
                lo, hi = e.slice.lower, e.slice.upper
                if U(lo) if lo is not None else None in ("1", None) and e.slice.step is None:
                    inner = self.bad(e.value, at, field, seen, depth + 1)
                    if inner:
                        return inner
                    if (lo is None or (isinstance(lo, ast.Constant) and lo.value in (0, 1))) and \
                            (hi is None or U(hi) in ("-1",)):
                        return ""
                    return f"`{U(e)[:50]}`: slicing of a payload other than the one-character padding strip [1:-1]"
            return f"`{U(e)[:50]}`: element of something that is not the source"
        if isinstance(e, ast.BinOp) and isinstance(e.op, ast.Add):
            return self.bad(e.left, at, field, seen, depth + 1) or self.bad(e.right, at, field, seen, depth + 1)
        if isinstance(e, ast.BinOp) and isinstance(e.op, ast.Mult):
            # repetition of a source character: ch * n
            s, n = (e.left, e.right) if self.sc.type(e.left) == "str" or not isinstance(e.left, ast.Constant) else (e.right, e.left)
            return self.bad(s, at, field, seen, depth + 1)
        if isinstance(e, ast.IfExp):
            return self.bad(e.body, at, field, seen, depth + 1) or self.bad(e.orelse, at, field, seen, depth + 1)
        if isinstance(e, ast.Attribute):
            # the same token's own field (token.content = token.content[1:-1])
            if e.attr in ("content", "markup", "info") and self.sc.type(e.value) == "Token":
                return ""
            if e.attr == "src" and self.sc.type(e.value) in ("StateBlock", "StateInline", "StateCore"):
                return ""          # the source string itself (handed to a helper that reads from it)
            return f"`{U(e)[:50]}`: not a source-derived value"
        if isinstance(e, ast.Call):
            fn = e.func
            if isinstance(fn, ast.Attribute):
                if fn.attr == "getLines" and self.sc.type(fn.value) == "StateBlock":
                    return ""
                if fn.attr == "replace" and len(e.args) == 2 and all(isinstance(a, ast.Constant) for a in e.args):
                    if (e.args[0].value, e.args[1].value) == ("\n", " "):
                        return self.bad(fn.value, at, field, seen, depth + 1)
                    return f"`{U(e)[-40:]}`: replaces characters of a verbatim payload (only line ending -> space is allowed)"
                if fn.attr in ("group",) and field in ("markup", "info"):
                    return ""
                return f"`.{fn.attr}(...)` applied on the way from the source to the payload (`{U(e)[:50]}`): not in the allowed-transform list"
            cs = self.c.cg.site_of.get(e)
            if cs is not None and len(cs.callees) == 1 and cs.kind in ("direct", "method") and depth < 6 and not e.keywords:
                # a helper of the repository: its arguments must be allowed, and every value it returns must be built from its
                # parameters by the allowed transforms
                g = cs.callees[0]
                for a in e.args:
                    if self.sc.type(a) in ("str", None):
                        b = self.bad(a, at, field, seen, depth + 1)
                        if b:
                            return b
                hp = Prov(self.c, g, param_atoms=True)
                rets = [n for n in own_nodes(g.node) if isinstance(n, ast.Return) and n.value is not None]
                if not rets:
                    return f"`{U(e)[:40]}`: helper {g.short} returns nothing"
                for rt in rets:
                    b = hp.bad(rt.value, rt, field, frozenset(), depth + 1)
                    if b:
                        return f"in helper {g.short}: {b}"
                return ""
            if isinstance(fn, ast.Name):
                if fn.id == "int" and field == "attrs.start" and len(e.args) == 1:
                    return self.bad(e.args[0], at, field, seen, depth + 1)
                if fn.id == "chr" and field in ("markup",):
                    return ""
                return f"`{fn.id}(...)` applied on the way from the source to the payload (`{U(e)[:50]}`): not in the allowed-transform list"
            return f"`{U(e)[:50]}`"
        if isinstance(e, ast.Name):
            if e.id in seen:
                return ""
            ds = self.rd.at_ast(at, e.id)
            if not ds:
                return f"`{e.id}`: no reaching definition found"
            for d in ds:
                if d.kind == "param":
                    if self.param_atoms:
                        continue
                    return f"`{e.id}` is a parameter: its provenance is not visible here"
                if d.kind == "aug":
                    v = d.value
                    b = self.bad(v, d.stmt, field, seen | {e.id}, depth + 1)
                    if b:
                        return b
                    continue
                if d.kind not in ("assign", "walrus") or d.value is None:
                    return f"`{e.id}` is bound by a {d.kind} (not an assignment from the source)"
                b = self.bad(d.value, d.stmt, field, seen | {e.id}, depth + 1)
                if b:
                    return b
            return ""
        if isinstance(e, ast.JoinedStr):
            for v in e.values:
                if isinstance(v, ast.FormattedValue):
                    b = self.bad(v.value, at, field, seen, depth + 1)
                    if b:
                        return b
            return ""
        return f"`{U(e)[:50]}`"


def _kind_of_receiver(c: Ctx, f: Func, recv: ast.AST, at: ast.AST, rd: Reaching) -> tuple[set[str], str]:
    """Token kinds a receiver name can hold at `at` and how it was pushed ('block' | 'inline' | '?')."""
    kinds: set[str] = set()
    via = "?"
    if isinstance(recv, ast.Name):
        for d in rd.at_ast(at, recv.id):
            v = d.value
            if d.kind == "assign" and isinstance(v, ast.Call):
                cs = c.cg.site_of.get(v)
                if cs is not None and any(g.name == "push" for g in cs.callees):
                    ks = literal_strs(v.args[0]) if v.args else None
                    if ks:
                        kinds.update(ks)
                    if any(g.cls == "StateBlock" for g in cs.callees):
                        via = "block"
                    elif any(g.cls == "StateInline" for g in cs.callees):
                        via = "inline"
                    continue
                if cs is not None and cs.kind == "ctor" and cs.detail == "Token":
                    ks = literal_strs(v.args[0]) if v.args else None
                    if ks:
                        kinds.update(ks)
                    continue
            kinds.add("?")
    return kinds, via


def rule_prov(c: Ctx) -> RuleResult:
    r = RuleResult("PROV", "verbatim payloads (content of code_block / fence / html_block / code_inline), markup / info of block tokens "
                           "and the ordered-list start are built from source slices by the allowed transforms only")
    n = 0
    for f in sorted(c.cg.parse_phase(), key=lambda x: x.qual):
        if not f.module.rel.startswith(("rules_block/", "rules_inline/")):
            continue
        sc = c.tf.scope(f)
        stores = []
        for s in own_nodes(f.node):
            if isinstance(s, ast.Assign) and len(s.targets) == 1:
                t = s.targets[0]
                if isinstance(t, ast.Attribute) and t.attr in ("content", "markup", "info") and sc.type(t.value) == "Token":
                    stores.append((s, t.value, t.attr, s.value))
                elif isinstance(t, ast.Attribute) and t.attr == "attrs" and sc.type(t.value) == "Token" and isinstance(s.value, ast.Dict):
                    for k, v in zip(s.value.keys, s.value.values):
                        if isinstance(k, ast.Constant) and k.value == "start":
                            stores.append((s, t.value, "attrs.start", v))
        if not stores:
            continue
        pv = Prov(c, f)
        r.functions += 1
        for (stmt, recv, field, val) in stores:
            kinds, via = _kind_of_receiver(c, f, recv, stmt, pv.rd)
            if field == "content" and not (kinds & VERBATIM):
                continue                          # content of inline containers etc. is interpreted text, not a verbatim payload
            if field in ("markup", "info") and via != "block" and not (kinds & VERBATIM):
                continue
            n += 1
            key = f"{f.short}|{'/'.join(sorted(kinds))}.{field}|{alpha(f, val)[:60]}"
            b = pv.bad(val, stmt, field)
            if not b:
                r.add(key, c.where(f, stmt), f.short, U(stmt)[:90], "discharged",
                      f"{'/'.join(sorted(kinds))}.{field} is built from source slices / getLines / literals by allowed transforms")
            else:
                r.add(key, c.where(f, stmt), f.short, U(stmt)[:90], "violation",
                      f"{'/'.join(sorted(kinds))}.{field}: {b}; the recorded text would no longer be the characters written in the source")
    if n < 12:
        raise AnchorError(f"only {n} payload stores found")
    r.floor = 12
    return r


def _unit(c: Ctx, f: Func, e: ast.AST, at: ast.AST, rd: Reaching, depth: int = 0) -> str:
    """'col' | 'char' | 'lit' | 'mixed:<why>' for an integer expression."""
    if depth > 6:
        return "mixed:too deep"
    if isinstance(e, ast.Constant) and isinstance(e.value, int):
        return "lit"
    if isinstance(e, ast.Subscript):
        return _unit(c, f, e.value, at, rd, depth + 1)
    if isinstance(e, ast.Attribute):
        if e.attr in COLUMN_FIELDS:
            return "col"
        if e.attr in CHAR_FIELDS:
            return "char"
        return "mixed:" + U(e)
    if isinstance(e, ast.BinOp) and isinstance(e.op, (ast.Add, ast.Sub)):
        a, b = _unit(c, f, e.left, at, rd, depth + 1), _unit(c, f, e.right, at, rd, depth + 1)
        for u in (a, b):
            if u.startswith("mixed"):
                return u
        us = {a, b} - {"lit"}
        if not us:
            return "lit"
        if len(us) == 1:
            return us.pop()
        return f"mixed:{U(e)[:40]} adds a column count and a character count"
    if isinstance(e, ast.Name):
        ds = rd.at_ast(at, e.id)
        us = set()
        for d in ds:
            if d.kind == "param":
                us.add("col" if e.id in ("indent",) else "mixed:param " + e.id)
            elif d.value is not None and d.kind in ("assign", "aug"):
                us.add(_unit(c, f, d.value, d.stmt, rd, depth + 1))
            else:
                us.add("mixed:" + e.id)
        us -= {"lit"}
        if not us:
            return "lit"
        if len(us) == 1:
            return us.pop()
        return "mixed:" + e.id
    if isinstance(e, ast.IfExp):
        a, b = _unit(c, f, e.body, at, rd, depth + 1), _unit(c, f, e.orelse, at, rd, depth + 1)
        us = {a, b} - {"lit"}
        return us.pop() if len(us) == 1 else ("lit" if not us else "mixed:" + U(e)[:30])
    return "mixed:" + U(e)[:30]


def rule_unit(c: Ctx) -> RuleResult:
    r = RuleResult("UNIT", "the indent argument of getLines is a column quantity (sCount / blkIndent / literals), never a character count")
    gl = c.p.func("rules_block/state_block.py:StateBlock.getLines")
    n = 0
    for f in sorted(c.cg.parse_phase(), key=lambda x: x.qual):
        for cs in c.cg.sites.get(f, []):
            if gl not in cs.callees:
                continue
            call = cs.node
            arg = call.args[2] if len(call.args) > 2 else next((k.value for k in call.keywords if k.arg == "indent"), None)
            if arg is None:
                continue
            n += 1
            rd = Reaching(c.cfg(f))
            u = _unit(c, f, arg, call, rd)
            ok = u in ("col", "lit")
            r.add(f"{f.short}|getLines.indent|{alpha(f, arg)}", c.where(f, call), f.short, U(call)[:80], "discharged" if ok else "violation",
                  f"indent `{U(arg)}` is a {'column count' if u == 'col' else 'literal'}" if ok else
                  f"indent `{U(arg)}` is {'a character count' if u == 'char' else u}: getLines removes *columns*; with a tab in the "
                  f"indentation too little (or too much) is removed from every content line")
    if n < 3:
        raise AnchorError(f"only {n} getLines call sites found")
    r.floor = 3
    return r


def rule_ublank(c: Ctx) -> RuleResult:
    r = RuleResult("UBLANK", "no Unicode-blank-sensitive str method (argument-less strip / split / isspace ...) is applied to a verbatim "
                             "payload; the code-span padding is removed only under startswith(' ') and endswith(' ') and a not-all-spaces test")
    n = 0
    for f in sorted(c.cg.parse_phase(), key=lambda x: x.qual):
        if not f.module.rel.startswith(("rules_block/", "rules_inline/")):
            continue
        sc = c.tf.scope(f)
        rd = None
        for call in own_nodes(f.node):
            if not (isinstance(call, ast.Call) and isinstance(call.func, ast.Attribute) and call.func.attr in BLANK_METHODS):
                continue
            recv = call.func.value
            if sc.type(recv) != "str":
                continue
            # is the receiver a verbatim payload?  <tok>.content of a verbatim kind / a getLines result
            payload = False
            if isinstance(recv, ast.Attribute) and recv.attr == "content" and sc.type(recv.value) == "Token":
                rd = rd or Reaching(c.cfg(f))
                kinds, _ = _kind_of_receiver(c, f, recv.value, call, rd)
                payload = bool(kinds & VERBATIM)
            if not payload:
                continue
            n += 1
            blank_default = not call.args and not call.keywords
            key = f"{f.short}|{alpha(f, call)[:70]}"
            if blank_default:
                r.add(key, c.where(f, call), f.short, U(call)[:80], "violation",
                      f"`.{call.func.attr}()` without an argument treats NBSP, VT, FF, U+2028 ... as blanks: a payload made of such "
                      f"characters is taken for 'all spaces' (or loses them)")
            else:
                r.add(key, c.where(f, call), f.short, U(call)[:80], "discharged", "explicit character argument: only those characters count as blank")
    # PAD
    bt = c.p.func("rules_inline/backticks.py:backtick")
    pad_funcs = [bt] + [g for cs in c.cg.sites.get(bt, []) for g in cs.callees if g.module is bt.module and cs.kind == "direct"]
    pads = []
    for pf in pad_funcs:
        for s_ in own_nodes(pf.node):
            if isinstance(s_, ast.Subscript) and isinstance(s_.slice, ast.Slice) and U(s_.slice) == "1:-1" and isinstance(s_.ctx, ast.Load) \
                    and c.tf.scope(pf).type(s_.value) in ("str", None):
                pads.append((pf, s_))
    for (pf, s_) in pads:
        n += 1
        cfg, res = c.facts(pf)
        recv = U(s_.value)
        need = {"starts": False, "ends": False, "nonblank": False}
        for cn in cfg.owner(s_):
            z = res.get(cn.id)
            if z is None:
                continue
            for (txt, pol) in z.preds:
                if not pol:
                    continue
                if txt == f"{recv}.startswith(' ')":
                    need["starts"] = True
                if txt == f"{recv}.endswith(' ')":
                    need["ends"] = True
                if recv in txt and (".strip(' ')" in txt or ".replace(' ', '')" in txt or "' ' * len(" in txt or "!= ' '" in txt):
                    need["nonblank"] = True
        miss = [k for k, v in need.items() if not v]
        stmt_ = pf.module.parents.get(s_, s_)
        r.add(f"{pf.short}|PAD", c.where(pf, s_), pf.short, U(stmt_)[:80], "discharged" if not miss else "violation",
              "padding strip dominated by startswith(' '), endswith(' ') and a not-all-spaces test" if not miss else
              "the one-space padding is stripped without " + ", ".join({"starts": "a leading-space test", "ends": "a trailing-space test",
                                                                      "nonblank": "an explicit not-all-*spaces* test (strip(' ') / != ' ' * n)"}[m] for m in miss)
              + ": a span of spaces only (or padded on one side) would lose characters")
    if not pads:
        r.add(f"{bt.short}|PAD", c.where(bt, bt.node), bt.short, "token.content = token.content[1:-1]", "violation",
              "the removal of the one-space padding of a code span is not present in the recognised form (`X[1:-1]` under startswith(' '), "
              "endswith(' ') and a not-all-spaces test): either the padding is kept, or it is removed by a transform this check cannot "
              "relate to the three documented conditions")
    r.floor = 1
    return r


# ------------------------------------------------------------------------------------------------ TABLES
def _class_chars(pattern_class_src: str) -> set[str]:
    import re._parser as sp          # type: ignore[import-not-found]
    tree = sp.parse(pattern_class_src)
    out: set[str] = set()
    for op, av in tree:
        if str(op) == "IN":
            for (k, v) in av:
                if str(k) == "LITERAL":
                    out.add(chr(v))
                elif str(k) == "RANGE":
                    out.update(chr(x) for x in range(v[0], v[1] + 1))
        elif str(op) == "LITERAL":
            out.add(chr(av))
    return out


def _first_class_of(pattern: str) -> set[str]:
    """Character class of the first `\\\\([...])` group of the pattern."""
    import re._parser as sp          # type: ignore[import-not-found]
    tree = sp.parse(pattern)

    def find(seq) -> set[str] | None:
        items = list(seq)
        for i, (op, av) in enumerate(items):
            if str(op) == "BRANCH":
                for alt in av[1]:
                    r_ = find(alt)
                    if r_ is not None:
                        return r_
            if str(op) == "SUBPATTERN":
                sub = list(av[3])
                if len(sub) == 1 and str(sub[0][0]) == "IN":
                    out: set[str] = set()
                    for (k, v) in sub[0][1]:
                        if str(k) == "LITERAL":
                            out.add(chr(v))
                        elif str(k) == "RANGE":
                            out.update(chr(x) for x in range(v[0], v[1] + 1))
                    return out
        return None
    r_ = find(tree)
    if r_ is None:
        raise AnchorError("no `(class)` group found in the pattern")
    return r_


def rule_tables(c: Ctx) -> RuleResult:
    r = RuleResult("TABLES", "the four escapable-character tables (escape rule, ASCII-punctuation predicate, unescapeAll, ESCAPE_CHAR) denote "
                             "one set, the 32 ASCII punctuation characters; escape and entity emit the placeholder kind carrying the literal")
    want = set(_string.punctuation)
    utils = c.p.module("common/utils.py")
    esc = c.p.module("rules_inline/escape.py")
    tabs: dict[str, set[str]] = {}
    try:
        tabs["escape._ESCAPED"] = set(c.p.const_value(esc, "_ESCAPED"))
    except Exception:
        raise AnchorError("rules_inline/escape.py: _ESCAPED is not a foldable literal")
    try:
        tabs["utils.MD_ASCII_PUNCT"] = {chr(x) for x in c.p.const_value(utils, "MD_ASCII_PUNCT")}
    except Exception:
        raise AnchorError("common/utils.py: MD_ASCII_PUNCT is not a foldable literal")
    for (m, name, pat, flags, node) in c.p.regex_constants():
        if m is utils and name == "UNESCAPE_ALL_RE":
            tabs["utils.UNESCAPE_ALL_RE (backslash group)"] = _first_class_of(pat)
        if m is utils and name == "ESCAPE_CHAR":
            tabs["utils.ESCAPE_CHAR"] = _first_class_of(pat)
    if len(tabs) < 4:
        raise AnchorError(f"only {sorted(tabs)} of the four escapable-character tables were found")
    for name, got in sorted(tabs.items()):
        miss, extra = sorted(want - got), sorted(got - want)
        ok = not miss and not extra
        r.add(f"table|{name}", "markdown_it/common/utils.py:0" if name.startswith("utils") else "markdown_it/rules_inline/escape.py:0", name,
              f"{len(got)} characters", "discharged" if ok else "violation",
              "equals the 32 ASCII punctuation characters" if ok else
              f"differs from ASCII punctuation: missing {miss} extra {extra} - a backslash before such a character is literal in one "
              f"context and an escape in another")
    # numeric character references are recognised whatever the case of the `x` marker and of the hex digits, in both places
    # that decode them (the inline rule; unescapeAll for titles, destinations and info strings).  Decided on the regex constants:
    # the patterns are handed to the `re` engine on a fixed probe set (no code of the repository runs).
    import re as _re
    probes = ["#35", "#x2a", "#x2A", "#X2a", "#X2A"]
    for rel, why in (("common/utils.py", "unescapeAll / replaceEntityPattern"), ("rules_inline/entity.py", "the inline entity rule")):
        pats = []
        for (m, name, pat, flags, node) in c.p.regex_constants():
            if m.rel == rel and _literal_hash(pat):
                try:
                    pats.append((name, _re.compile(pat, flags)))
                except _re.error:
                    pass
        if not pats:
            raise AnchorError(f"{rel}: no regular expression for numeric character references found")
        missed = []
        for pr in probes:
            cands = [pr, "&" + pr + ";", pr + ";"]
            if not any(rx.fullmatch(x) or (rx.match(x) and rx.match(x).end() == len(x)) for (_, rx) in pats for x in cands):
                missed.append("&" + pr + ";")
        r.add(f"numeric-ref-case|{rel}", f"markdown_it/{rel}:0", rel, ", ".join(n_ or "?" for n_, _ in pats)[:70],
              "violation" if missed else "discharged",
              (f"{why} does not recognise {missed}: a reference written with an upper-case X or upper-case hex digits stays undecoded in "
               f"this context while the other contexts decode it") if missed else
              "decimal and hexadecimal references are matched in either case (probe set " + ", ".join("&" + p_ + ";" for p_ in probes) + ")")
    # producers
    sites = [ts for ts in token_sites(c) if ts.via.startswith("push")]
    for f_short in ("escape", "entity"):
        f = next((x for x in c.p.all_funcs() if x.short == f_short and x.module.rel.startswith("rules_inline/")), None)
        if f is None:
            raise AnchorError(f"inline rule {f_short} not found")
        own = {g for g in _reach_nd(c, f) if g.module is f.module}          # the rule and the private helpers it pushes through
        mine = [ts for ts in sites if ts.func in own and ts.kinds and ts.kinds != ["hardbreak"]]
        ok = bool(mine) and all(ts.kinds == ["text_special"] for ts in mine)
        r.add(f"producer|{f_short}|kind", c.where(f, f.node), f.short, "push(kind, '', 0)", "discharged" if ok else "violation",
              "emits the placeholder kind text_special (not text, which the typographer would rewrite)" if ok else
              f"{f_short} emits {[ts.kinds for ts in mine]} instead of text_special: the literal character becomes ordinary text and is "
              f"open to the typographic replacements")
        # content is assigned from the escaped character / decoded entity
        # the decoded character must not flow into state.pending (which becomes plain `text`, open to the typographer)
        pend = []
        for g in sorted(_reach_nd(c, f), key=lambda x: x.qual):
            for s_ in own_nodes(g.node):
                tg = s_.targets if isinstance(s_, ast.Assign) else ([s_.target] if isinstance(s_, (ast.AugAssign, ast.AnnAssign)) else [])
                for t in tg:
                    if isinstance(t, ast.Attribute) and t.attr == "pending" and c.tf.scope(g).type(t.value) == "StateInline" and g.name != "pushPending":
                        pend.append((g, s_))
        r.add(f"producer|{f_short}|pending", c.where(pend[0][0], pend[0][1]) if pend else c.where(f, f.node), f.short,
              U(pend[0][1])[:70] if pend else "state.pending", "violation" if pend else "discharged",
              f"{f_short} writes state.pending: a character written as an escape / entity becomes ordinary text and is open to the "
              f"typographic replacements" if pend else "nothing reachable from the rule writes state.pending")
        cont = [s for g in sorted(own, key=lambda x: x.qual) for s in own_nodes(g.node)
                if isinstance(s, ast.Assign) and any(isinstance(t, ast.Attribute) and t.attr == "content" for t in s.targets)]
        cont += [k.value for ts in mine for k in getattr(ts.node, "keywords", []) if k.arg == "content"] if not cont else []
        okc = bool(cont)
        r.add(f"producer|{f_short}|content", c.where(f, cont[0] if cont else f.node), f.short, U(cont[0])[:80] if cont else "-",
              "discharged" if okc else "violation",
              "the token carries the literal as content" if okc else f"{f_short} pushes the placeholder without content: the character is dropped")
    r.floor = 8
    return r


def _literal_hash(pat: str) -> bool:
    """The pattern requires a literal `#` (outside any character class): it is about numeric references specifically."""
    import re._parser as sp          # type: ignore[import-not-found]
    try:
        tree = sp.parse(pat)
    except Exception:          # noqa: BLE001
        return False

    def walk(seq) -> bool:
        for op, av in seq:
            name = str(op)
            if name == "LITERAL" and av == 0x23:
                return True
            if name == "SUBPATTERN" and walk(av[3]):
                return True
            if name == "BRANCH" and any(walk(a) for a in av[1]):
                return True
            if name in ("MAX_REPEAT", "MIN_REPEAT") and walk(av[2]):
                return True
        return False
    return walk(tree)


def _reach_nd(c: Ctx, f: Func) -> set[Func]:
    seen: set[Func] = set()
    stack = [f]
    while stack:
        g = stack.pop()
        if g in seen:
            continue
        seen.add(g)
        for cs in c.cg.sites.get(g, []):
            if not cs.kind.startswith("dispatch:"):
                stack.extend(x for x in cs.callees if x.name not in ("push", "pushPending"))
    return seen


def rule_accum(c: Ctx) -> RuleResult:
    r = RuleResult("ACCUM", "a text accumulator (initialised to '' and extended with += inside a loop) is never overwritten with a fresh "
                            "piece inside that loop - pieces of cell / title / label text are accumulated, not dropped")
    n = 0
    for f in sorted(c.cg.parse_phase(), key=lambda x: x.qual):
        accs: dict[str, list[ast.AST]] = {}
        for s in own_nodes(f.node):
            if isinstance(s, ast.AugAssign) and isinstance(s.op, ast.Add) and isinstance(s.target, ast.Name):
                accs.setdefault(s.target.id, []).append(s)
            elif isinstance(s, ast.BinOp) and isinstance(s.op, ast.Add) and isinstance(s.left, ast.Name) \
                    and c.tf.scope(f).type(s.left) == "str":
                accs.setdefault(s.left.id, []).append(s)           # `current + piece` consumed at a flush point
        for name, augs in sorted(accs.items()):
            inits = [s for s in own_nodes(f.node) if isinstance(s, ast.Assign) and any(isinstance(t, ast.Name) and t.id == name for t in s.targets)]
            if not any(isinstance(s.value, ast.Constant) and s.value.value == "" for s in inits):
                continue
            loops = [l for l in own_nodes(f.node) if isinstance(l, (ast.While, ast.For)) and any(any(x is a for x in ast.walk(l)) for a in augs)]
            if not loops:
                continue
            n += 1
            bad = None
            for s in inits:
                if isinstance(s.value, ast.Constant) and s.value.value == "":
                    continue
                if not any(any(x is s for x in ast.walk(l)) for l in loops):
                    continue
                if any(isinstance(x, ast.Name) and x.id == name for x in ast.walk(s.value)):
                    continue          # rebuilt from itself
                bad = s
            key = f"{f.short}|{name}"
            if bad is None:
                r.add(key, c.where(f, augs[0]), f.short, f"{name} += ...", "discharged",
                      f"`{name}` is only reset to '' or extended inside its loop")
            else:
                r.add(key, c.where(f, bad), f.short, U(bad)[:80], "violation",
                      f"the accumulator `{name}` is overwritten inside the loop that builds it: everything collected so far since the last "
                      f"flush is dropped")
    # table rows are cut at pipes only by the escape-aware splitter: no other operation of the table module removes, splits at or
    # replaces a '|' (a regex or str method cannot tell `\|` - an escaped, literal pipe - from a column separator)
    tmods = [m for m in c.p.modules.values() if m.rel == "rules_block/table.py"]
    regs = {name: pat for (mod, name, pat, flags, node) in c.p.regex_constants() if name and mod in tmods}
    npipe = 0
    for f in sorted(c.p.all_funcs(), key=lambda x: x.qual):
        if f.module not in tmods:
            continue
        for x in own_nodes(f.node):
            if not (isinstance(x, ast.Call) and isinstance(x.func, ast.Attribute)):
                continue
            meth = x.func.attr
            why = ""
            if meth in ("sub", "subn", "split") and isinstance(x.func.value, ast.Name) and x.func.value.id in regs and "|" in regs[x.func.value.id].replace("\\|", "").replace("[|", "[") + ("|" if "\\|" in regs[x.func.value.id] else ""):
                if "\\|" in regs[x.func.value.id] or "[|" in regs[x.func.value.id]:
                    why = f"the regex {x.func.value.id} = {regs[x.func.value.id]!r}, which matches a literal '|', is applied with .{meth}()"
            if meth in ("split", "rsplit", "strip", "lstrip", "rstrip", "replace", "partition", "rpartition", "removeprefix", "removesuffix") \
                    and any(isinstance(a, ast.Constant) and isinstance(a.value, str) and "|" in a.value for a in x.args):
                why = f"str.{meth}({', '.join(U(a) for a in x.args)})"
            if meth in ("sub", "subn", "split") and U(x.func.value) == "re" and x.args and isinstance(x.args[0], ast.Constant) \
                    and isinstance(x.args[0].value, str) and ("\\|" in x.args[0].value or "[|" in x.args[0].value):
                why = f"re.{meth}({x.args[0].value!r}, ...)"
            if why and isinstance(x.func.value, ast.Name):
                # the delimiter row (line start + 1) holds only | - : and blanks - the scan in front of it rejects anything else,
                # so no backslash can occur in it
                def delim_row(g: Func, name: str, at: ast.AST, depth: int = 0) -> bool:
                    """every definition of `name` reaching `at` is `getLine(<start> + 1)` - directly, through a copy, or as the
                    argument every call site of the private helper g passes for it"""
                    rds = list(Reaching(c.cfg(g)).at_ast(at, name))
                    if not rds or depth > 2:
                        return False
                    from ..interproc import expand as _exp
                    for d in rds:
                        a1 = _exp(c, g, d.value.args[1], d.stmt) if d.kind == "assign" and isinstance(d.value, ast.Call) and len(d.value.args) == 2 else None
                        if a1 is not None and U(d.value.func).split(".")[-1] == "getLine" \
                                and isinstance(a1, ast.BinOp) and isinstance(a1.op, ast.Add) \
                                and isinstance(a1.right, ast.Constant) and a1.right.value == 1:
                            continue
                        if d.kind == "assign" and isinstance(d.value, ast.Name) and delim_row(g, d.value.id, d.stmt, depth + 1):
                            continue
                        if d.kind == "param" and c.internal_helper(g):
                            from ..interproc import actuals
                            acts = actuals(c, g, name)
                            if acts and all(isinstance(a_, ast.Name) and delim_row(caller, a_.id, cs_.node, depth + 1) for (caller, a_, cs_) in acts):
                                continue
                        return False
                    return True
                if delim_row(f, x.func.value.id, x):
                    r.add(f"{f.short}|pipe-op|delimiter-row", c.where(f, x), f.short, U(x)[:70], "discharged",
                          "the delimiter row consists of | - : and blanks only (validated character by character before): no escape can occur")
                    why = ""
            if why:
                npipe += 1
                r.add(f"{f.short}|pipe-op|{alpha(f, x)[:50]}", c.where(f, x), f.short, U(x)[:70], "violation",
                      f"an escape-unaware operation on pipes in the table rule ({why}): an escaped pipe `\\|` at that position is treated as a "
                      f"column separator and its cell text is lost")
    es = [f for f in c.p.all_funcs() if f.module in tmods and f.name == "escapedSplit"]
    if not es:
        raise AnchorError("the escape-aware row splitter escapedSplit is gone from rules_block/table.py")
    r.add("table|pipe-ops", c.where(es[0], es[0].node), es[0].short, "escapedSplit", "discharged" if npipe == 0 else "violation",
          "rows are cut at pipes only by the escape-aware splitter (no regex / str operation on '|' in the table module)" if npipe == 0 else
          f"{npipe} escape-unaware pipe operation(s) in the table module")
    r.floor = 1
    return r


# ------------------------------------------------------------------------------------------------ ONELINE
_LINE_TABLES = ("bMarks", "eMarks")


def _line_tags(rd: Reaching, e: ast.AST, at: ast.AST, depth: int = 0, seen: frozenset = frozenset()) -> set[str]:
    """Texts of the line indices from whose line-table cells (bMarks[i] / eMarks[i]) the position expression `e` derives."""
    if depth > 6:
        return {"?"}
    if isinstance(e, ast.Constant):
        return set()
    if isinstance(e, ast.Subscript) and isinstance(e.value, ast.Attribute):
        if e.value.attr in _LINE_TABLES:
            return {U(e.slice)}
        if e.value.attr in ("tShift", "sCount", "bsCount"):
            return set()
    if isinstance(e, ast.BinOp):
        return _line_tags(rd, e.left, at, depth + 1, seen) | _line_tags(rd, e.right, at, depth + 1, seen)
    if isinstance(e, ast.Call):
        out: set[str] = set()
        for a in e.args:
            if not isinstance(a, ast.Name) or a.id in seen or True:
                out |= {t for t in _line_tags(rd, a, at, depth + 1, seen) if not t.startswith("param:")}
        return out
    if isinstance(e, ast.Name):
        if e.id in seen:
            return set()
        out = set()
        for d in rd.at_ast(at, e.id):
            if d.kind == "param":
                out.add("param:" + e.id)
            elif d.kind == "assign" and d.value is not None and d.stmt is not None:
                out |= _line_tags(rd, d.value, d.stmt, depth + 1, seen | {e.id})
            elif d.kind == "aug":
                continue
            else:
                out.add("?")
        return out
    return set()


def rule_oneline(c: Ctx) -> RuleResult:
    r = RuleResult("ONELINE", "a raw slice of the source never spans lines in a block rule: both ends of `src[a:b]` derive from the line-table "
                              "cells of one and the same line (text that crosses a line boundary is taken through getLines, which "
                              "strips the prefixes of enclosing containers from every line)")
    from ..valnum import analyse as vn_analyse
    n = 0
    for f in sorted(c.cg.parse_phase(), key=lambda x: x.qual):
        if not f.module.rel.startswith("rules_block/"):
            continue
        sc = c.tf.scope(f)
        sl = [x for x in own_nodes(f.node) if isinstance(x, ast.Subscript) and isinstance(x.slice, ast.Slice) and x.slice.lower is not None
              and x.slice.upper is not None and isinstance(x.ctx, ast.Load) and sc.type(x.value) == "str"
              and (U(x.value).endswith(".src") or U(x.value) == "src")]
        if not sl:
            continue
        r.functions += 1
        rd = Reaching(c.cfg(f))
        vn_state = None
        for x in sl:
            n += 1
            lo = {t for t in _line_tags(rd, x.slice.lower, x) if not t.startswith("param:") and t != "?"}
            hi = {t for t in _line_tags(rd, x.slice.upper, x) if not t.startswith("param:") and t != "?"}
            key = f"{f.short}|{alpha(f, x)[:70]}"
            if not lo or not hi or lo == hi:
                r.add(key, c.where(f, x), f.short, U(x)[:70], "discharged",
                      f"both ends derive from line `{sorted(lo | hi)[0]}`" if (lo or hi) else "ends are not taken from line-table cells of different lines")
                continue
            same = False
            if len(lo) == 1 and len(hi) == 1:
                if vn_state is None:
                    vn_state = vn_analyse(c, f)
                vcfg, vres, vn = vn_state
                try:
                    ea, eb = ast.parse(next(iter(lo)), mode="eval").body, ast.parse(next(iter(hi)), mode="eval").body
                    for nd in vcfg.owner(x):
                        env = vres.get(nd.id)
                        if env is not None and vn.val(ea, env, nd.id) == vn.val(eb, env, nd.id):
                            same = True
                except SyntaxError:
                    pass
            if same:
                r.add(key, c.where(f, x), f.short, U(x)[:70], "discharged", f"lines `{sorted(lo)[0]}` and `{sorted(hi)[0]}` have the same value here")
            else:
                r.add(key, c.where(f, x), f.short, U(x)[:70], "violation",
                      f"the slice starts in line {sorted(lo)} and ends in line {sorted(hi)}: a raw slice across lines keeps the prefixes of "
                      f"enclosing containers (`> `, list indentation) on every line after the first")
    if n < 6:
        raise AnchorError(f"only {n} source slices found in the block rules")
    r.floor = 6
    return r


# ------------------------------------------------------------------------------------------------ COUNT
def rule_count(c: Ctx) -> RuleResult:
    """A markup string built by *repeating* the marker (`marker * E`, `'######'[:E]`) has as many characters as the scan
    consumed: with n the counter (constant k, then `+= 1` under a test that the character read equals the marker) and d the
    number of marker characters the cursor has passed when the counting loop starts (value numbering: cursor at the loop's
    entry minus the index at which the marker was first read, which must be 0 or 1), E must be n + (d - k)."""
    r = RuleResult("COUNT", "a markup string built by repeating the marker has exactly as many characters as marker characters were "
                            "scanned: the repetition count is the scan's counter, corrected by exactly the number of markers consumed "
                            "before the counting loop minus the counter's initial value")
    from ..valnum import analyse as vn_analyse
    c = c.normalised("rules_block/")
    r.notes += c.norm_notes()
    decided = 0
    for f in sorted(c.cg.parse_phase(), key=lambda x: x.qual):
        if not f.module.rel.startswith("rules_block/"):
            continue
        sites = []
        for n in own_nodes(f.node):
            if isinstance(n, ast.Assign) and len(n.targets) == 1 and isinstance(n.targets[0], ast.Attribute) and n.targets[0].attr == "markup":
                sites.append((n, n.value))
        if not sites:
            continue
        rd = Reaching(c.cfg(f))
        state = None
        seen_keys: set[str] = set()
        for stmt, val in sites:
            v = val
            if isinstance(v, ast.Name):
                ds = rd.at_ast(stmt, v.id)
                if len(ds) == 1 and next(iter(ds)).kind == "assign" and next(iter(ds)).value is not None:
                    v = next(iter(ds)).value
            marker: ast.AST | None = None
            E: ast.AST | None = None
            if isinstance(v, ast.BinOp) and isinstance(v.op, ast.Mult):
                for a, b in ((v.left, v.right), (v.right, v.left)):
                    if isinstance(a, ast.Name) and c.tf.scope(f).type(a) == "str":
                        marker, E = a, b
                    elif isinstance(a, ast.Constant) and isinstance(a.value, str) and len(a.value) == 1:
                        marker, E = a, b
            elif isinstance(v, ast.Subscript) and isinstance(v.slice, ast.Slice) and v.slice.lower is None and v.slice.step is None \
                    and v.slice.upper is not None and isinstance(v.value, ast.Constant) and isinstance(v.value.value, str) \
                    and len(set(v.value.value)) == 1:
                marker, E = ast.Constant(value=v.value.value[0]), v.slice.upper
            if marker is None or E is None:
                continue
            key = f"{f.short}|markup|{alpha(f, v)[:60]}"
            if key in seen_keys:
                continue
            seen_keys.add(key)
            if state is None:
                state = vn_analyse(c, f)
            got = _count_relation(c, f, rd, state, stmt, marker, E)
            if isinstance(got, str):
                r.add(key, c.where(f, stmt), f.short, U(stmt)[:70], "exempt", "count relation not decided: " + got)
                continue
            decided += 1
            n_name, k, d, off = got
            ok = off == d - k
            r.add(key, c.where(f, stmt), f.short, U(stmt)[:70], "discharged" if ok else "violation",
                  f"counter `{n_name}` starts at {k} with {d} marker character(s) consumed before the counting loop; the count used is "
                  f"`{n_name}{off:+d}`" + ("" if ok else
                  f", but the marker occurs {n_name}{d - k:+d} times in the source: the recorded markup is {abs(off - (d - k))} character(s) "
                  f"{'longer' if off > d - k else 'shorter'} than what was written"))
    if decided < 1:
        raise AnchorError("no repetition-built markup whose count relation could be decided (hr / heading expected)")
    r.floor = 1
    return r


def _as_read(e: ast.AST | None) -> tuple[ast.AST, ast.AST] | None:
    """(string expression, index expression) if e reads one character: `S[i]`, or the total accessor `charStrAt(S, i)`."""
    if isinstance(e, ast.Subscript) and not isinstance(e.slice, ast.Slice):
        return e.value, e.slice
    if isinstance(e, ast.Call) and isinstance(e.func, ast.Name) and e.func.id in ("charStrAt",) and len(e.args) == 2 and not e.keywords:
        return e.args[0], e.args[1]
    return None


def _canon_str(f: Func, e: ast.AST) -> str:
    """Text of a string expression, a local that only ever holds `<x>.src` replaced by that attribute."""
    if isinstance(e, ast.Name):
        ds = [n.value for n in own_nodes(f.node) if isinstance(n, ast.Assign) and any(isinstance(t, ast.Name) and t.id == e.id for t in n.targets)]
        if ds and all(isinstance(d, ast.Attribute) and U(d) == U(ds[0]) for d in ds) and e.id not in {a.arg for a in f.node.args.args}:
            return U(ds[0])
    return U(e)


def _count_relation(c: Ctx, f: Func, rd: Reaching, state, stmt: ast.AST, marker: ast.AST, E: ast.AST, _depth: int = 0):
    """-> (counter name, k, d, offset of E over the counter) or a reason string."""
    vcfg, vres, vn = state
    # E = n (+/- const)
    off = 0
    e = E
    if isinstance(e, ast.BinOp) and isinstance(e.op, (ast.Add, ast.Sub)) and isinstance(e.right, ast.Constant) and isinstance(e.right.value, int):
        off = e.right.value if isinstance(e.op, ast.Add) else -e.right.value
        e = e.left
    elif isinstance(e, ast.BinOp) and isinstance(e.op, ast.Add) and isinstance(e.left, ast.Constant) and isinstance(e.left.value, int):
        off, e = e.left.value, e.right
    if not isinstance(e, ast.Name):
        return "the count is not a counter variable plus a constant"
    n_name = e.id
    # the count may be a copy of the counter (the result variable of an inlined / extracted scan): n = m on the paths that reach
    # the markup, constants on paths that the facts at the markup exclude (cnt = 0 ... if cnt < 3: return False)
    if _depth < 3:
        copies, consts_, other = [], [], False
        for n in own_nodes(f.node):
            if isinstance(n, ast.Assign) and any(isinstance(t, ast.Name) and t.id == n_name for t in n.targets):
                if isinstance(n.value, ast.Name) and n.value.id != n_name:
                    copies.append(n.value.id)
                elif isinstance(n.value, ast.Constant) and isinstance(n.value.value, int) and not isinstance(n.value.value, bool):
                    consts_.append(n.value.value)
                else:
                    other = True
            elif isinstance(n, (ast.AugAssign, ast.AnnAssign)) and isinstance(n.target, ast.Name) and n.target.id == n_name:
                other = True
        if copies and not other and len(set(copies)) == 1:
            fcfg, fres = c.facts(f)
            excluded = True
            for k0 in consts_:
                for nd in fcfg.owner(stmt):
                    z = fres.get(nd.id)
                    if z is not None and not (z.entails("0", n_name, -(k0 + 1)) or z.entails(n_name, "0", k0 - 1)):
                        excluded = False
            if excluded:
                e2: ast.AST = ast.Name(id=copies[0], ctx=ast.Load())
                if off:
                    e2 = ast.BinOp(left=e2, op=ast.Add(), right=ast.Constant(value=off))
                return _count_relation(c, f, rd, state, stmt, marker, e2, _depth + 1)
    inits: list[int] = []
    incs: list[ast.AST] = []
    for n in own_nodes(f.node):
        if isinstance(n, ast.Assign) and any(isinstance(t, ast.Name) and t.id == n_name for t in n.targets):
            if isinstance(n.value, ast.Constant) and isinstance(n.value.value, int) and not isinstance(n.value.value, bool):
                inits.append(n.value.value)
            elif isinstance(n.value, ast.BinOp) and isinstance(n.value.op, ast.Add) and isinstance(n.value.left, ast.Name) and n.value.left.id == n_name \
                    and isinstance(n.value.right, ast.Constant) and n.value.right.value == 1:
                incs.append(n)
            else:
                return f"`{n_name}` has a definition that is neither a constant nor `+= 1`"
        elif isinstance(n, ast.AugAssign) and isinstance(n.target, ast.Name) and n.target.id == n_name:
            if isinstance(n.op, ast.Add) and isinstance(n.value, ast.Constant) and n.value.value == 1:
                incs.append(n)
            else:
                return f"`{n_name}` is updated by something other than `+= 1`"
        elif isinstance(n, ast.AnnAssign) and isinstance(n.target, ast.Name) and n.target.id == n_name:
            if n.value is not None and isinstance(n.value, ast.Constant) and isinstance(n.value.value, int):
                inits.append(n.value.value)
            elif n.value is not None:
                return f"`{n_name}` has a non-constant initial value"
        elif isinstance(n, (ast.For, ast.comprehension)) and any(isinstance(x, ast.Name) and x.id == n_name for x in ast.walk(n.target)):
            return f"`{n_name}` is a loop target"
    if len(set(inits)) != 1 or not incs:
        return f"`{n_name}` is not a counter (initial constants {inits}, {len(incs)} increments)"
    k = inits[0]
    parents = f.module.parents
    # the counting loop: the innermost loop around the increments (all in one loop)
    loops = set()
    for inc in incs:
        q = parents.get(inc)
        while q is not None and not isinstance(q, (ast.While, ast.For)):
            q = parents.get(q)
        loops.add(q)
    if len(loops) != 1 or None in loops:
        return "the increments are not in one loop"
    loop = next(iter(loops))
    mtxt = U(marker)

    def eq_marker(t: ast.AST) -> bool:
        for x in ast.walk(t):
            if isinstance(x, ast.Compare) and len(x.ops) == 1 and isinstance(x.ops[0], ast.Eq) and mtxt in (U(x.left), U(x.comparators[0])):
                return True
        return False
    for inc in incs:
        q: ast.AST | None = inc
        guarded = False
        while q is not None and q is not loop:
            ch = q
            q = parents.get(q)
            if isinstance(q, ast.If) and ch in q.body and eq_marker(q.test):
                guarded = True
        if isinstance(loop, ast.While) and eq_marker(loop.test):
            guarded = True
        if not guarded:
            return "an increment is not under a test that the character read equals the marker"
    # the source string and the index of the first marker read
    first_read: ast.AST | None = None
    if isinstance(marker, ast.Name):
        ds = [d for d in rd.at_ast(stmt, marker.id)]
        vals = [d.value for d in ds if d.kind == "assign"]
        if len(vals) != 1 or _as_read(vals[0]) is None:
            return "the marker is not a single character read of the source"
        first_read = vals[0]
    else:
        # constant marker: the earliest read `S[i]` (directly in the test, or through `v = S[i]`) compared with the constant
        cands = []
        for n in own_nodes(f.node):
            if isinstance(n, (ast.Assign, ast.AnnAssign)) and n.value is not None and _as_read(n.value) is not None:
                t = n.targets[0] if isinstance(n, ast.Assign) else n.target
                if isinstance(t, ast.Name) and any(isinstance(x, ast.Compare) and len(x.ops) == 1 and isinstance(x.ops[0], (ast.Eq, ast.NotEq))
                                                   and {U(x.left), U(x.comparators[0])} == {t.id, mtxt} for x in own_nodes(f.node)):
                    cands.append(n.value)
            elif isinstance(n, ast.Compare) and len(n.ops) == 1 and isinstance(n.ops[0], (ast.Eq, ast.NotEq)):
                for a_, b_ in ((n.left, n.comparators[0]), (n.comparators[0], n.left)):
                    if _as_read(a_) is not None and U(b_) == mtxt:
                        cands.append(a_)
        cands = [x for x in cands if not any(x is y for y in ast.walk(loop))]
        if not cands:
            return "no first read of the constant marker found"
        cands.sort(key=lambda n: (n.lineno, n.col_offset))
        first_read = cands[0]
    fr = _as_read(first_read)
    S = _canon_str(f, fr[0])          # type: ignore[index]
    # cursor of the loop: index of a read of S inside the loop (or the lower bound of the slice a `for` iterates)
    cursor: ast.AST | None = None
    if isinstance(loop, ast.For) and isinstance(loop.iter, ast.Subscript) and isinstance(loop.iter.slice, ast.Slice) \
            and _canon_str(f, loop.iter.value) == S and loop.iter.slice.lower is not None:
        cursor = loop.iter.slice.lower
    else:
        for x in ast.walk(loop):
            rd_ = _as_read(x) if isinstance(x, (ast.Subscript, ast.Call)) else None
            if rd_ is not None and _canon_str(f, rd_[0]) == S and isinstance(getattr(x, "ctx", ast.Load()), ast.Load):
                cursor = rd_[1]
                break
        if cursor is None:
            # the loop tests a character variable that is re-read by a helper / before the loop: use the index of the last read before it
            return "no read of the source inside the counting loop"
    # value of the read index at the first read, and of the cursor where the loop is entered
    v_read = None
    for nd in vcfg.owner(first_read):
        env = vres.get(nd.id)
        if env is not None:
            v_read = vn.val(fr[1], env, nd.id)          # type: ignore[index]
    if v_read is None:
        return "first read unreachable"
    head = next((nd for nd in vcfg.nodes if nd.ast is loop and nd.kind in ("join", "for", "test")), None)
    if head is None:
        return "loop head not found"
    inside = {id(x) for x in ast.walk(loop)}
    entries = []
    for (p, lab) in head.pred:
        if p.ast is not None and id(p.ast) in inside and p.ast is not loop:
            continue          # back edge
        env = vres.get(p.id)
        if env is None:
            continue
        env2 = vn.edge(p, env, lab, head)
        if env2 is not None:
            entries.append(vn.val(cursor, env2, head.id))
    if not entries or len(set(entries)) != 1:
        return "the cursor has no single value where the loop is entered"
    v_loop = entries[0]
    from ..valnum import add as vadd
    d = None
    for cand in (0, 1):
        if v_loop == vadd(v_read, cand):
            d = cand
    if d is None:
        return "the cursor at the loop entry is not the index of the first read, or one past it"
    return n_name, k, d, off
