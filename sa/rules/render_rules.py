"""ESC (escape discipline of the HTML renderer), RAW (raw pass-through only for html tokens, produced only under the
html option), VOCAB (tags and attribute names are literals), RENDEX (every empty-tag token kind has a render rule)."""
from __future__ import annotations

import ast

from ..core import AnchorError, Func, U, own_nodes
from ..ctx import Ctx
from ..report import RuleResult, alpha
from ..tokens import literal_strs, option_read_key, phase_token_sites as token_sites

SAFE_RENDER_METHODS_PREFIX = "render"


def _renderer_methods(c: Ctx) -> dict[str, Func]:
    ci = c.p.cls("RendererHTML")
    return {n: f for n, f in ci.methods.items() if n != "__init__"}


def _defs_of(f: Func) -> dict[str, list[ast.AST]]:
    defs: dict[str, list[ast.AST]] = {}
    for n in own_nodes(f.node):
        if isinstance(n, ast.Assign):
            for t in n.targets:
                if isinstance(t, ast.Name):
                    defs.setdefault(t.id, []).append(n.value)
                elif isinstance(t, (ast.Tuple, ast.List)):
                    for e in t.elts:
                        if isinstance(e, ast.Name):
                            defs.setdefault(e.id, []).append(ast.Name(id="<unpacked>", ctx=ast.Load()))
        elif isinstance(n, ast.AugAssign) and isinstance(n.target, ast.Name):
            defs.setdefault(n.target.id, []).append(n.value)
        elif isinstance(n, ast.AnnAssign) and isinstance(n.target, ast.Name) and n.value is not None:
            defs.setdefault(n.target.id, []).append(n.value)
        elif isinstance(n, (ast.For, ast.comprehension)):
            for e in ast.walk(n.target):
                if isinstance(e, ast.Name):
                    defs.setdefault(e.id, []).append(ast.Name(id="<iter>", ctx=ast.Load()))
        elif isinstance(n, ast.NamedExpr) and isinstance(n.target, ast.Name):
            defs.setdefault(n.target.id, []).append(n.value)
    return defs


def _raw_text_producers(c: Ctx) -> list[Func]:
    """renderInlineAsText, and private helpers of the renderer that simply return its result (their callers are held to the
    same rule: the text may only become an attribute value)."""
    base = c.p.func("renderer.py:RendererHTML.renderInlineAsText")
    out = [base]
    ci = c.p.cls("RendererHTML")
    for name, m in ci.methods.items():
        if m is base or not name.startswith("_") or name.startswith("__"):
            continue
        rets = [n for n in own_nodes(m.node) if isinstance(n, ast.Return) and n.value is not None]
        if rets and any(isinstance(x, ast.Call) and isinstance(x.func, ast.Attribute) and x.func.attr == "renderInlineAsText"
                        for rt in rets for x in ast.walk(rt.value)) and all(
                isinstance(rt.value, ast.Constant) or (isinstance(rt.value, ast.Call) and isinstance(rt.value.func, ast.Attribute)
                                                       and rt.value.func.attr == "renderInlineAsText") for rt in rets):
            out.append(m)
    return out


class EscJudge:
    """Decompose an expression into leaves and say which leaf (if any) is not HTML-safe."""

    def __init__(self, c: Ctx, f: Func) -> None:
        self.c, self.f = c, f
        self.sc = c.tf.scope(f)
        self.defs = _defs_of(f)
        self.params = {a.arg for a in f.node.args.args + f.node.args.kwonlyargs}
        self.escape = c.p.func("common/utils.py:escapeHtml")
        self.raw_text_producers = set(_raw_text_producers(c))

    def unsafe_leaf(self, e: ast.AST, seen: frozenset[str] = frozenset()) -> ast.AST | None:
        if isinstance(e, ast.Constant):
            return None if isinstance(e.value, (str, int, float, type(None))) else e
        if isinstance(e, ast.JoinedStr):
            for v in e.values:
                if isinstance(v, ast.FormattedValue):
                    u = self.unsafe_leaf(v.value, seen)
                    if u is not None:
                        return u
            return None
        if isinstance(e, ast.BinOp) and isinstance(e.op, ast.Add):
            return self.unsafe_leaf(e.left, seen) or self.unsafe_leaf(e.right, seen)
        if isinstance(e, ast.BinOp) and isinstance(e.op, ast.Mult):
            return self.unsafe_leaf(e.left, seen) if not isinstance(e.left, ast.Constant) or isinstance(e.left.value, str) else self.unsafe_leaf(e.right, seen)
        if isinstance(e, ast.IfExp):
            return self.unsafe_leaf(e.body, seen) or self.unsafe_leaf(e.orelse, seen)
        if isinstance(e, ast.BoolOp):
            for v in e.values:
                u = self.unsafe_leaf(v, seen)
                if u is not None:
                    return u
            return None
        if isinstance(e, ast.Call):
            cs = self.c.cg.site_of.get(e)
            fn = e.func
            if cs is not None and cs.callees:
                if all(g is self.escape for g in cs.callees):
                    return None
                if any(g in self.raw_text_producers for g in cs.callees):
                    return e
                if len(cs.callees) == 1 and cs.callees[0].module is self.f.module and cs.callees[0] is not self.f \
                        and (cs.callees[0].cls is None or cs.callees[0].name.startswith("_")) and len(seen) < 6:
                    # a private helper of the renderer module: every value it returns is judged (in its own scope)
                    g = cs.callees[0]
                    gj = EscJudge(self.c, g)
                    rets = [n_ for n_ in own_nodes(g.node) if isinstance(n_, ast.Return) and n_.value is not None]
                    if rets:
                        for rt_ in rets:
                            u = gj.unsafe_leaf(rt_.value, frozenset(seen | {"@" + g.name}))
                            if u is not None:
                                return e
                        return None
                if all(g.cls is not None and g.cls.split("@")[0] in ("RendererHTML", "RendererProtocol") for g in cs.callees):
                    return None                      # output of another render method (checked on its own)
                return e
            if cs is not None and cs.kind == "render-dispatch":
                return None
            # rule = self.rules[<kind>]; rule(tokens, idx, options, env): the dispatch through a local
            if isinstance(fn, ast.Name):
                ds = self.defs.get(fn.id) or []
                if ds and all(isinstance(d, ast.Subscript) and isinstance(d.value, ast.Attribute) and d.value.attr == "rules"
                              and isinstance(d.value.value, ast.Name) and d.value.value.id == "self" for d in ds):
                    return None
                if ds and all(isinstance(d, ast.Call) and isinstance(d.func, ast.Attribute) and d.func.attr == "get" and isinstance(d.func.value, ast.Attribute)
                              and d.func.value.attr == "rules" for d in ds):
                    return None
            if isinstance(fn, ast.Name):
                # highlight = options.highlight; highlight(...): the callback read into a local
                ds = self.defs.get(fn.id) or []
                if ds and fn.id not in self.params and all(isinstance(d, ast.Attribute) and option_read_key(d) == "highlight" for d in ds):
                    return None
            if isinstance(fn, ast.Attribute) and fn.attr == "escape" and U(fn.value) == "html":
                return None
            # the highlight callback is documented as returning trusted, already escaped HTML
            if isinstance(fn, ast.Attribute) and option_read_key(fn) == "highlight":
                return None
            if isinstance(fn, ast.Attribute) and fn.attr == "join" and isinstance(fn.value, ast.Constant) and len(e.args) == 1:
                a = e.args[0]
                if isinstance(a, (ast.ListComp, ast.GeneratorExp)):
                    return self.unsafe_leaf(a.elt, seen)
                if isinstance(a, (ast.List, ast.Tuple)):
                    for x in a.elts:
                        u = self.unsafe_leaf(x, seen)
                        if u is not None:
                            return u
                    return None
                if isinstance(a, ast.Name) and a.id not in self.params and a.id not in seen:
                    # a local list that collects the pieces: its literal elements and everything appended / extended to it
                    pieces: list[ast.AST] = []
                    ok_list = True
                    for d in self.defs.get(a.id) or []:
                        if isinstance(d, (ast.List, ast.Tuple)):
                            pieces += list(d.elts)
                        elif isinstance(d, ast.ListComp):
                            pieces.append(d.elt)
                        else:
                            ok_list = False
                    for n_ in own_nodes(self.f.node):
                        if isinstance(n_, ast.Call) and isinstance(n_.func, ast.Attribute) and isinstance(n_.func.value, ast.Name) and n_.func.value.id == a.id:
                            if n_.func.attr == "append" and n_.args:
                                pieces.append(n_.args[0])
                            elif n_.func.attr == "extend" and n_.args and isinstance(n_.args[0], (ast.List, ast.Tuple)):
                                pieces += list(n_.args[0].elts)
                            elif n_.func.attr in ("insert",) and len(n_.args) == 2:
                                pieces.append(n_.args[1])
                            elif n_.func.attr not in ("copy", "count", "index"):
                                ok_list = False
                        if isinstance(n_, ast.AugAssign) and isinstance(n_.target, ast.Name) and n_.target.id == a.id:
                            if isinstance(n_.value, (ast.List, ast.Tuple)):
                                pieces += list(n_.value.elts)
                            else:
                                ok_list = False
                    if ok_list and (self.defs.get(a.id) or []):
                        for x in pieces:
                            u = self.unsafe_leaf(x, seen | {a.id})
                            if u is not None:
                                return u
                        return None
                return self.unsafe_leaf(a, seen)
            if isinstance(fn, ast.Name) and fn.id == "str" and len(e.args) == 1:
                t = self.sc.type(e.args[0])
                return None if t in ("int", "float", "bool") else e
            return e
        if isinstance(e, ast.Attribute):
            if e.attr == "tag" and self.sc.type(e.value) == "Token":
                return None                          # tag vocabulary is literal (rule VOCAB)
            return e
        if isinstance(e, ast.Name):
            if e.id in seen:
                return None
            ds = self.defs.get(e.id)
            if not ds or e.id in self.params:
                return e
            for d in ds:
                u = self.unsafe_leaf(d, seen | {e.id})
                if u is not None:
                    return u
            return None
        if isinstance(e, ast.Subscript) and isinstance(e.slice, ast.Slice):
            return self.unsafe_leaf(e.value, seen)
        return e


def rule_esc(c: Ctx) -> RuleResult:
    r = RuleResult("ESC", "every value returned by a RendererHTML method is built from literals, escapeHtml(...) results, tag "
                          "vocabulary and other render methods' output")
    methods = _renderer_methods(c)
    raw_methods: list[str] = []
    for name, f in sorted(methods.items()):
        rt_ = c.tf.ret_type(f)
        if rt_ in ("bool", "int", "NoneType", "float"):
            continue                      # a helper that does not produce output text
        ann = f.node.returns
        if ann is not None and U(ann).strip("'\"") != "str" or any(
                U(d).split(".")[-1] in ("property", "setter", "getter", "cached_property") for d in f.node.decorator_list):
            continue                      # annotated as returning something else than text / an attribute accessor
        r.functions += 1
        j = EscJudge(c, f)
        rets = [n for n in own_nodes(f.node) if isinstance(n, ast.Return) and n.value is not None]
        if f in _raw_text_producers(c) and f.name != "renderInlineAsText":
            # judged like renderInlineAsText: only the uses of its result matter
            for g, sites in c.cg.sites.items():
                for cs in sites:
                    if f in cs.callees and g is not f:
                        par_ = g.module.parents.get(cs.node)
                        ok = isinstance(par_, ast.Call) and isinstance(par_.func, ast.Attribute) and par_.func.attr == "attrSet" \
                            and len(par_.args) == 2 and par_.args[1] is cs.node
                        r.add(f"{g.short}|rawtext-use|{f.name}", c.where(g, cs.node), g.short, U(par_)[:70] if par_ is not None else U(cs.node),
                              "discharged" if ok else "violation",
                              "raw text flows only into an attribute value, which renderAttrs escapes" if ok else
                              f"unescaped text of {f.name} (renderInlineAsText) is used outside an attribute value")
            continue
        if f.name == "renderInlineAsText":
            # raw-text producer: its result may only flow into an attribute value (escaped by renderAttrs)
            for g, sites in c.cg.sites.items():
                for cs in sites:
                    if f in cs.callees and g is not f:
                        def into_attr(expr: ast.AST, depth: int = 0) -> bool:
                            """Does the value of `expr` flow only into the value argument of attrSet?"""
                            par_ = g.module.parents.get(expr)
                            while isinstance(par_, (ast.IfExp, ast.BoolOp)) and (not isinstance(par_, ast.IfExp) or par_.test is not expr):
                                expr, par_ = par_, g.module.parents.get(par_)
                            if isinstance(par_, ast.Call) and isinstance(par_.func, ast.Attribute) and par_.func.attr == "attrSet" \
                                    and len(par_.args) == 2 and par_.args[1] is expr:
                                return True
                            if isinstance(par_, ast.Return) and g.cls == "RendererHTML" and g.name.startswith("_") and depth < 2:
                                # a private helper of the renderer that returns the raw text: all uses of *its* result count
                                hs = [x for x in c.cg.callers.get(g, []) if x.kind in ("direct", "method")]
                                if hs and len(hs) == len(c.cg.callers.get(g, [])):
                                    def use_ok(x) -> bool:
                                        pp = x.caller.module.parents.get(x.node)
                                        return isinstance(pp, ast.Call) and isinstance(pp.func, ast.Attribute) and pp.func.attr == "attrSet" \
                                            and len(pp.args) == 2 and pp.args[1] is x.node
                                    return all(use_ok(x) for x in hs)
                            if isinstance(par_, ast.Assign) and len(par_.targets) == 1 and isinstance(par_.targets[0], ast.Name) and depth < 2:
                                v_ = par_.targets[0].id
                                uses = [x for x in own_nodes(g.node) if isinstance(x, ast.Name) and x.id == v_ and isinstance(x.ctx, ast.Load)]
                                return bool(uses) and all(into_attr(u_, depth + 1) for u_ in uses)
                            return False
                        par = g.module.parents.get(cs.node)
                        ok = into_attr(cs.node)
                        r.add(f"{g.short}|rawtext-use", c.where(g, cs.node), g.short, U(par)[:70] if par is not None else U(cs.node),
                              "discharged" if ok else "violation",
                              "raw text flows only into an attribute value, which renderAttrs escapes" if ok else
                              "unescaped text of renderInlineAsText is used outside an attribute value")
            continue
        for rt in rets:
            u = j.unsafe_leaf(rt.value)
            key = f"{f.short}|return|{alpha(f, rt.value)[:100]}"
            if u is None:
                r.add(key, c.where(f, rt), f.short, "return " + U(rt.value)[:60], "discharged",
                      "all leaves are literals, escapeHtml(...) results, Token.tag or render-method output")
            else:
                leaf = U(u)
                is_content = isinstance(u, ast.Attribute) and u.attr == "content"
                if is_content and f.name in ("html_block", "html_inline") and isinstance(rt.value, ast.Attribute):
                    raw_methods.append(f.name)
                    r.add(key, c.where(f, rt), f.short, "return " + U(rt.value)[:60], "discharged",
                          "raw pass-through of an html token's content - allowed for the two html kinds only; their production is "
                          "gated on the html option (rule RAW)")
                else:
                    r.add(key, c.where(f, rt), f.short, "return " + U(rt.value)[:60], "violation",
                          f"leaf `{leaf[:50]}` reaches the output without escapeHtml: input characters & < > \" would be emitted verbatim",
                          {"leaf": leaf})
    # escapeHtml itself
    esc = c.p.func("common/utils.py:escapeHtml")
    pairs = []
    for n in own_nodes(esc.node):
        if isinstance(n, ast.Call) and isinstance(n.func, ast.Attribute) and n.func.attr == "replace" and len(n.args) == 2 \
                and all(isinstance(a, ast.Constant) for a in n.args):
            pairs.append((n.lineno, n.col_offset, n.args[0].value, n.args[1].value))
    pairs.sort()
    uses_html_escape = any(isinstance(n, ast.Call) and U(n.func) == "html.escape" for n in own_nodes(esc.node))
    got = {p[2]: p[3] for p in pairs}
    need = {"&": "&amp;", "<": "&lt;", ">": "&gt;", '"': "&quot;"}
    ok = uses_html_escape or (all(got.get(k) == v for k, v in need.items()) and pairs and pairs[0][2] == "&")
    # nested call chain raw.replace(..).replace(..): innermost first
    if not ok and pairs and all(got.get(k) == v for k, v in need.items()):
        inner = [n for n in own_nodes(esc.node) if isinstance(n, ast.Call) and isinstance(n.func, ast.Attribute) and n.func.attr == "replace"
                 and not (isinstance(n.func.value, ast.Call))]
        ok = bool(inner) and all(isinstance(i.args[0], ast.Constant) and i.args[0].value == "&" for i in inner)
    if not ok:
        # for old, new in <module-level constant sequence of pairs>: raw = raw.replace(old, new)
        for loop in [n for n in own_nodes(esc.node) if isinstance(n, ast.For)]:
            try:
                table = c.p.fold(esc.module, loop.iter)
            except Exception:
                continue
            tnames = [x.id for x in ast.walk(loop.target) if isinstance(x, ast.Name)]
            calls = [n for n in ast.walk(loop) if isinstance(n, ast.Call) and isinstance(n.func, ast.Attribute) and n.func.attr == "replace"
                     and len(n.args) == 2 and [U(a) for a in n.args] == tnames[:2]]
            if calls and isinstance(table, list) and all(isinstance(p_, list) and len(p_) == 2 for p_ in table):
                got2 = {p_[0]: p_[1] for p_ in table}
                ok = all(got2.get(k) == v for k, v in need.items()) and table[0][0] == "&"
    r.add("escapeHtml|table", c.where(esc, esc.node), esc.short, "replace & < > \" (ampersand first)", "discharged" if ok else "violation",
          "maps & < > \" to entities, & first" if ok else "escapeHtml does not replace all of & < > \" (with & first)")
    rets = [n for n in own_nodes(esc.node) if isinstance(n, ast.Return)]
    r.floor = 14
    return r


def rule_raw(c: Ctx) -> RuleResult:
    r = RuleResult("RAW", "tokens whose content is rendered raw (html_block, html_inline) are pushed only under a true test of option html")
    raw_kinds = {"html_block", "html_inline"}
    n = 0
    for ts in token_sites(c):
        if not ts.kinds or not (set(ts.kinds) & raw_kinds):
            if ts.kinds is None and ts.via != "retype":
                # a non-literal kind could be an html kind
                r.add(f"{ts.func.short}|nonliteral-kind|{alpha(ts.func, ts.type_expr) if ts.type_expr is not None else ''}",
                      c.where(ts.func, ts.node), ts.func.short, U(ts.node)[:60], "violation",
                      "token kind is not a literal: cannot show it is not an html kind")
            continue
        n += 1
        f = ts.func

        def html_tested(g: Func, at: ast.AST, depth: int = 0) -> tuple[bool, str]:
            """Is `at` (in g) reached only behind a true test of option html - in g itself, or, for a private helper of the rule's
            module, at every one of its call sites?"""
            cfg, facts = c.facts(g)
            ok_, why_ = False, ""
            for node in cfg.owner(at):
                z = facts.get(node.id)
                if z is None:
                    ok_, why_ = True, "unreachable"
                    continue
                ok_ = False
                for (txt, pol) in z.preds:
                    try:
                        e = ast.parse(txt, mode="eval").body
                    except SyntaxError:
                        continue
                    if pol and option_read_key(e) == "html":
                        ok_, why_ = True, f"dominated by a true test of `{txt}`"
                if not ok_:
                    break
            if ok_:
                return True, why_
            callers = c.cg.callers.get(g, [])
            if depth < 2 and callers and all(cs_.kind in ("direct", "method") and cs_.caller.module is g.module for cs_ in callers):
                hows = []
                for cs_ in callers:
                    o_, h_ = html_tested(cs_.caller, cs_.node, depth + 1)
                    if not o_:
                        return False, ""
                    hows.append(f"{cs_.caller.short}: {h_}")
                return True, "every call of the helper is " + "; ".join(hows)
            return False, ""
        ok, why = html_tested(f, ts.node)
        r.add(f"{f.short}|push|{'/'.join(ts.kinds)}", c.where(f, ts.node), f.short, U(ts.node)[:60], "discharged" if ok else "violation",
              why if ok else "an html token can be produced although option html was not tested true on this path: raw input would reach the output")
    r.functions = n
    r.floor = 2
    return r


def _tag_ok(c: Ctx, f: Func, e: ast.AST | None, depth: int = 0) -> bool:
    if e is None:
        return False
    if literal_strs(e) is not None:
        return True
    if isinstance(e, ast.Name) and depth < 3:
        # a local holding the tag: every assignment to it must be a valid tag expression
        vals = [n.value for n in own_nodes(f.node) if isinstance(n, ast.Assign) and any(isinstance(t, ast.Name) and t.id == e.id for t in n.targets)]
        params = {a.arg for a in f.node.args.args + f.node.args.kwonlyargs}
        if vals and e.id not in params:
            return all(_tag_ok(c, f, v, depth + 1) for v in vals)
    # "h" + str(<int>)
    if isinstance(e, ast.BinOp) and isinstance(e.op, ast.Add) and isinstance(e.left, ast.Constant) and isinstance(e.left.value, str) \
            and isinstance(e.right, ast.Call) and isinstance(e.right.func, ast.Name) and e.right.func.id == "str" and len(e.right.args) == 1:
        t = c.tf.scope(f).type(e.right.args[0])
        return t in ("int", "bool") or _all_int_defs(f, e.right.args[0], c)
    if isinstance(e, ast.JoinedStr):
        return all(isinstance(v, ast.Constant) or (isinstance(v, ast.FormattedValue) and
                   (c.tf.scope(f).type(v.value) == "int" or _all_int_defs(f, v.value, c))) for v in e.values)
    return False


def _heading_range(c: Ctx, f: Func, e: ast.AST, at: ast.AST) -> str:
    """For a tag of the form 'h' + str(X): '' if X is provably within 1..6 at the site, else why not."""
    x = None
    if isinstance(e, ast.Name):
        vals = [n for n in own_nodes(f.node) if isinstance(n, ast.Assign) and any(isinstance(t, ast.Name) and t.id == e.id for t in n.targets)]
        for n in vals:
            if literal_strs(n.value) is None:
                why = _heading_range(c, f, n.value, n)
                if why:
                    return why
        return ""
    if isinstance(e, ast.BinOp) and isinstance(e.right, ast.Call) and e.right.args:
        x = e.right.args[0]
    elif isinstance(e, ast.JoinedStr):
        fv = [v for v in e.values if isinstance(v, ast.FormattedValue)]
        x = fv[0].value if len(fv) == 1 else None
    if not isinstance(x, ast.Name):
        return ""
    # (a) every definition is a small constant
    def consts(v: ast.AST) -> list[int] | None:
        if isinstance(v, ast.Constant) and isinstance(v.value, int) and not isinstance(v.value, bool):
            return [v.value]
        if isinstance(v, ast.Constant) and v.value is None:
            return []
        if isinstance(v, ast.IfExp):
            a, b = consts(v.body), consts(v.orelse)
            return None if a is None or b is None else a + b
        return None
    vals: list[int] = []
    allc = True
    for n in own_nodes(f.node):
        if isinstance(n, ast.Assign) and any(isinstance(t, ast.Name) and t.id == x.id for t in n.targets):
            cs_ = consts(n.value)
            if cs_ is None:
                allc = False
            else:
                vals += cs_
        elif isinstance(n, ast.AugAssign) and isinstance(n.target, ast.Name) and n.target.id == x.id:
            allc = False
    if allc and vals and all(1 <= v <= 6 for v in vals):
        return ""
    # (b) the facts at the site entail X <= 6
    cfg, res = c.facts(f)
    for cn in cfg.owner(at):
        z = res.get(cn.id)
        if z is None:
            continue
        if not z.entails(x.id, "0", 6):
            return (f"heading level `{x.id}` is not bounded by 6 on every path to this push: the tag could be `h7` or higher, which is "
                    f"outside the renderer's vocabulary")
    return ""


def _all_int_defs(f: Func, e: ast.AST, c: Ctx | None = None, depth: int = 0) -> bool:
    if not isinstance(e, ast.Name):
        return False
    vals = []
    for n in own_nodes(f.node):
        if isinstance(n, ast.Assign) and any(isinstance(t, ast.Name) and t.id == e.id for t in n.targets):
            vals.append(n.value)
        elif isinstance(n, ast.Assign) and c is not None and depth < 2 and len(n.targets) == 1 and isinstance(n.targets[0], ast.Tuple) \
                and any(isinstance(t, ast.Name) and t.id == e.id for t in n.targets[0].elts) and isinstance(n.value, ast.Call):
            # level, pos, ch = helper(...): the component of every tuple the helper returns must be an int
            k = next(i for i, t in enumerate(n.targets[0].elts) if isinstance(t, ast.Name) and t.id == e.id)
            cs = c.cg.site_of.get(n.value)
            if cs is None or len(cs.callees) != 1 or cs.kind not in ("direct", "method"):
                return False
            h = cs.callees[0]
            rets = [x for x in own_nodes(h.node) if isinstance(x, ast.Return) and x.value is not None]
            if not rets:
                return False
            for rt in rets:
                if not (isinstance(rt.value, ast.Tuple) and len(rt.value.elts) == len(n.targets[0].elts)):
                    return False
                comp = rt.value.elts[k]
                if c.tf.scope(h).type(comp) in ("int",):
                    continue
                if isinstance(comp, ast.Constant) and isinstance(comp.value, int) and not isinstance(comp.value, bool):
                    continue
                if not _all_int_defs(h, comp, c, depth + 1):
                    return False
            vals.append(ast.Constant(value=0))
        elif isinstance(n, ast.AugAssign) and isinstance(n.target, ast.Name) and n.target.id == e.id:
            vals.append(n.value)
    def int_expr(v: ast.AST) -> bool:
        if isinstance(v, ast.Constant):
            return v.value is None or (isinstance(v.value, int) and not isinstance(v.value, bool))
        if isinstance(v, ast.IfExp):
            return int_expr(v.body) and int_expr(v.orelse)
        return False
    return bool(vals) and all(int_expr(v) for v in vals)


def _const_attr_table(c: Ctx, f: Func, v: ast.AST) -> bool:
    """v is `TABLE[key]` (or TABLE.get(key)) where TABLE is a module-level dict literal whose values are dict literals with
    constant string keys: the attribute names are still literals."""
    tab = None
    if isinstance(v, ast.Subscript) and isinstance(v.value, ast.Name):
        tab = v.value
    elif isinstance(v, ast.Call) and isinstance(v.func, ast.Attribute) and v.func.attr == "get" and isinstance(v.func.value, ast.Name):
        tab = v.func.value
    if tab is None:
        return False
    rr = c.p.resolve_name(f.module, tab.id)
    if not (isinstance(rr, tuple) and rr and rr[0] == "const"):
        return False
    d = getattr(rr[3], "value", None)
    if isinstance(d, ast.DictComp):
        return isinstance(d.value, ast.Dict) and all(isinstance(k, ast.Constant) and isinstance(k.value, str) for k in d.value.keys)
    if not isinstance(d, ast.Dict):
        return False
    return all(isinstance(x, ast.Dict) and all(isinstance(k, ast.Constant) and isinstance(k.value, str) for k in x.keys) for x in d.values)


def rule_vocab(c: Ctx) -> RuleResult:
    r = RuleResult("VOCAB", "every tag given to a token and every attribute name is a literal (no input character can reach a tag or attribute name)")
    for ts in token_sites(c):
        f = ts.func
        if ts.via == "retype":
            if "tag" not in ts.stores:
                continue
            e = ts.stores["tag"]
        else:
            e = ts.tag_expr
        ok = _tag_ok(c, f, e)
        why_bad = "tag is computed from non-literal data"
        if ok and e is not None and literal_strs(e) is None:
            rng = _heading_range(c, f, e, ts.node)
            if rng:
                ok, why_bad = False, rng
        r.add(f"{f.short}|tag|{alpha(f, e) if e is not None else '?'}", c.where(f, ts.node), f.short,
              f"tag {U(e) if e is not None else '?'}", "discharged" if ok else "violation",
              "tag is a string literal / 'h' + str(int in 1..6)" if ok else why_bad)
    # stray stores to .tag outside the groups above
    seen_groups = {id(v) for ts in token_sites(c) for v in ts.stores.values()} | {i for ts in token_sites(c) for i in ts.orig_ids}
    for f in c.p.all_funcs():
        sc = c.tf.scope(f)
        for n in own_nodes(f.node):
            if isinstance(n, ast.Assign):
                for t in n.targets:
                    if isinstance(t, ast.Attribute) and t.attr == "tag" and id(n.value) not in seen_groups and sc.type(t.value) in ("Token", None):
                        ok = _tag_ok(c, f, n.value)
                        r.add(f"{f.short}|tag-store|{alpha(f, n.value)}", c.where(f, n), f.short, U(n)[:60], "discharged" if ok else "violation",
                              "literal tag" if ok else "tag stored from non-literal data")
                    if isinstance(t, ast.Attribute) and t.attr == "attrs" and sc.type(t.value) in ("Token", None) and f.module.rel != "token.py":
                        v = n.value
                        if isinstance(v, ast.Dict):
                            ok = all(isinstance(k, ast.Constant) and isinstance(k.value, str) for k in v.keys)
                            r.add(f"{f.short}|attrs|{','.join(U(k) for k in v.keys if k is not None)}", c.where(f, n), f.short, U(n)[:60],
                                  "discharged" if ok else "violation", "attribute names are literals" if ok else "attribute name computed from data")
                        else:
                            ok = isinstance(v, ast.Call) and isinstance(v.func, ast.Attribute) and v.func.attr == "copy"
                            if not ok:
                                ok = _const_attr_table(c, f, v)
                            r.add(f"{f.short}|attrs|{alpha(f, v)}", c.where(f, n), f.short, U(n)[:60],
                                  "discharged" if ok else "violation", "copy of another token's attrs" if ok else "attrs assigned from a non-literal mapping")
            if isinstance(n, ast.Call) and isinstance(n.func, ast.Attribute) and n.func.attr in ("attrSet", "attrJoin", "attrPush") \
                    and f.module.rel != "token.py":
                a0 = n.args[0] if n.args else None
                if n.func.attr == "attrPush":
                    ok = isinstance(a0, ast.Tuple) and a0.elts and isinstance(a0.elts[0], ast.Constant)
                else:
                    ok = isinstance(a0, ast.Constant) and isinstance(a0.value, str)
                r.add(f"{f.short}|{n.func.attr}|{U(a0) if a0 is not None else ''}", c.where(f, n), f.short, U(n)[:60],
                      "discharged" if ok else "violation", "attribute name is a literal" if ok else "attribute name computed from data")
            if isinstance(n, ast.keyword) and n.arg == "attrs" and isinstance(n.value, ast.Dict) and f.module.rel != "token.py":
                ok = all(isinstance(k, ast.Constant) for k in n.value.keys)
                r.add(f"{f.short}|attrs-kw", c.where(f, n.value), f.short, U(n.value)[:60], "discharged" if ok else "violation",
                      "attribute names are literals" if ok else "attribute name computed from data")
    r.functions = len(c.p.funcs)
    r.floor = 70
    return r


def rule_rendex(c: Ctx) -> RuleResult:
    r = RuleResult("RENDEX", "every token kind that carries an empty tag has a render rule of its own (or is `inline`, rendered by render(), "
                             "or the placeholder kind eliminated by rule LIFE) - otherwise renderToken prints `<>`")
    rules = c.reg.render_rules
    kinds: dict[str, list] = {}
    for ts in token_sites(c):
        if ts.kinds is None:
            continue
        tags = literal_strs(ts.tag_expr) if ts.tag_expr is not None else None
        if ts.via == "retype":
            tags = literal_strs(ts.stores.get("tag")) if "tag" in ts.stores else None
            if tags is None:
                continue
        if tags is None:
            continue
        if "" in tags:
            for k in ts.kinds:
                kinds.setdefault(k, []).append(ts)
    if "text" not in kinds or "inline" not in kinds:
        raise AnchorError("token kinds `text` / `inline` with empty tag not found")
    for k, sites in sorted(kinds.items()):
        ts = sites[0]
        if k in rules:
            r.add(f"kind|{k}", c.where(ts.func, ts.node), ts.func.short, f"kind {k!r} tag ''", "discharged", f"render rule RendererHTML.{k} exists")
        elif k == "inline":
            r.add(f"kind|{k}", c.where(ts.func, ts.node), ts.func.short, f"kind {k!r} tag ''", "discharged", "handled by RendererHTML.render (children rendered)")
        elif k == "text_special":
            r.add(f"kind|{k}", c.where(ts.func, ts.node), ts.func.short, f"kind {k!r} tag ''", "discharged", "placeholder kind: converted to `text` before rendering (rule LIFE)")
        elif k == "" and ts.func.module.rel == "renderer.py":
            r.add(f"kind|{k}", c.where(ts.func, ts.node), ts.func.short, f"kind {k!r} tag ''", "discharged", "renderer-local scratch token, never rendered through renderToken's tag path as a stream token")
        else:
            r.add(f"kind|{k}", c.where(ts.func, ts.node), ts.func.short, f"kind {k!r} tag ''", "violation",
                  f"token kind {k!r} has an empty tag and no render rule: the default renderer emits `<>`/`< />` for it",
                  {"producers": [s.func.short for s in sites]})
    r.functions = len({ts.func for s in kinds.values() for ts in s})
    r.floor = 5
    return r
