"""PARTIAL (C01): partial operations of the language used in the parse / render phase cannot fail.

"Never raises" has a clause whose truth is in the shape of the code: an operation that raises on part of its domain must
be applied inside that domain on every path.  BND / TOKBND do this for subscripts of strings and lists, INT / CHR for
``int()`` / ``chr()``; this rule covers the remaining partial operations the phase uses:

  KEY      ``d[k]`` read of a dict          KeyError unless k is in d
  NONE     ``m.attr`` / ``m[i]`` where m is the result of ``re`` search / match / fullmatch    AttributeError / TypeError on None
  INDEXOF  ``s.index(x)``, ``l.remove(x)``, ``next(it)`` without default      ValueError / StopIteration

Discharge, per site (first that applies):
  (1) a *guard fact* holds at the site on every path: a forward must-analysis of "x is truthy" (T-edge of ``if m``,
      F-edge of ``if not m`` / ``m is None``, walrus) and "k is a key of d" (T-edge of ``k in d``, F-edge of ``k not in d``,
      an earlier ``d[k] = ...`` / ``d.setdefault(k, ...)``); facts are killed by any write to a name they mention and by
      calls whose effect summary writes the container; short-circuit operators and conditional expressions around the site
      contribute their tests;
  (2) the site is inside a ``try`` whose handler catches the exception;
  (3) totality arguments, each checked on the current source:
      - a constant key of the options mapping is defined by every preset;
      - a constant key of a record dict: every dict display that flows into the local list the record is read from has it;
      - the key is (a case-folded) group of a match handed to a ``sub`` callback, and every alternative the group can
        match (regex AST) is a key of the module-level constant dict;
      - a match object received as the parameter of a ``re.sub`` callback is never None;
      - entries of ``env['references']`` are read with the keys every writer in the package stores (assumption: a
        caller-seeded env follows the same documented shape).
"""
from __future__ import annotations

import ast
from typing import Any

from ..cfg import Node
from ..core import AnchorError, Func, own_nodes, presets
from ..ctx import Ctx
from ..dataflow import Problem, solve
from ..report import RuleResult, alpha

U = ast.unparse

_OPTIONAL_MATCH = (".search()", ".match()", ".fullmatch()")


def _names(text_or_node: Any) -> set[str]:
    n = text_or_node if isinstance(text_or_node, ast.AST) else ast.parse(text_or_node, mode="eval")
    return {x.id for x in ast.walk(n) if isinstance(x, ast.Name)}


def _assume(e: ast.AST, pos: bool) -> set[str]:
    """Guard facts implied by e being truthy (pos) / falsy.  Facts: `T:x` / `F:x` (x truthy / falsy), `K:d|k` (k is a key of
    d), and two-literal disjunctions `O:l1||l2` (from the failing edge of `a and b` / the passing edge of `a or b`), resolved
    against the other facts where a site is judged."""
    out: set[str] = set()
    if isinstance(e, ast.UnaryOp) and isinstance(e.op, ast.Not):
        return _assume(e.operand, not pos)
    if isinstance(e, ast.BoolOp):
        if (isinstance(e.op, ast.And) and pos) or (isinstance(e.op, ast.Or) and not pos):
            for v in e.values:
                out |= _assume(v, pos)
        elif len(e.values) == 2:
            a, b = (_assume(v, pos) for v in e.values)
            a = {x for x in a if not x.startswith("O:")}
            b = {x for x in b if not x.startswith("O:")}
            if len(a) == 1 and len(b) == 1:
                out.add("O:" + "||".join(sorted([next(iter(a)), next(iter(b))])))
        return out
    if isinstance(e, (ast.Name, ast.Attribute)) and not pos:
        out.add("F:" + U(e))
        return out
    if isinstance(e, ast.NamedExpr):
        if pos and isinstance(e.target, ast.Name):
            out.add("T:" + e.target.id)
        return out
    if isinstance(e, (ast.Name, ast.Attribute)) and pos:
        out.add("T:" + U(e))
        return out
    if isinstance(e, ast.Compare) and len(e.ops) == 1:
        op, l, r = e.ops[0], e.left, e.comparators[0]
        is_none = isinstance(r, ast.Constant) and r.value is None
        if is_none and ((isinstance(op, (ast.Is, ast.Eq)) and not pos) or (isinstance(op, (ast.IsNot, ast.NotEq)) and pos)):
            out.add("T:" + U(l))
        if (isinstance(op, ast.In) and pos) or (isinstance(op, ast.NotIn) and not pos):
            out.add(f"K:{U(r)}|{U(l)}")
    return out


def _resolve(have: set[str]) -> set[str]:
    """Close a fact set under unit resolution of its two-literal disjunctions."""
    have = set(have)
    neg = {"T": "F", "F": "T"}
    changed = True
    while changed:
        changed = False
        for f_ in list(have):
            if f_.startswith("O:"):
                lits_ = f_[2:].split("||")
                if any(l in have for l in lits_):
                    continue
                left = [l for l in lits_ if not (l[0] in neg and (neg[l[0]] + l[1:]) in have)]
                if len(left) == 1 and left[0] not in have:
                    have.add(left[0])
                    changed = True
                elif 1 < len(left) < len(lits_):
                    sm = "O:" + "||".join(sorted(left))
                    if sm not in have:
                        have.add(sm)
                        changed = True
    return have


def _fact_names(fact: str) -> set[str]:
    body = fact[2:].replace("||", "|").replace("T:", "").replace("F:", "").replace("K:", "")
    out: set[str] = set()
    for part in body.split("|"):
        try:
            out |= _names(part)
        except SyntaxError:
            pass
    return out


class _Guards(Problem):
    def __init__(self, c: Ctx, f: Func, entry: frozenset = frozenset()) -> None:
        self.kills = c.eff.call_kills(f)
        self.entry = entry

    def entry_state(self):
        return self.entry

    def join(self, a, b, at):
        common = a & b
        # what holds on one path or on the other (the exits of a short-circuit test, the arms of an `if`): kept as disjunctions
        # of at most three literals; a side may contribute literals or disjunctions it already carries (the CFG joins the
        # predecessors of a node pairwise, so a three-way join arrives in two steps)
        ca = [[x] for x in a - b if not x.startswith("O:")] + [x[2:].split("||") for x in a - b if x.startswith("O:")]
        cb = [[y] for y in b - a if not y.startswith("O:")] + [y[2:].split("||") for y in b - a if y.startswith("O:")]
        if 0 < len(ca) <= 6 and 0 < len(cb) <= 6:
            common = set(common)
            neg = {"T": "F", "F": "T"}
            for x in ca:
                for y in cb:
                    cl = sorted(set(x) | set(y))
                    if len(cl) > 3 or any(l[0] in neg and (neg[l[0]] + l[1:]) in cl for l in cl):
                        continue          # too long, or a tautology
                    common.add(cl[0] if len(cl) == 1 else "O:" + "||".join(cl))
            return frozenset(common)
        return common

    @staticmethod
    def _kill_names(st: set[str], names: set[str]) -> None:
        for fact in list(st):
            if _fact_names(fact) & names:
                st.discard(fact)

    @staticmethod
    def _kill_path(st: set[str], path: str) -> None:
        """A call may write `path` (an access path text such as state.env or cache): drop facts about containers under it."""
        for fact in list(st):
            if fact.startswith("O:"):
                if path.split(".")[0].split("[")[0] in _fact_names(fact):
                    st.discard(fact)
                continue
            if fact.startswith("K:"):
                d = fact[2:].split("|", 1)[0]
                if d == path or d.startswith(path + ".") or d.startswith(path + "[") or path.startswith(d + ".") or path.startswith(d + "["):
                    st.discard(fact)
            elif fact[2:] == path or fact[2:].startswith(path + "."):
                st.discard(fact)

    def _calls(self, st: set[str], root: ast.AST) -> None:
        for call in [n for n in ast.walk(root) if isinstance(n, ast.Call)]:
            fn = call.func
            if isinstance(fn, ast.Attribute) and fn.attr in ("pop", "popitem", "clear", "update", "remove", "discard"):
                self._kill_path(st, U(fn.value))
            try:
                for path in self.kills(call):
                    self._kill_path(st, path.rstrip(".*"))
            except Exception:          # noqa: BLE001
                pass

    def edge(self, n: Node, state, label: str, succ: Node):
        st = set(state)
        a = n.ast
        if a is None:
            return frozenset(st)
        if n.kind == "test":
            self._calls(st, a)
            if label in ("T", "F"):
                # walrus targets are rebound by the test itself
                for x in ast.walk(a):
                    if isinstance(x, ast.NamedExpr) and isinstance(x.target, ast.Name):
                        self._kill_names(st, {x.target.id})
                st |= _assume(a, label == "T")
            return frozenset(st)
        if n.kind == "for":
            if label == "iter":
                self._kill_names(st, {x.id for x in ast.walk(a.target) if isinstance(x, ast.Name)})
            return frozenset(st)
        if n.kind == "stmt" and not isinstance(a, (ast.FunctionDef, ast.ClassDef)):
            if label == "exc":
                # the statement may have been interrupted anywhere: keep only what it cannot have touched
                self._calls(st, a)
            else:
                self._calls(st, a)
            tg: list[ast.AST] = []
            if isinstance(a, ast.Assign):
                tg = list(a.targets)
            elif isinstance(a, (ast.AugAssign, ast.AnnAssign)):
                tg = [a.target]
            elif isinstance(a, ast.Delete):
                tg = list(a.targets)
            elif isinstance(a, (ast.With,)):
                tg = [i.optional_vars for i in a.items if i.optional_vars is not None]
            gen: set[str] = set()
            for t in tg:
                for e in (t.elts if isinstance(t, (ast.Tuple, ast.List)) else [t]):
                    if isinstance(e, ast.Name):
                        self._kill_names(st, {e.id})
                    elif isinstance(e, ast.Attribute):
                        self._kill_path(st, U(e))
                    elif isinstance(e, ast.Subscript):
                        if isinstance(a, ast.Delete):
                            self._kill_path(st, U(e.value))
                        elif not isinstance(e.slice, ast.Slice):
                            gen.add(f"K:{U(e.value)}|{U(e.slice)}")
            for x in ast.walk(a):
                if isinstance(x, ast.NamedExpr) and isinstance(x.target, ast.Name):
                    self._kill_names(st, {x.target.id})
                if isinstance(x, ast.Call) and isinstance(x.func, ast.Attribute) and x.func.attr == "setdefault" and x.args:
                    gen.add(f"K:{U(x.func.value)}|{U(x.args[0])}")
            if label != "exc":
                st |= gen
                # x = <truthy display>: not tracked; `x = y` copies nothing
        return frozenset(st)


def _entry_guards(c: Ctx, f: Func, depth: int = 0) -> frozenset:
    """Guard facts a private helper may rely on at entry: what holds at *every* call site about the arguments, translated to the
    parameter names (`"references" in state.env` at the call of `_record(state.env, ...)` becomes `"references" in env`)."""
    cache = c.__dict__.setdefault("_partial_entry", {})
    if f in cache:
        return cache[f]
    cache[f] = frozenset()
    sites = c.cg.callers.get(f, [])
    if depth > 2 or not sites or not c.internal_helper(f) or any(cs.kind not in ("direct", "method") for cs in sites):
        return frozenset()
    params = [a.arg for a in f.node.args.posonlyargs + f.node.args.args + f.node.args.kwonlyargs]
    acc: set[str] | None = None
    for cs in sites:
        g = cs.caller
        gcfg = c.cfg(g)
        gres = solve(gcfg, _Guards(c, g, _entry_guards(c, g, depth + 1)), widen_after=10**9)
        amap = {}
        for pn in params:
            a = c.eff.arg_for_param(cs, g if False else f, pn)
            if a is not None and isinstance(a, (ast.Name, ast.Attribute)):
                amap[U(a)] = pn
        here: set[str] | None = None
        for nd in gcfg.owner(cs.node):
            st = gres.get(nd.id)
            if st is None:
                continue
            have = _resolve(set(st) | _local_guards(g, cs.node, nd.ast if nd.ast is not None else cs.node))
            tr: set[str] = set()
            for fact in have:
                if fact.startswith("K:"):
                    d, k = fact[2:].split("|", 1)
                    try:
                        kconst = isinstance(ast.parse(k, mode="eval").body, ast.Constant)
                    except SyntaxError:
                        kconst = False
                    d2 = amap.get(d)
                    if d2 is None:
                        # state.env -> <param>.env : a path below an argument
                        for a_txt, pn_ in amap.items():
                            if d.startswith(a_txt + ".") or d.startswith(a_txt + "["):
                                d2 = pn_ + d[len(a_txt):]
                                break
                    if d2 is not None and (kconst or k in amap):
                        tr.add(f"K:{d2}|{k if kconst else amap[k]}")
                elif fact.startswith("T:") and fact[2:] in amap:
                    tr.add("T:" + amap[fact[2:]])
            here = tr if here is None else here & tr
        if here is None:
            continue
        acc = here if acc is None else acc & here
    cache[f] = frozenset(acc or ())
    return cache[f]


def _local_guards(f: Func, site: ast.AST, root: ast.AST) -> set[str]:
    """Facts contributed by short-circuit operators / conditional expressions that enclose the site inside its statement."""
    out: set[str] = set()
    parents = f.module.parents
    c = site
    while c is not root and c in parents:
        p = parents[c]
        if isinstance(p, ast.BoolOp) and c in p.values:
            for v in p.values[:p.values.index(c)]:
                out |= _assume(v, isinstance(p.op, ast.And))
        elif isinstance(p, ast.IfExp):
            if c is p.body:
                out |= _assume(p.test, True)
            elif c is p.orelse:
                out |= _assume(p.test, False)
        elif isinstance(p, (ast.ListComp, ast.SetComp, ast.GeneratorExp, ast.DictComp)):
            for g in p.generators:
                for cond in g.ifs:
                    if c is not cond:
                        out |= _assume(cond, True)
        if isinstance(p, ast.stmt):
            break
        c = p
    return out


def _in_try(f: Func, node: ast.AST, excs: set[str]) -> bool:
    parents = f.module.parents
    p: ast.AST | None = node
    while p is not None and p is not f.node:
        ch = p
        p = parents.get(p)
        if isinstance(p, ast.Try) and ch in p.body:
            for h in p.handlers:
                if h.type is None:
                    return True
                names = [U(x).split(".")[-1] for x in (h.type.elts if isinstance(h.type, ast.Tuple) else [h.type])]
                if set(names) & (excs | {"Exception", "BaseException"}):
                    return True
    return False


def _group_alternatives(pattern: str, flags_ignorecase: bool, group: int) -> set[str] | None:
    """The finite set of strings group `group` of the pattern can match (literal alternatives only), lower-cased if the
    pattern ignores case; None if it is not a finite literal alternation."""
    import re._parser as sp          # type: ignore[import-not-found]
    try:
        tree = sp.parse(pattern)
    except Exception:          # noqa: BLE001
        return None

    def lits(seq) -> set[str] | None:
        acc = {""}
        for op, av in seq:
            name = str(op)
            if name == "LITERAL":
                acc = {s + chr(av) for s in acc}
            elif name == "BRANCH":
                alts: set[str] = set()
                for br in av[1]:
                    r = lits(br)
                    if r is None:
                        return None
                    alts |= r
                acc = {s + t for s in acc for t in alts}
            elif name == "SUBPATTERN":
                r = lits(av[3])
                if r is None:
                    return None
                acc = {s + t for s in acc for t in r}
            elif name == "IN":
                chars = set()
                for o2, a2 in av:
                    if str(o2) == "LITERAL":
                        chars.add(chr(a2))
                    else:
                        return None
                acc = {s + ch for s in acc for ch in chars}
            elif name in ("MAX_REPEAT", "MIN_REPEAT") and av[0] in (0, 1) and av[1] == 1:
                # `x?` / `x{1}`: with and (for ?) without the optional part
                r = lits(av[2])
                if r is None:
                    return None
                acc = {s + t for s in acc for t in (r | ({""} if av[0] == 0 else set()))}
            else:
                return None
            if len(acc) > 256:
                return None
        return acc

    def find(seq):
        for op, av in seq:
            name = str(op)
            if name == "SUBPATTERN":
                if av[0] == group:
                    return av[3]
                r = find(av[3])
                if r is not None:
                    return r
            elif name == "BRANCH":
                for br in av[1]:
                    r = find(br)
                    if r is not None:
                        return r
            elif name in ("MAX_REPEAT", "MIN_REPEAT"):
                r = find(av[2])
                if r is not None:
                    return r
        return None
    g = tree if group == 0 else find(tree)          # group 0: the whole match
    if g is None:
        return None
    res = lits(g)
    if res is None:
        return None
    return {s.lower() for s in res} if flags_ignorecase else res


def _sub_callback_patterns(c: Ctx, f: Func) -> list[tuple[str, bool]] | None:
    """If f is only ever used as the callback of `<compiled constant pattern>.sub(f, ...)` / `re.sub(pat, f, ...)`:
    the (pattern text, ignorecase) of every such use; None otherwise."""
    uses: list[tuple[str, bool]] = []
    found_other = False
    for m in c.p.modules.values():
        for n in ast.walk(m.tree):
            if isinstance(n, ast.Name) and n.id == f.name and isinstance(n.ctx, ast.Load):
                r = c.p.resolve(m, n)
                if r is not f:
                    continue
                par = m.parents.get(n)
                if isinstance(par, ast.Call) and n in par.args and isinstance(par.func, ast.Attribute) and par.func.attr in ("sub", "subn"):
                    pat = None
                    base = par.func.value
                    if par.args and par.args[0] is n:
                        pat = _compiled_pattern(c, m, base)
                    elif len(par.args) >= 2 and par.args[1] is n and U(base) == "re":
                        pat = _pattern_text(c, m, par.args[0], par)
                    if pat is not None:
                        uses.append(pat)
                        continue
                found_other = True
    if found_other or not uses:
        return None
    return uses


def _pattern_text(c: Ctx, m, e: ast.AST, call: ast.Call | None) -> tuple[str, bool] | None:
    try:
        v = c.p.fold(m, e)
    except Exception:          # noqa: BLE001
        return None
    if not isinstance(v, str):
        return None
    ic = False
    if call is not None:
        for k in call.keywords:
            if k.arg == "flags" and "IGNORECASE" in U(k.value) or k.arg == "flags" and U(k.value).endswith(".I"):
                ic = True
    return v, ic or "(?i" in v


def _compiled_pattern(c: Ctx, m, base: ast.AST) -> tuple[str, bool] | None:
    """(pattern, ignorecase) of a module-level `NAME = re.compile(<const>, flags=...)` referenced by `base`."""
    r = c.p.resolve(m, base)
    if not (isinstance(r, tuple) and r[0] == "const"):
        return None
    _, mod, _name, d = r
    val = getattr(d, "value", None)
    if not (isinstance(val, ast.Call) and U(val.func) in ("re.compile", "compile") and val.args):
        return None
    got = _pattern_text(c, mod, val.args[0], val)
    if got is None:
        return None
    ic = got[1]
    if len(val.args) > 1 and ("IGNORECASE" in U(val.args[1]) or U(val.args[1]).endswith(".I")):
        ic = True
    return got[0], ic


def _const_dict_keys(c: Ctx, f: Func, d: ast.AST) -> set | None:
    r = c.p.resolve(f.module, d) if isinstance(d, (ast.Name, ast.Attribute)) else None
    if isinstance(r, tuple) and r[0] == "const":
        val = getattr(r[3], "value", None)
        if isinstance(val, ast.Dict) and all(isinstance(k, ast.Constant) for k in val.keys):
            # the table must not be written anywhere in the package
            name = r[2]
            for m in c.p.modules.values():
                for n in ast.walk(m.tree):
                    if isinstance(n, ast.Subscript) and isinstance(n.ctx, (ast.Store, ast.Del)) and isinstance(n.value, ast.Name) and n.value.id == name \
                            and c.p.resolve(m, n.value) == r:
                        return None
            return {k.value for k in val.keys}          # type: ignore[union-attr]
    return None


def _record_keys(c: Ctx, f: Func, recv: ast.AST, _depth: int = 0) -> set | None:
    """Keys common to every dict display that can be the value of `recv`: recv is a local bound from elements of a local
    list (`item = stack[j]`, `stack[j]`, `for item in stack`) all of whose elements are dict displays with constant keys and
    which is not otherwise written."""
    def list_of(e: ast.AST) -> str | None:
        if isinstance(e, ast.Subscript) and isinstance(e.value, ast.Name) and not isinstance(e.slice, ast.Slice):
            return e.value.id
        return None
    lst = list_of(recv)
    if lst is None and isinstance(recv, ast.Name):
        srcs = c.eff.binding_sources(f, recv.id)
        cands = set()
        for s_ in srcs:
            l2 = list_of(s_) or (s_.id if isinstance(s_, ast.Name) else None)
            if l2 is None:
                return None
            cands.add(l2)
        if len(cands) != 1:
            return None
        lst = next(iter(cands))
        # no del / pop of keys on the record itself
        for n in own_nodes(f.node):
            if isinstance(n, ast.Delete) and any(isinstance(t, ast.Subscript) and isinstance(t.value, ast.Name) and t.value.id == recv.id for t in n.targets):
                return None
            if isinstance(n, ast.Call) and isinstance(n.func, ast.Attribute) and isinstance(n.func.value, ast.Name) and n.func.value.id == recv.id \
                    and n.func.attr in ("pop", "popitem", "clear"):
                return None
    if lst is not None and lst in {a.arg for a in f.node.args.args + f.node.args.kwonlyargs}:
        # the list is handed in: the keys common to the lists passed at every call site
        sites = c.cg.callers.get(f, [])
        if _depth > 2 or not sites or any(cs.kind not in ("direct", "method") for cs in sites):
            return None
        acc: set | None = None
        for cs in sites:
            a = c.eff.arg_for_param(cs, f, lst)
            if not isinstance(a, ast.Name):
                return None
            ks = _record_keys(c, cs.caller, ast.Subscript(value=a, slice=ast.Constant(value=0), ctx=ast.Load()), _depth + 1)
            if ks is None:
                return None
            acc = ks if acc is None else acc & ks
        return acc
    if lst is None or not c.tf.scope(f).is_local(lst):
        return None
    keys: set | None = None
    n_disp = 0
    for n in own_nodes(f.node):
        vals: list[ast.AST] = []
        if isinstance(n, ast.Assign) and any(isinstance(t, ast.Name) and t.id == lst for t in n.targets):
            if isinstance(n.value, ast.List):
                vals = list(n.value.elts)
            elif isinstance(n.value, ast.Subscript) and isinstance(n.value.slice, ast.Slice) and isinstance(n.value.value, ast.Name) and n.value.value.id == lst:
                continue          # stack = stack[:j]
            else:
                return None
        elif isinstance(n, ast.AnnAssign) and isinstance(n.target, ast.Name) and n.target.id == lst:
            if n.value is None:
                continue
            if isinstance(n.value, ast.List):
                vals = list(n.value.elts)
            else:
                return None
        elif isinstance(n, ast.Call) and isinstance(n.func, ast.Attribute) and isinstance(n.func.value, ast.Name) and n.func.value.id == lst:
            if n.func.attr == "append" and n.args:
                vals = [n.args[0]]
            elif n.func.attr in ("pop", "clear", "reverse", "index", "count", "copy"):
                continue
            else:
                return None
        elif isinstance(n, ast.Subscript) and isinstance(n.ctx, ast.Store) and isinstance(n.value, ast.Name) and n.value.id == lst:
            par = f.module.parents.get(n)
            if isinstance(par, ast.Assign) and not isinstance(n.slice, ast.Slice):
                vals = [par.value]
            else:
                return None
        elif isinstance(n, ast.Delete) and all(isinstance(t, ast.Subscript) and isinstance(t.value, ast.Name) and t.value.id == lst for t in n.targets):
            continue          # del stack[j:] / del stack[j]: removes whole records
        elif isinstance(n, ast.Delete):
            # deleting keys of elements: `del stack[j]['k']`
            for t in n.targets:
                if isinstance(t, ast.Subscript) and isinstance(t.value, ast.Subscript) and isinstance(t.value.value, ast.Name) and t.value.value.id == lst:
                    return None
        for v in vals:
            if not (isinstance(v, ast.Dict) and all(isinstance(k, ast.Constant) for k in v.keys)):
                return None
            ks = {k.value for k in v.keys}          # type: ignore[union-attr]
            keys = ks if keys is None else keys & ks
            n_disp += 1
    return keys if n_disp else None


def _reference_entry_keys(c: Ctx) -> set | None:
    """Keys every writer of env['references'][label] in the package stores."""
    keys: set | None = None
    for m in c.p.modules.values():
        for n in ast.walk(m.tree):
            if isinstance(n, ast.Assign) and len(n.targets) == 1 and isinstance(n.targets[0], ast.Subscript):
                t = n.targets[0]
                b = t.value
                if isinstance(b, ast.Name):
                    # references = state.env["references"]; references[label] = {...}
                    fn_ = m.parents.get(n)
                    while fn_ is not None and not isinstance(fn_, (ast.FunctionDef, ast.Module)):
                        fn_ = m.parents.get(fn_)
                    ds_ = [x.value for x in ast.walk(fn_) if isinstance(x, ast.Assign) and any(isinstance(t_, ast.Name) and t_.id == b.id for t_ in x.targets)] \
                        if fn_ is not None else []
                    if len(ds_) == 1:
                        b = ds_[0]
                if isinstance(b, ast.Subscript) and isinstance(b.slice, ast.Constant) and b.slice.value == "references":
                    if isinstance(n.value, ast.Dict) and all(isinstance(k, ast.Constant) for k in n.value.keys):
                        ks = {k.value for k in n.value.keys}          # type: ignore[union-attr]
                        keys = ks if keys is None else keys & ks
                    else:
                        return None
    return keys


def _is_reference_entry(c: Ctx, f: Func, recv: ast.AST) -> bool:
    """recv denotes env['references'][label] (directly or through a single-definition local)."""
    def table(e: ast.AST) -> bool:
        return isinstance(e, ast.Subscript) and isinstance(e.slice, ast.Constant) and e.slice.value == "references"

    def direct(e: ast.AST) -> bool:
        if isinstance(e, ast.Subscript) and table(e.value):
            return True
        # env['references'].get(label[, None]): the entry or None (the None case is the NONE-style test the caller makes)
        return isinstance(e, ast.Call) and isinstance(e.func, ast.Attribute) and e.func.attr == "get" and table(e.func.value) \
            and (len(e.args) == 1 or (len(e.args) == 2 and isinstance(e.args[1], ast.Constant) and e.args[1].value is None))
    if direct(recv):
        return True
    if isinstance(recv, ast.Name):
        srcs = c.eff.binding_sources(f, recv.id)
        return bool(srcs) and all(direct(s_) for s_ in srcs)
    return False


def rule_partial(c: Ctx) -> RuleResult:
    r = RuleResult("PARTIAL", "partial operations in the parse / render phase stay inside their domain on every path: a dict read has its "
                              "key (membership test, earlier store, or a totality argument checked on the source), the result of a "
                              "regex search is tested before it is used, `index` / `remove` / `next` cannot miss")
    phase = c.cg.parse_phase()
    pres = presets(c.p)
    opt_keys = None
    for name, p_ in pres.items():
        ks = set((p_.get("options") or {}).keys())
        opt_keys = ks if opt_keys is None else opt_keys & ks
    ref_keys = _reference_entry_keys(c)
    n_key = n_none = n_idx = 0
    for f in sorted(phase, key=lambda x: x.qual):
        sc = c.tf.scope(f)
        sites: list[tuple[str, ast.AST, ast.AST]] = []          # (kind, site node, receiver)
        for x in own_nodes(f.node):
            if isinstance(x, ast.Subscript) and isinstance(x.ctx, ast.Load) and not isinstance(x.slice, ast.Slice):
                t = sc.type(x.value)
                if (isinstance(t, tuple) and t and t[0] == "dict") or t in ("Env", "OptionsDict", "dict"):
                    sites.append(("KEY", x, x.value))
                elif isinstance(t, tuple) and t and t[0] == "external" and str(t[1]).endswith(_OPTIONAL_MATCH):
                    sites.append(("NONE", x, x.value))
            elif isinstance(x, ast.Attribute) and isinstance(x.ctx, ast.Load):
                t = sc.type(x.value)
                if isinstance(t, tuple) and t and t[0] == "external" and str(t[1]).endswith(_OPTIONAL_MATCH):
                    sites.append(("NONE", x, x.value))
            elif isinstance(x, ast.Call):
                fn = x.func
                if isinstance(fn, ast.Attribute) and fn.attr in ("index", "remove") and x.args:
                    t = sc.type(fn.value)
                    if t == "str" or (isinstance(t, tuple) and t and t[0] in ("list", "tuple")):
                        sites.append(("INDEXOF", x, fn.value))
                elif isinstance(fn, ast.Name) and fn.id == "next" and len(x.args) == 1 and not sc.is_local("next"):
                    sites.append(("INDEXOF", x, x.args[0]))
        if not sites:
            continue
        r.functions += 1
        cfg = c.cfg(f)
        res = solve(cfg, _Guards(c, f, _entry_guards(c, f)), widen_after=10**9)
        for kind, site, recv in sites:
            owners = [n for n in cfg.owner(site) if res.get(n.id) is not None]
            key = f"{f.short}|{kind}|{alpha(f, site)}"
            where = c.where(f, site)
            if not owners:
                r.add(key, where, f.short, U(site)[:70], "discharged", "unreachable")
                continue

            def holds(fact: str) -> bool:
                for n in owners:
                    have = _resolve(set(res[n.id]) | _local_guards(f, site, n.ast if n.ast is not None else site))
                    if fact not in have:
                        return False
                return True
            if kind == "KEY":
                n_key += 1
                k = site.slice          # type: ignore[attr-defined]
                why = ""
                k_alias = None
                if isinstance(k, ast.Name):
                    # ref = match.group(1) ... entities[ref]: the guard was made on the defining expression
                    defs_k = [x for x in own_nodes(f.node) if isinstance(x, ast.Name) and x.id == k.id and isinstance(x.ctx, ast.Store)]
                    par_k = f.module.parents.get(defs_k[0]) if len(defs_k) == 1 else None
                    if isinstance(par_k, ast.Assign) and len(par_k.targets) == 1 and par_k.targets[0] is defs_k[0]:
                        inner = {x.id for x in ast.walk(par_k.value) if isinstance(x, ast.Name)}
                        from ..reach import Reaching
                        rd_ = Reaching(cfg)
                        # nothing the defining expression mentions is rebound between the definition and the use
                        if all({id(d_) for d_ in rd_.at_ast(par_k, nm)} == {id(d_) for d_ in rd_.at_ast(site, nm)} for nm in inner):
                            k_alias = U(par_k.value)
                if holds(f"K:{U(recv)}|{U(k)}") or (k_alias is not None and holds(f"K:{U(recv)}|{k_alias}")):
                    why = "the key is present: a membership test or a store of this key dominates the read, and nothing in between can remove it"
                elif _in_try(f, site, {"KeyError", "LookupError"}):
                    why = "inside a try whose handler catches KeyError"
                elif isinstance(k, ast.Constant) and sc.type(recv) == "OptionsDict" and opt_keys is not None and k.value in opt_keys:
                    why = f"option key {k.value!r} is defined by every preset ({', '.join(sorted(pres))})"
                elif isinstance(k, ast.Constant) and (_record_keys(c, f, recv) or set()) >= {k.value}:
                    why = "record key: every dict display that flows into the list this record is read from has it"
                elif isinstance(k, ast.Constant) and _is_reference_entry(c, f, recv) and ref_keys is not None and k.value in ref_keys:
                    why = (f"entry of env['references']: every writer in the package stores the keys {sorted(ref_keys)} "
                           f"(assumption: a caller-seeded env has the documented shape)")
                else:
                    ck = _const_dict_keys(c, f, recv)
                    if ck is not None:
                        if isinstance(k, ast.Constant):
                            if k.value in ck:
                                why = "constant key of a constant table"
                        else:
                            why = _group_key_total(c, f, k, ck)
                r.add(key, where, f.short, U(site)[:70], "discharged" if why else "violation",
                      why or f"dict read `{U(site)}` with no guarantee that the key is present on every path (no dominating `in` test or store, "
                             f"no try/except KeyError, no totality argument): a KeyError propagates out of parse / render")
            elif kind == "NONE":
                n_none += 1
                why = ""
                if isinstance(recv, (ast.Name, ast.Attribute)) and holds("T:" + U(recv)):
                    why = "the match object was tested (truthy / is not None) on every path to this use"
                elif _in_try(f, site, {"AttributeError", "TypeError"}):
                    why = "inside a try whose handler catches AttributeError"
                r.add(key, where, f.short, U(site)[:70], "discharged" if why else "violation",
                      why or f"`{U(recv)}` is the result of a regex search / match and may be None here: it is used without a test on some path "
                             f"(AttributeError out of parse / render)")
            else:
                n_idx += 1
                why = ""
                fn = site.func          # type: ignore[attr-defined]
                if isinstance(fn, ast.Name):
                    if _in_try(f, site, {"StopIteration"}):
                        why = "inside a try whose handler catches StopIteration"
                elif _in_try(f, site, {"ValueError"}):
                    why = "inside a try whose handler catches ValueError"
                elif len(site.args) == 1 and holds(f"K:{U(recv)}|{U(site.args[0])}"):          # type: ignore[attr-defined]
                    why = "a membership test dominates the call"
                r.add(key, where, f.short, U(site)[:70], "discharged" if why else "violation",
                      why or f"`{U(site)[:60]}` raises when the element is absent and nothing on the path rules that out "
                             f"(no try/except, no dominating membership test)")
    if n_key < 10 or n_none < 10:
        raise AnchorError(f"only {n_key} dict reads / {n_none} match uses found in the phase")
    r.notes.append(f"{n_key} dict reads, {n_none} uses of optional match objects, {n_idx} index / remove / next calls")
    r.floor = 40
    return r


def _group_key_total(c: Ctx, f: Func, k: ast.AST, table_keys: set) -> str:
    """k is `<match param>.group(n)` (optionally `.lower()`) of a sub-callback: every alternative of group n is a table key."""
    lowered = False
    e = k
    if isinstance(e, ast.Call) and isinstance(e.func, ast.Attribute) and e.func.attr in ("lower", "casefold") and not e.args:
        lowered, e = True, e.func.value
    if isinstance(e, ast.Call) and isinstance(e.func, ast.Attribute) and e.func.attr == "group" and not e.args and not e.keywords:
        e = ast.Call(func=e.func, args=[ast.Constant(value=0)], keywords=[])          # m.group() is m.group(0)
    if not (isinstance(e, ast.Call) and isinstance(e.func, ast.Attribute) and e.func.attr == "group" and len(e.args) == 1
            and isinstance(e.args[0], ast.Constant) and isinstance(e.args[0].value, int) and isinstance(e.func.value, ast.Name)):
        return ""
    params = [a.arg for a in f.node.args.args]
    if e.func.value.id not in params:
        return ""
    pats = _sub_callback_patterns(c, f)
    if not pats:
        return ""
    for pat, ic in pats:
        alts = _group_alternatives(pat, ic and lowered, e.args[0].value)
        if alts is None:
            return ""
        if ic and not lowered:
            return ""
        if not alts <= table_keys:
            return ""
    return (f"the key is group {e.args[0].value} of the match handed to this `sub` callback; every alternative the group can match "
            f"({', '.join(sorted(repr(p_[0]) for p_ in pats))}) is a key of the constant table")
