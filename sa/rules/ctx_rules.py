"""C07 rule families.

CTX   container context (blkIndent, listIndent, lineMax, and every line-table cell a rule writes) holds its entry value at
      every return of every block rule and of ParserBlock.tokenize (value numbering, co-inductive over the rule set);
FRESH the two context fields that are *not* restored are dead at rule exit: `tight` is rewritten by the dispatcher after every
      dispatch and by list_block before its own read; `parentType` is a literal stored by the dispatching rule at every
      terminator dispatch site (its only reader runs in validation mode);
LOCK  blockquote's four save lists are created / appended in lockstep, one group per scanned line, and the restore loop
      writes the four tables back from the matching lists on every path from a table write to the return.
"""
from __future__ import annotations

import ast
from typing import Any

from ..cfg import CFG, Node
from ..core import AnchorError, Func, U, own_nodes
from ..ctx import Ctx
from ..report import RuleResult, alpha
from ..tokens import _blocks
from ..typestate import propagate
from ..valnum import VN, analyse, entry

CTX_FIELDS = ("blkIndent", "listIndent", "lineMax")
TABLES = ("bMarks", "tShift", "sCount", "bsCount", "eMarks")


def _block_family(c: Ctx) -> dict[Func, str]:
    """Block rules, the block dispatcher and helpers that take a StateBlock: function -> name of its state parameter."""
    out: dict[Func, str] = {}
    for f in c.cg.parse_phase():
        if f.name == "__init__":
            continue
        sc = c.tf.scope(f)
        for a in f.node.args.posonlyargs + f.node.args.args:
            if sc.env.get(a.arg) == "StateBlock":
                out[f] = a.arg
                break
    return out


def _ctx_override(c: Ctx, K: dict[Func, str]):
    def override(cs: Any, call: ast.Call, env: dict, nid: int) -> bool:
        if cs is None or not cs.callees or not any(g in K for g in cs.callees):
            return False
        v = ("def", nid, "call:" + U(call.func).split(".")[-1])
        silent_probe = cs.kind.startswith("dispatch:block:") and call.args and isinstance(call.args[-1], ast.Constant) \
            and call.args[-1].value is True
        for g in cs.callees:
            for (r, fld) in c.eff.site_writes_of(cs, g):
                if g in K and (fld in CTX_FIELDS or fld in TABLES):
                    continue          # co-inductive contract: g returns with the container context as it found it
                if silent_probe and fld in ("parentType", "tight", "level", "tokens", "line", "ddIndent"):
                    continue          # validation mode writes nothing (rule SILENT)
                if fld == "*" and g in K:
                    keep = {k: VN.get(env, k) for k in list(env) if k.startswith(r + ".") and
                            (k.split(".", 1)[1].split("[")[0] in CTX_FIELDS + TABLES)}
                    for f_ in CTX_FIELDS:
                        keep.setdefault(f"{r}.{f_}", VN.get(env, f"{r}.{f_}"))
                    VN._clobber_root(env, r, fld, v)
                    env.update(keep)
                else:
                    VN._clobber_root(env, r, fld, v)
        return True
    return override


def _restore_loops(f: Func, st: str) -> list[ast.For]:
    """`for i, item in enumerate(oldX): state.T[i + start] = ...` loops that write line tables from saved lists."""
    out = []
    for n in own_nodes(f.node):
        if isinstance(n, ast.For):
            tabs = set()
            for s in n.body:
                if isinstance(s, ast.Assign) and len(s.targets) == 1 and isinstance(s.targets[0], ast.Subscript):
                    b = s.targets[0].value
                    if isinstance(b, ast.Attribute) and U(b.value) == st and b.attr in TABLES:
                        tabs.add(b.attr)
            if len(tabs) >= 2:
                out.append(n)
    return out


def rule_ctx(c: Ctx) -> RuleResult:
    r = RuleResult("CTX", "container context (blkIndent, listIndent, lineMax and every line-table cell a rule writes) holds its entry "
                          "value at every return of every block rule and of the block dispatcher")
    K = _block_family(c)
    rule_funcs = {reg.func for reg in c.reg.rules["block"]}
    tok = c.p.func("parser_block.py:ParserBlock.tokenize")
    targets = sorted(set(rule_funcs) | {tok}, key=lambda x: x.qual)
    ov = _ctx_override(c, K)
    for f in targets:
        st = K.get(f)
        if st is None:
            raise AnchorError(f"{f.short} takes no StateBlock parameter")
        r.functions += 1
        cfg, res, vn = analyse(c, f, ov)
        r.paths += min(cfg.paths_count(), 10**6)
        loops = _restore_loops(f, st)
        rets = [n for n in cfg.nodes if res.get(n.id) is not None and any(m is cfg.exit for (m, _) in n.succ)]
        per_field: dict[str, str] = {}
        for n in rets:
            env = vn.edge(n, res[n.id], "return", cfg.exit) or {}
            for fld in CTX_FIELDS:
                k = f"{st}.{fld}"
                v = VN.get(env, k)
                if v != entry(k) and fld not in per_field:
                    per_field[fld] = f"line {n.lineno}: {v}"
            for k in list(env):
                if k.startswith(st + ".") and "[" in k and k.split(".", 1)[1].split("[")[0] in TABLES and not k.endswith("[*]"):
                    if VN.get(env, k) != entry(k):
                        if loops and _post_dominated_by(cfg, k, n, loops, f):
                            continue
                        per_field.setdefault(k, f"line {n.lineno}: {VN.get(env, k)}")
            for w in TABLES:
                kk = f"{st}.{w}[*]"
                if kk in env and not (loops and _post_dominated_by(cfg, kk, n, loops, f)):
                    per_field.setdefault(kk, f"line {n.lineno}: {env[kk]}")
            for (k, v) in env.get("!lost", frozenset()):
                if k.startswith(st + ".") and not (loops and _post_dominated_by(cfg, k, n, loops, f)):
                    per_field.setdefault(k + " (index variable reassigned while the cell was modified)", f"line {n.lineno}: {v}")
        for fld in CTX_FIELDS:
            key = f"{f.short}|{fld}"
            if fld in per_field:
                r.add(key, c.where(f, f.node), f.short, f"{st}.{fld} at return", "violation",
                      f"{st}.{fld} does not hold its entry value at a return ({per_field[fld]}): the container context leaks into the "
                      f"blocks parsed after this one")
            else:
                r.add(key, c.where(f, f.node), f.short, f"{st}.{fld} at return", "discharged",
                      f"holds its entry value at all {len(rets)} exits")
        others = {k: v for k, v in per_field.items() if k not in CTX_FIELDS}
        key = f"{f.short}|line-tables"
        if others:
            k0 = sorted(others)[0]
            r.add(key, c.where(f, f.node), f.short, "line-table cells at return", "violation",
                  f"line-table cell {k0} is written and not restored on some path to a return ({others[k0]}): the outer parser revisits "
                  f"that line with a changed indent / start")
        else:
            r.add(key, c.where(f, f.node), f.short, "line-table cells at return", "discharged",
                  "every line-table cell written holds its entry value at every exit" +
                  (" (cells restored by the save-list loop are checked by LOCK)" if loops else ""))
    r.floor = 40
    return r


def _post_dominated_by(cfg: CFG, key: str, ret: Node, loops: list[ast.For], f: Func) -> bool:
    """Every path from a store to a line table to this return passes through a restore loop head."""
    heads = [n for n in cfg.nodes if n.kind == "for" and any(n.ast is l for l in loops)]
    if not heads:
        return False
    hid = {h.id for h in heads}
    stores = []
    for n in cfg.nodes:
        if n.kind == "stmt" and isinstance(n.ast, (ast.Assign, ast.AugAssign)):
            tg = n.ast.targets if isinstance(n.ast, ast.Assign) else [n.ast.target]
            for t in tg:
                if isinstance(t, ast.Subscript) and isinstance(t.value, ast.Attribute) and t.value.attr in TABLES:
                    inside = any(any(x is n.ast for x in ast.walk(l)) for l in loops)
                    if not inside:
                        stores.append(n)
    for s in stores:
        seen: set[int] = set()
        stack = [m for (m, l) in s.succ if l != "exc"]
        while stack:
            n = stack.pop()
            if n.id in seen or n.id in hid:
                continue
            seen.add(n.id)
            if n is ret:
                return False
            stack.extend(m for (m, l) in n.succ if l != "exc")
    return True


# ------------------------------------------------------------------------------------------------ FRESH
def rule_fresh(c: Ctx) -> RuleResult:
    r = RuleResult("FRESH", "the unrestored context fields are dead at rule exit: `tight` is rewritten after every dispatch and before "
                            "its only read; `parentType` is a literal of the dispatching rule at every terminator dispatch")
    K = _block_family(c)
    ov = _ctx_override(c, K)
    tok = c.p.func("parser_block.py:ParserBlock.tokenize")
    # (1) the dispatcher rewrites tight after every dispatch
    st = K[tok]
    cfg = c.cfg(tok)
    disp = [cs for cs in c.cg.sites.get(tok, []) if cs.kind.startswith("dispatch:block:")]
    if not disp:
        raise AnchorError("ParserBlock.tokenize has no rule dispatch")
    for cs in disp:
        ok = True
        for n in cfg.owner(cs.node):
            # every path from the dispatch to the loop head / exit passes a store to state.tight
            seen: set[int] = set()
            stack = [m for (m, l) in n.succ if l != "exc"]
            loop = None
            while stack:
                x = stack.pop()
                if x.id in seen:
                    continue
                seen.add(x.id)
                if x.kind == "stmt" and isinstance(x.ast, ast.Assign) and any(U(t) == f"{st}.tight" for t in x.ast.targets):
                    continue
                if x is cfg.exit or (x.kind == "join" and isinstance(x.ast, ast.While)):
                    ok = False
                    break
                # the rule loop itself (for rule in rules) may iterate: that is still "the dispatch"
                stack.extend(m for (m, l) in x.succ if l != "exc")
        r.add(f"{tok.short}|tight-after-dispatch", c.where(tok, cs.node), tok.short, U(cs.node), "discharged" if ok else "violation",
              f"every path from the dispatch to the next iteration / the exit stores {st}.tight: whatever a rule leaves there is overwritten"
              if ok else f"a path from the rule dispatch to the next iteration or the exit does not store {st}.tight: a rule's leftover "
                         f"tight flag would be read by the enclosing list")
    # (2) readers of tight in block rules are preceded by the rule's own literal store
    nread = 0
    for f, stn in sorted(K.items(), key=lambda kv: kv[0].qual):
        if f is tok:
            continue
        reads = []
        for n in own_nodes(f.node):
            if isinstance(n, ast.Attribute) and n.attr == "tight" and isinstance(n.ctx, ast.Load) and U(n.value) == stn:
                par = f.module.parents.get(n)
                if isinstance(par, ast.Assign) and par.value is n and all(isinstance(t, ast.Name) for t in par.targets):
                    continue             # saved only to be restored (the restored value is dead, see (1))
                reads.append(n)
        if not reads:
            continue
        cfg, res, vn = analyse(c, f, ov)
        for rd in reads:
            nread += 1
            ok = True
            why = ""
            for n in cfg.owner(rd):
                if res.get(n.id) is None:
                    continue
                # backward: every path to the read passes one of f's own stores `state.tight = <literal>` after the last point that
                # may write it foreign (function entry, loop head is fine if the store is inside the iteration)
                if not _dominated_by_own_store(cfg, n, f"{stn}.tight"):
                    ok = False
                    why = f"line {n.lineno}"
            r.add(f"{f.short}|tight-read|{alpha(f, rd)}", c.where(f, rd), f.short, U(f.module.parents.get(rd, rd))[:60],
                  "discharged" if ok else "violation",
                  f"every path to this read of {stn}.tight passes the rule's own store of a literal to it within the same item" if ok else
                  f"{stn}.tight can reach this read without the rule's own store in this iteration ({why}): the value left by an earlier "
                  f"block (or the enclosing loop) decides whether the list is tight")
    # (3) parentType at terminator dispatch sites of the chains on which a reader of parentType is registered
    readers: set[Func] = set()
    for f, stn in K.items():
        for n in own_nodes(f.node):
            if isinstance(n, ast.Attribute) and n.attr == "parentType" and isinstance(n.ctx, ast.Load) and U(n.value) == stn:
                par = f.module.parents.get(n)
                if not (isinstance(par, ast.Assign) and par.value is n and all(isinstance(t, ast.Name) for t in par.targets)):
                    readers.add(f)
    reader_chains = {alt for reg in c.reg.rules["block"] if reg.func in readers for alt in reg.alt}
    r.notes.append(f"readers of parentType: {sorted(x.short for x in readers)}; registered on terminator chains {sorted(reader_chains)}")
    ndisp = 0
    for f, stn in sorted(K.items(), key=lambda kv: kv[0].qual):
        sites = [cs for cs in c.cg.sites.get(f, []) if cs.kind.startswith("dispatch:block:") and cs.kind != "dispatch:block:"]
        if not sites:
            continue
        cfg, res, vn = analyse(c, f, ov)
        for cs in sites:
            ndisp += 1
            chain = cs.kind.split(":", 2)[2]
            if chain not in reader_chains:
                r.add(f"{f.short}|parentType@dispatch", c.where(f, cs.node), f.short, U(cs.node)[:70], "discharged",
                      f"trivial: no rule on chain '{chain}' reads parentType")
                continue
            ok, val = True, None
            for n in cfg.owner(cs.node):
                if res.get(n.id) is None:
                    continue
                v = VN.get(res[n.id], f"{stn}.parentType")
                val = v
                if v[0] != "const":
                    ok = False
            r.add(f"{f.short}|parentType@dispatch", c.where(f, cs.node), f.short, U(cs.node)[:70], "discharged" if ok else "violation",
                  f"{stn}.parentType is the literal {val[1] if val else '?'} stored by this rule on every path to the terminator dispatch" if ok else
                  f"{stn}.parentType at this terminator dispatch is not a literal of this rule on every path (value {val}): the list "
                  f"rule's 'may interrupt a paragraph' test would depend on what an earlier block left behind")
    # (4) the only reader of parentType outside the dispatching rules is in validation mode
    for f, stn in sorted(K.items(), key=lambda kv: kv[0].qual):
        for n in own_nodes(f.node):
            if isinstance(n, ast.Attribute) and n.attr == "parentType" and isinstance(n.ctx, ast.Load) and U(n.value) == stn:
                par = f.module.parents.get(n)
                if isinstance(par, ast.Assign) and par.value is n and all(isinstance(t, ast.Name) for t in par.targets):
                    continue
                fcfg, fres = c.facts(f)
                sil = f.node.args.args[3].arg if len(f.node.args.args) > 3 else None
                ok = False
                if sil:
                    # the read is in a condition conjoined with `silent`
                    p = par
                    while p is not None and not isinstance(p, ast.stmt):
                        if isinstance(p, ast.BoolOp) and isinstance(p.op, ast.And) and any(isinstance(v, ast.Name) and v.id == sil for v in p.values):
                            ok = True
                        p = f.module.parents.get(p)
                    for cn in fcfg.owner(n):
                        z = fres.get(cn.id)
                        if z is not None and z.holds(sil, True):
                            ok = True
                r.add(f"{f.short}|parentType-read", c.where(f, n), f.short, U(par)[:70] if par is not None else U(n),
                      "discharged" if ok else "violation",
                      "read only in validation mode, i.e. when called from a terminator dispatch (where parentType is fresh)" if ok else
                      "parentType is read outside validation mode: on the main chain it holds whatever the previous top-level block left")
    if ndisp < 5:
        raise AnchorError(f"only {ndisp} terminator dispatch sites found")
    r.floor = 8
    return r


def _dominated_by_own_store(cfg: CFG, read: Node, key: str) -> bool:
    """Walking backwards from the read, every path meets a store `key = <literal>` before it meets the function entry or a
    call that may write the field (a nested tokenize) - loop back edges are followed."""
    seen: set[int] = set()
    stack = [p for (p, l) in read.pred]
    while stack:
        n = stack.pop()
        if n.id in seen:
            continue
        seen.add(n.id)
        if n.kind == "stmt" and isinstance(n.ast, ast.Assign) and any(U(t) == key for t in n.ast.targets) \
                and isinstance(n.ast.value, ast.Constant):
            continue
        if n is cfg.entry:
            return False
        stack.extend(p for (p, l) in n.pred)
    return True


# ------------------------------------------------------------------------------------------------ LOCK
def rule_lock(c: Ctx) -> RuleResult:
    r = RuleResult("LOCK", "blockquote's four save lists are created and appended in lockstep, exactly one group per scanned line, and "
                           "the restore loop writes each table back from its own list")
    f = c.p.func("rules_block/blockquote.py:blockquote")
    st = f.node.args.args[0].arg
    r.functions = 1
    # discover the save lists:  oldX = [state.T[startLine]]
    lists: dict[str, str] = {}
    for n in own_nodes(f.node):
        if isinstance(n, ast.Assign) and len(n.targets) == 1 and isinstance(n.targets[0], ast.Name) and isinstance(n.value, ast.List) \
                and len(n.value.elts) == 1 and isinstance(n.value.elts[0], ast.Subscript):
            b = n.value.elts[0].value
            if isinstance(b, ast.Attribute) and U(b.value) == st and b.attr in TABLES:
                lists[n.targets[0].id] = b.attr
    if len(lists) < 2:
        raise AnchorError("blockquote: the line-table save lists were not found in the recognised form (oldX = [state.T[startLine]])")
    want = sorted(lists)

    def touched(s: ast.stmt) -> tuple[str, str] | None:
        """(list name, table it saves from) if s creates / appends to a save list."""
        if isinstance(s, ast.Assign) and len(s.targets) == 1 and isinstance(s.targets[0], ast.Name) and s.targets[0].id in lists \
                and isinstance(s.value, ast.List) and len(s.value.elts) == 1 and isinstance(s.value.elts[0], ast.Subscript):
            b = s.value.elts[0].value
            return (s.targets[0].id, b.attr if isinstance(b, ast.Attribute) else "?")
        if isinstance(s, ast.Expr) and isinstance(s.value, ast.Call) and isinstance(s.value.func, ast.Attribute) and s.value.func.attr == "append" \
                and isinstance(s.value.func.value, ast.Name) and s.value.func.value.id in lists and s.value.args \
                and isinstance(s.value.args[0], ast.Subscript):
            b = s.value.args[0].value
            return (s.value.func.value.id, b.attr if isinstance(b, ast.Attribute) else "?")
        return None

    ngroups = 0
    for blk in _blocks(f.node):
        ts = [t for t in (touched(s) for s in blk) if t]
        if not ts:
            continue
        first = next(s for s in blk if touched(s))
        names = sorted(t[0] for t in ts)
        idx = {U(_idx(s)) for s in blk if touched(s)}
        key = f"group|{len(idx) and sorted(idx)[0]}|{ngroups}"
        wrong = [t for t in ts if lists[t[0]] != t[1]]
        if names != want:
            miss = sorted(set(want) - set(names))
            dup = sorted({n for n in names if names.count(n) > 1})
            r.add(key, c.where(f, first), f.short, "; ".join(U(s) for s in blk if touched(s))[:140], "violation",
                  f"save lists out of lockstep in this block: missing {miss} duplicated {dup}: index i of one list no longer denotes "
                  f"line startLine + i of the others (wrong line restored, or IndexError)")
        elif wrong:
            r.add(key, c.where(f, first), f.short, "; ".join(U(s) for s in blk if touched(s))[:140], "violation",
                  f"{wrong[0][0]} saves from table {wrong[0][1]} but was created from {lists[wrong[0][0]]}")
        elif len(idx) != 1:
            r.add(key, c.where(f, first), f.short, "; ".join(U(s) for s in blk if touched(s))[:140], "violation",
                  f"the group saves different lines {sorted(idx)}")
        else:
            ngroups += 1
            r.add(key, c.where(f, first), f.short, "; ".join(U(s) for s in blk if touched(s))[:140], "discharged",
                  f"all {len(want)} save lists take line {sorted(idx)[0]} together")
    # exactly one group per loop iteration that reaches the back edge
    one = sorted(lists)[0]
    cfg = c.cfg(f)
    loops = [n for n in own_nodes(f.node) if isinstance(n, ast.While) and any(
        isinstance(x, ast.Call) and isinstance(x.func, ast.Attribute) and x.func.attr == "append" and U(x.func.value) == one for x in ast.walk(n))]
    for loop in loops:
        head = next((n for n in cfg.nodes if n.kind == "join" and n.ast is loop), None)
        if head is None:
            continue
        inside = {id(x) for b in loop.body for x in ast.walk(b)} | {id(x) for x in ast.walk(loop.test)}

        def step(n: Node, s, label: str, succ: Node):
            if label == "exc":
                return []
            if n is not head and succ is head:
                return [("back", s[1])] if isinstance(s, tuple) else []
            if succ.ast is not None and id(succ.ast) not in inside and succ is not head:
                return []
            cnt = s[1]
            if n.kind == "stmt" and isinstance(n.ast, ast.Expr) and isinstance(n.ast.value, ast.Call) \
                    and isinstance(n.ast.value.func, ast.Attribute) and n.ast.value.func.attr == "append" and U(n.ast.value.func.value) == one:
                cnt = min(cnt + 1, 3)
            return [("in", cnt)]
        # propagate from the head for a single iteration
        IN: dict[int, set] = {n.id: set() for n in cfg.nodes}
        work = [(head, ("in", 0))]
        backs: set[int] = set()
        seen: set[tuple[int, int]] = set()
        while work:
            n, s = work.pop()
            if (n.id, s[1]) in seen:
                continue
            seen.add((n.id, s[1]))
            for (m, label) in n.succ:
                for out in step(n, s, label, m):
                    if out[0] == "back":
                        backs.add(out[1])
                    else:
                        work.append((m, out))
        ok = backs == {1}
        r.add("one-group-per-line", c.where(f, loop), f.short, f"while {U(loop.test)}: ...", "discharged" if ok else "violation",
              "every path through the scan loop that continues with the next line appends exactly one group" if ok else
              f"a path through the scan loop appends {sorted(backs)} groups before moving to the next line: list index i no longer "
              f"corresponds to line startLine + i")
    # restore loop
    rl = _restore_loops(f, st)
    if not rl:
        r.add("restore-loop", c.where(f, f.node), f.short, "restore loop", "violation", "no loop restores the line tables from the save lists")
    for loop in rl:
        it = loop.iter
        item_list = None
        tgt_names = [x.id for x in ast.walk(loop.target) if isinstance(x, ast.Name)]
        if isinstance(it, ast.Call) and U(it.func) == "enumerate" and it.args and isinstance(it.args[0], ast.Name):
            item_list = it.args[0].id
        restored: dict[str, str] = {}
        idxs = set()
        for s in loop.body:
            if isinstance(s, ast.Assign) and len(s.targets) == 1 and isinstance(s.targets[0], ast.Subscript):
                b = s.targets[0].value
                if isinstance(b, ast.Attribute) and U(b.value) == st and b.attr in TABLES:
                    idxs.add(U(s.targets[0].slice))
                    v = s.value
                    src = None
                    if isinstance(v, ast.Subscript) and isinstance(v.value, ast.Name):
                        src = v.value.id
                    elif isinstance(v, ast.Name) and item_list and len(tgt_names) == 2 and v.id == tgt_names[1]:
                        src = item_list
                    restored[b.attr] = src or U(v)
        bad = [(t, s_) for t, s_ in restored.items() if lists.get(s_) != t]
        missing = sorted(set(lists.values()) - set(restored))
        ok = not bad and not missing and len(idxs) == 1
        r.add("restore-loop", c.where(f, loop), f.short, f"for {U(loop.target)} in {U(loop.iter)}: ...", "discharged" if ok else "violation",
              f"each of {sorted(restored)} is written back from its own save list at one common index" if ok else
              (f"table {bad[0][0]} is restored from {bad[0][1]}, which saves {lists.get(bad[0][1], 'nothing')}" if bad else
               f"tables {missing} are saved but not restored" if missing else f"tables restored at different indices {sorted(idxs)}"))
    r.floor = 6
    return r


def _idx(s: ast.stmt) -> ast.AST:
    if isinstance(s, ast.Assign):
        return s.value.elts[0].slice          # type: ignore[attr-defined]
    return s.value.args[0].slice              # type: ignore[attr-defined]
