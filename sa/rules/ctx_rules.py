"""C07 rule families.

CTX   container context (blkIndent, listIndent, lineMax, and every line-table cell a rule writes) holds its entry value at
      every return of every block rule and of ParserBlock.tokenize (value numbering, co-inductive over the rule set);
FRESH the two context fields that are *not* restored are dead at rule exit: `tight` is rewritten by the dispatcher after every
      dispatch and by list_block before its own read; `parentType` is a literal stored by the dispatching rule at every
      terminator dispatch site (its only reader runs in validation mode);
LOCK  blockquote's four save lists are created / appended in lockstep, one group per scanned line, and the restore loop
      writes the four tables back from the matching lists on every path from a table write to the return.
"""
from __future__ import annotations

import ast
from typing import Any

from ..cfg import CFG, Node
from ..core import AnchorError, Func, U, own_nodes
from ..ctx import Ctx
from ..report import RuleResult, alpha
from ..tokens import _blocks
from ..typestate import propagate
from ..valnum import VN, analyse, entry

CTX_FIELDS = ("blkIndent", "listIndent", "lineMax")
TABLES = ("bMarks", "tShift", "sCount", "bsCount", "eMarks")


def _block_family(c: Ctx) -> dict[Func, str]:
    """Block rules, the block dispatcher and helpers that take a StateBlock: function -> name of its state parameter."""
    out: dict[Func, str] = {}
    for f in c.cg.parse_phase():
        if f.name == "__init__":
            continue
        sc = c.tf.scope(f)
        for a in f.node.args.posonlyargs + f.node.args.args:
            if sc.env.get(a.arg) == "StateBlock":
                out[f] = a.arg
                break
    return out


def _probe_only(c: Ctx, g: Func, K: dict[Func, str], depth: int = 0) -> bool:
    """g is a helper that does nothing to the state but ask rules in validation mode: it stores no attribute / element of its
    state parameter, and every call it makes that can write the state is a terminator dispatch with `silent=True` (or a call
    of another such helper)."""
    cache = c.__dict__.setdefault("_probe_only", {})
    if g in cache:
        return cache[g]
    cache[g] = False
    st = K.get(g)
    ok = st is not None and depth < 3 and g not in {reg.func for reg in c.reg.rules["block"]}
    if ok:
        for n in own_nodes(g.node):
            if isinstance(n, (ast.Attribute, ast.Subscript)) and isinstance(n.ctx, (ast.Store, ast.Del)) and st in {x.id for x in ast.walk(n) if isinstance(x, ast.Name)}:
                ok = False
        n_probe = 0
        for cs in c.cg.sites.get(g, []):
            if cs.kind.startswith("dispatch:block:"):
                if cs.node.args and isinstance(cs.node.args[-1], ast.Constant) and cs.node.args[-1].value is True:
                    n_probe += 1
                else:
                    ok = False
            elif any(h in K for h in cs.callees):
                if not all(_probe_only(c, h, K, depth + 1) or not c.eff.site_writes_of(cs, h) for h in cs.callees):
                    ok = False
        ok = ok and n_probe > 0
    cache[g] = ok
    return ok


def _ctx_override(c: Ctx, K: dict[Func, str]):
    def override(cs: Any, call: ast.Call, env: dict, nid: int) -> bool:
        if cs is None or not cs.callees or not any(g in K for g in cs.callees):
            return False
        v = ("def", nid, "call:" + U(call.func).split(".")[-1])
        silent_probe = cs.kind.startswith("dispatch:block:") and call.args and isinstance(call.args[-1], ast.Constant) \
            and call.args[-1].value is True
        if not silent_probe and cs.kind in ("direct", "method") and all(_probe_only(c, g, K) for g in cs.callees):
            silent_probe = True
        for g in cs.callees:
            for (r, fld) in c.eff.site_writes_of(cs, g):
                if g in K and (fld in CTX_FIELDS or fld in TABLES):
                    continue          # co-inductive contract: g returns with the container context as it found it
                if silent_probe and fld in ("parentType", "tight", "level", "tokens", "line", "ddIndent"):
                    continue          # validation mode writes nothing (rule SILENT)
                if fld == "*" and g in K:
                    keep = {k: VN.get(env, k) for k in list(env) if k.startswith(r + ".") and
                            (k.split(".", 1)[1].split("[")[0] in CTX_FIELDS + TABLES)}
                    for f_ in CTX_FIELDS:
                        keep.setdefault(f"{r}.{f_}", VN.get(env, f"{r}.{f_}"))
                    VN._clobber_root(env, r, fld, v)
                    env.update(keep)
                else:
                    VN._clobber_root(env, r, fld, v)
        return True
    return override


def _restore_loops(f: Func, st: str) -> list[ast.For]:
    """Loops that write several line tables back from saved cells (`for i, item in enumerate(oldX): state.T[i + start] = ...`,
    `for line, (a, b, c, d) in enumerate(zip(...), start): state.T[line] = a ...`)."""
    out = []
    for n in own_nodes(f.node):
        if isinstance(n, ast.For):
            tabs = set()
            for s in n.body:
                if isinstance(s, ast.Assign) and len(s.targets) == 1 and isinstance(s.targets[0], ast.Subscript):
                    b = s.targets[0].value
                    if isinstance(b, ast.Attribute) and U(b.value) == st and b.attr in TABLES:
                        tabs.add(b.attr)
            if len(tabs) >= 2:
                out.append(n)
    return out


def rule_ctx(c: Ctx) -> RuleResult:
    r = RuleResult("CTX", "container context (blkIndent, listIndent, lineMax and every line-table cell a rule writes) holds its entry "
                          "value at every return of every block rule and of the block dispatcher")
    c = c.normalised("rules_block/")
    r.notes += c.norm_notes()
    K = _block_family(c)
    rule_funcs = {reg.func for reg in c.reg.rules["block"]}
    tok = c.p.func("parser_block.py:ParserBlock.tokenize")
    targets = sorted(set(rule_funcs) | {tok}, key=lambda x: x.qual)
    ov = _ctx_override(c, K)
    for f in targets:
        st = K.get(f)
        if st is None:
            raise AnchorError(f"{f.short} takes no StateBlock parameter")
        r.functions += 1
        cfg, res, vn = analyse(c, f, ov)
        r.paths += min(cfg.paths_count(), 10**6)
        loops = _restore_loops(f, st)
        rets = [n for n in cfg.nodes if res.get(n.id) is not None and any(m is cfg.exit for (m, _) in n.succ)]
        per_field: dict[str, str] = {}
        for n in rets:
            env = vn.edge(n, res[n.id], "return", cfg.exit) or {}
            for fld in CTX_FIELDS:
                k = f"{st}.{fld}"
                v = VN.get(env, k)
                if v != entry(k) and fld not in per_field:
                    per_field[fld] = f"line {n.lineno}: {v}"
            for k in list(env):
                if k.startswith(st + ".") and "[" in k and k.split(".", 1)[1].split("[")[0] in TABLES and not k.endswith("[*]"):
                    if VN.get(env, k) != entry(k):
                        if loops and _post_dominated_by(cfg, k, n, loops, f):
                            continue
                        per_field.setdefault(k, f"line {n.lineno}: {VN.get(env, k)}")
            for w in TABLES:
                kk = f"{st}.{w}[*]"
                if kk in env and not (loops and _post_dominated_by(cfg, kk, n, loops, f)):
                    per_field.setdefault(kk, f"line {n.lineno}: {env[kk]}")
            for (k, v) in env.get("!lost", frozenset()):
                if k.startswith(st + ".") and "[" in k and k.split(".", 1)[1].split("[")[0] in TABLES \
                        and not (loops and _post_dominated_by(cfg, k, n, loops, f)):
                    per_field.setdefault(k + " (index variable reassigned while the cell was modified)", f"line {n.lineno}: {v}")
        for fld in CTX_FIELDS:
            key = f"{f.short}|{fld}"
            if fld in per_field:
                r.add(key, c.where(f, f.node), f.short, f"{st}.{fld} at return", "violation",
                      f"{st}.{fld} does not hold its entry value at a return ({per_field[fld]}): the container context leaks into the "
                      f"blocks parsed after this one")
            else:
                r.add(key, c.where(f, f.node), f.short, f"{st}.{fld} at return", "discharged",
                      f"holds its entry value at all {len(rets)} exits")
        others = {k: v for k, v in per_field.items() if k not in CTX_FIELDS}
        key = f"{f.short}|line-tables"
        if others:
            k0 = sorted(others)[0]
            r.add(key, c.where(f, f.node), f.short, "line-table cells at return", "violation",
                  f"line-table cell {k0} is written and not restored on some path to a return ({others[k0]}): the outer parser revisits "
                  f"that line with a changed indent / start")
        else:
            r.add(key, c.where(f, f.node), f.short, "line-table cells at return", "discharged",
                  "every line-table cell written holds its entry value at every exit" +
                  (" (cells restored by the save-list loop are checked by LOCK)" if loops else ""))
    r.floor = 40
    return r


def _post_dominated_by(cfg: CFG, key: str, ret: Node, loops: list[ast.For], f: Func) -> bool:
    """Every path from a store to a line table to this return passes through a restore loop head."""
    heads = [n for n in cfg.nodes if n.kind == "for" and any(n.ast is l for l in loops)]
    if not heads:
        return False
    hid = {h.id for h in heads}
    stores = []
    for n in cfg.nodes:
        if n.kind == "stmt" and isinstance(n.ast, (ast.Assign, ast.AugAssign)):
            tg = n.ast.targets if isinstance(n.ast, ast.Assign) else [n.ast.target]
            for t in tg:
                if isinstance(t, ast.Subscript) and isinstance(t.value, ast.Attribute) and t.value.attr in TABLES:
                    inside = any(any(x is n.ast for x in ast.walk(l)) for l in loops)
                    if not inside:
                        stores.append(n)
    for s in stores:
        seen: set[int] = set()
        stack = [m for (m, l) in s.succ if l != "exc"]
        while stack:
            n = stack.pop()
            if n.id in seen or n.id in hid:
                continue
            seen.add(n.id)
            if n is ret:
                return False
            stack.extend(m for (m, l) in n.succ if l != "exc")
    return True


# ------------------------------------------------------------------------------------------------ FRESH
def rule_fresh(c: Ctx) -> RuleResult:
    r = RuleResult("FRESH", "the unrestored context fields are dead at rule exit: `tight` is rewritten after every dispatch and before "
                            "its only read; `parentType` is a literal of the dispatching rule at every terminator dispatch")
    c = c.normalised("rules_block/")
    r.notes += c.norm_notes()
    K = _block_family(c)
    ov = _ctx_override(c, K)
    tok = c.p.func("parser_block.py:ParserBlock.tokenize")
    # (1) the dispatcher rewrites tight after every dispatch
    st = K[tok]
    cfg = c.cfg(tok)
    def dispatches(g, depth=0) -> bool:
        return any(cs.kind.startswith("dispatch:block:") or (depth < 2 and cs.kind in ("method", "direct") and any(
            h.module is tok.module and h is not tok and dispatches(h, depth + 1) for h in cs.callees)) for cs in c.cg.sites.get(g, []))
    # the dispatch itself, or the call of a private helper of the module that contains it (extract-method)
    disp = [cs for cs in c.cg.sites.get(tok, []) if cs.kind.startswith("dispatch:block:") or (
        cs.kind in ("method", "direct") and any(h.module is tok.module and h is not tok and dispatches(h) for h in cs.callees))]
    if not disp:
        raise AnchorError("ParserBlock.tokenize has no rule dispatch")
    for cs in disp:
        ok = True
        for n in cfg.owner(cs.node):
            # every path from the dispatch to the loop head / exit passes a store to state.tight
            seen: set[int] = set()
            stack = [m for (m, l) in n.succ if l != "exc"]
            loop = None
            while stack:
                x = stack.pop()
                if x.id in seen:
                    continue
                seen.add(x.id)
                if x.kind == "stmt" and isinstance(x.ast, ast.Assign) and any(U(t) == f"{st}.tight" for t in x.ast.targets):
                    continue
                if x is cfg.exit or (x.kind == "join" and isinstance(x.ast, ast.While)):
                    ok = False
                    break
                # the rule loop itself (for rule in rules) may iterate: that is still "the dispatch"
                stack.extend(m for (m, l) in x.succ if l != "exc")
        r.add(f"{tok.short}|tight-after-dispatch", c.where(tok, cs.node), tok.short, U(cs.node), "discharged" if ok else "violation",
              f"every path from the dispatch to the next iteration / the exit stores {st}.tight: whatever a rule leaves there is overwritten"
              if ok else f"a path from the rule dispatch to the next iteration or the exit does not store {st}.tight: a rule's leftover "
                         f"tight flag would be read by the enclosing list")
    # (1b) ... and what is stored describes the blank lines *before* the block just parsed: no name the stored value reads is
    # recomputed between the dispatch and the store (copies are followed) - the blank line a block swallowed at its end counts
    # for the next block, not for this one
    from ..reach import Reaching
    rd_ = Reaching(cfg)
    heads_ = {x.id for x in cfg.nodes if x.kind == "join" and isinstance(x.ast, ast.While)}
    after: set[int] = set()
    stack_ = [m for cs in disp for n in cfg.owner(cs.node) for (m, l) in n.succ if l != "exc"]
    while stack_:
        x = stack_.pop()
        if x.id in after or x.id in heads_ or x is cfg.exit:
            continue
        after.add(x.id)
        stack_.extend(m for (m, l) in x.succ if l != "exc")
    tstores = [x for x in cfg.nodes if x.id in after and x.kind == "stmt" and isinstance(x.ast, ast.Assign)
               and any(U(t) == f"{st}.tight" for t in x.ast.targets)]
    for S in tstores:
        before: set[int] = set()
        stack_ = [p for (p, l) in S.pred]
        while stack_:
            x = stack_.pop()
            if x.id in before or x.id in heads_:
                continue
            before.add(x.id)
            stack_.extend(p for (p, l) in x.pred)
        between = after & before
        bad_def = None

        def stale(e: ast.AST, at: ast.AST, depth: int = 0):
            nonlocal bad_def
            for v in [y for y in ast.walk(e) if isinstance(y, ast.Name) and isinstance(y.ctx, ast.Load)]:
                for d in rd_.at_ast(at, v.id):
                    if d.node_id in between:
                        if d.kind == "assign" and isinstance(d.value, ast.Name) and depth < 4:
                            stale(d.value, d.stmt, depth + 1)
                        elif bad_def is None:
                            bad_def = d
        stale(S.ast.value, S.ast)
        r.add(f"{tok.short}|tight-value|{alpha(tok, S.ast)}", c.where(tok, S.ast), tok.short, U(S.ast), "discharged" if bad_def is None else "violation",
              "the value stored reads only what was computed before the dispatch of the block just parsed" if bad_def is None else
              f"`{bad_def.name}`, which the stored value reads, is recomputed (line {getattr(bad_def.stmt, 'lineno', '?')}) between the dispatch and "
              f"this store: the blank line the block just parsed swallowed at its end makes the enclosing list loose")
    # (2) readers of tight in block rules are preceded by the rule's own literal store
    nread = 0
    for f, stn in sorted(K.items(), key=lambda kv: kv[0].qual):
        if f is tok:
            continue
        reads = []
        for n in own_nodes(f.node):
            if isinstance(n, ast.Attribute) and n.attr == "tight" and isinstance(n.ctx, ast.Load) and U(n.value) == stn:
                par = f.module.parents.get(n)
                if isinstance(par, ast.Assign) and par.value is n and all(isinstance(t, ast.Name) for t in par.targets):
                    continue             # saved only to be restored (the restored value is dead, see (1))
                gp = f.module.parents.get(par) if par is not None else None
                if isinstance(par, ast.Tuple) and isinstance(gp, ast.Assign) and gp.value is par and all(isinstance(t, ast.Name) for t in gp.targets):
                    # saved as a component of a tuple that is only unpacked back into the fields it was read from
                    nm = gp.targets[0].id
                    uses = [x for x in own_nodes(f.node) if isinstance(x, ast.Name) and x.id == nm and isinstance(x.ctx, ast.Load)]
                    if uses and all(isinstance(f.module.parents.get(x), ast.Assign) and f.module.parents.get(x).value is x
                                    and all(isinstance(t, ast.Tuple) for t in f.module.parents.get(x).targets) for x in uses):
                        continue
                    # ... or read back component-wise: the component that holds tight only flows back into state.tight
                    k_t = next(i_ for i_, e_ in enumerate(par.elts) if e_ is n)

                    def comp_use_ok(x: ast.Name) -> bool:
                        p1 = f.module.parents.get(x)
                        if not (isinstance(p1, ast.Subscript) and p1.value is x and isinstance(p1.slice, ast.Constant) and isinstance(p1.slice.value, int)):
                            return False
                        if p1.slice.value != k_t:
                            return True
                        p2 = f.module.parents.get(p1)
                        return isinstance(p2, ast.Assign) and p2.value is p1 and all(U(t) == f"{stn}.tight" for t in p2.targets)
                    if uses and all(comp_use_ok(x) for x in uses):
                        continue
                reads.append(n)
        if not reads:
            continue
        cfg, res, vn = analyse(c, f, ov)
        for rd in reads:
            nread += 1
            ok = True
            why = ""
            for n in cfg.owner(rd):
                if res.get(n.id) is None:
                    continue
                # backward: every path to the read passes one of f's own stores `state.tight = <literal>` after the last point that
                # may write it foreign (function entry, loop head is fine if the store is inside the iteration)
                if not _dominated_by_own_store(cfg, n, f"{stn}.tight"):
                    ok = False
                    why = f"line {n.lineno}"
            r.add(f"{f.short}|tight-read|{alpha(f, rd)}", c.where(f, rd), f.short, U(f.module.parents.get(rd, rd))[:60],
                  "discharged" if ok else "violation",
                  f"every path to this read of {stn}.tight passes the rule's own store of a literal to it within the same item" if ok else
                  f"{stn}.tight can reach this read without the rule's own store in this iteration ({why}): the value left by an earlier "
                  f"block (or the enclosing loop) decides whether the list is tight")
    # (3) parentType at terminator dispatch sites of the chains on which a reader of parentType is registered
    readers: set[Func] = set()
    for f, stn in K.items():
        for n in own_nodes(f.node):
            if isinstance(n, ast.Attribute) and n.attr == "parentType" and isinstance(n.ctx, ast.Load) and U(n.value) == stn:
                par = f.module.parents.get(n)
                if not (isinstance(par, ast.Assign) and par.value is n and all(isinstance(t, ast.Name) for t in par.targets)):
                    readers.add(f)
    reader_chains = {alt for reg in c.reg.rules["block"] if reg.func in readers for alt in reg.alt}
    r.notes.append(f"readers of parentType: {sorted(x.short for x in readers)}; registered on terminator chains {sorted(reader_chains)}")
    ndisp = 0
    rule_funcs = {reg.func for reg in c.reg.rules["block"]}
    for f, stn in sorted(K.items(), key=lambda kv: kv[0].qual):
        sites = [cs for cs in c.cg.sites.get(f, []) if cs.kind.startswith("dispatch:block:") and cs.kind != "dispatch:block:"]
        if not sites:
            continue
        cfg, res, vn = analyse(c, f, ov)
        for cs in sites:
            ndisp += 1
            chain = cs.kind.split(":", 2)[2]
            if chain not in reader_chains:
                r.add(f"{f.short}|parentType@dispatch", c.where(f, cs.node), f.short, U(cs.node)[:70], "discharged",
                      f"trivial: no rule on chain '{chain}' reads parentType")
                continue
            ok, val = True, None
            for n in cfg.owner(cs.node):
                if res.get(n.id) is None:
                    continue
                v = VN.get(res[n.id], f"{stn}.parentType")
                val = v
                if v[0] != "const":
                    # the dispatch sits in a helper that leaves parentType alone: judged where the helper is called
                    lifted = False
                    if v == entry(f"{stn}.parentType") and f not in rule_funcs:
                        callers = [x for x in c.cg.callers.get(f, []) if x.kind in ("direct", "method")]
                        lifted = bool(callers)
                        for x in callers:
                            arg = c.eff.arg_for_param(x, f, stn)
                            if arg is None or x.caller not in K:
                                lifted = False
                                break
                            ccfg, cres, cvn = analyse(c, x.caller, ov)
                            for cn in ccfg.owner(x.node):
                                if cres.get(cn.id) is not None:
                                    cv = VN.get(cres[cn.id], f"{U(arg)}.parentType")
                                    if cv[0] != "const":
                                        lifted = False
                                    else:
                                        val = cv
                    if not lifted:
                        ok = False
            r.add(f"{f.short}|parentType@dispatch", c.where(f, cs.node), f.short, U(cs.node)[:70], "discharged" if ok else "violation",
                  f"{stn}.parentType is the literal {val[1] if val else '?'} stored by this rule on every path to the terminator dispatch" if ok else
                  f"{stn}.parentType at this terminator dispatch is not a literal of this rule on every path (value {val}): the list "
                  f"rule's 'may interrupt a paragraph' test would depend on what an earlier block left behind")
    # (4) the only reader of parentType outside the dispatching rules is in validation mode
    for f, stn in sorted(K.items(), key=lambda kv: kv[0].qual):
        for n in own_nodes(f.node):
            if isinstance(n, ast.Attribute) and n.attr == "parentType" and isinstance(n.ctx, ast.Load) and U(n.value) == stn:
                par = f.module.parents.get(n)
                if isinstance(par, ast.Assign) and par.value is n and all(isinstance(t, ast.Name) for t in par.targets):
                    continue
                fcfg, fres = c.facts(f)
                sil = f.node.args.args[3].arg if len(f.node.args.args) > 3 else None
                ok = False
                if sil:
                    # the read is in a condition conjoined with `silent`
                    p = par
                    while p is not None and not isinstance(p, ast.stmt):
                        if isinstance(p, ast.BoolOp) and isinstance(p.op, ast.And) and any(isinstance(v, ast.Name) and v.id == sil for v in p.values):
                            ok = True
                        p = f.module.parents.get(p)
                    for cn in fcfg.owner(n):
                        z = fres.get(cn.id)
                        if z is not None and z.holds(sil, True):
                            ok = True
                r.add(f"{f.short}|parentType-read", c.where(f, n), f.short, U(par)[:70] if par is not None else U(n),
                      "discharged" if ok else "violation",
                      "read only in validation mode, i.e. when called from a terminator dispatch (where parentType is fresh)" if ok else
                      "parentType is read outside validation mode: on the main chain it holds whatever the previous top-level block left")
    if ndisp < 3:
        raise AnchorError(f"only {ndisp} terminator dispatch sites found")
    r.floor = 8
    return r


def _dominated_by_own_store(cfg: CFG, read: Node, key: str) -> bool:
    """Walking backwards from the read, every path meets a store `key = <literal>` before it meets the function entry or a
    call that may write the field (a nested tokenize) - loop back edges are followed."""
    seen: set[int] = set()
    stack = [p for (p, l) in read.pred]
    while stack:
        n = stack.pop()
        if n.id in seen:
            continue
        seen.add(n.id)
        if n.kind == "stmt" and isinstance(n.ast, ast.Assign) and any(U(t) == key for t in n.ast.targets) \
                and isinstance(n.ast.value, ast.Constant):
            continue
        if n is cfg.entry:
            return False
        stack.extend(p for (p, l) in n.pred)
    return True


# ------------------------------------------------------------------------------------------------ LOCK
class SaveModel:
    """The save / restore structure of a rule that rewrites line-table cells for a range of lines (blockquote):
    which local lists receive saved cells, of which tables, and where (save events)."""

    def __init__(self, c: Ctx, f: Func, st: str) -> None:
        self.c, self.f, self.st = c, f, st
        self.lists: dict[str, list[list[str]]] = {}        # list name -> table layouts seen ([T] for a scalar list, [T1..Tn] for tuples)
        self.events: list[tuple[ast.AST, str, list[str], str, Func]] = []   # (stmt, list, tables, line index text, function)
        self.helper_groups: dict[Func, dict[str, list[str]]] = {}          # helper -> {list param -> tables} it appends exactly once
        self._scan(f, {})

    def _tables_of(self, g: Func, e: ast.AST, stn: str) -> tuple[list[str], str] | None:
        """If e reads table cells of one line - state.T[line], a tuple of such, or a helper returning such a tuple -
        return ([tables], line index text)."""
        if isinstance(e, ast.Subscript) and isinstance(e.value, ast.Attribute) and U(e.value.value) == stn and e.value.attr in TABLES:
            return [e.value.attr], U(e.slice)
        if isinstance(e, ast.Tuple) and e.elts:
            parts = [self._tables_of(g, x, stn) for x in e.elts]
            if all(p is not None for p in parts) and len({p[1] for p in parts}) == 1:      # type: ignore[index]
                return [p[0][0] for p in parts], parts[0][1]                                 # type: ignore[index]
            return None
        if isinstance(e, ast.Call):
            cs = self.c.cg.site_of.get(e)
            if cs is not None and len(cs.callees) == 1 and cs.kind in ("direct", "method"):
                h = cs.callees[0]
                rets = [n for n in own_nodes(h.node) if isinstance(n, ast.Return) and n.value is not None]
                hst = next((a.arg for a in h.node.args.args if self.c.tf.scope(h).env.get(a.arg) == "StateBlock"), None)
                if len(rets) == 1 and hst:
                    inner = self._tables_of(h, rets[0].value, hst)
                    if inner is not None:
                        # translate the helper's line parameter to the actual
                        params = [a.arg for a in h.node.args.args]
                        if inner[1] in params:
                            a = self.c.eff.arg_for_param(cs, h, inner[1])
                            return inner[0], U(a) if a is not None else inner[1]
                        return inner
        return None

    def _scan(self, g: Func, alias: dict[str, str]) -> None:
        """Collect save events of g; `alias` maps g's parameter names to the caller's list names."""
        stn = next((a.arg for a in g.node.args.args if self.c.tf.scope(g).env.get(a.arg) == "StateBlock"), self.st)
        for n in own_nodes(g.node):
            lst = None
            val = None
            if isinstance(n, ast.Assign) and len(n.targets) == 1 and isinstance(n.targets[0], ast.Name) and isinstance(n.value, ast.List):
                if len(n.value.elts) == 1:
                    lst, val = n.targets[0].id, n.value.elts[0]
                elif len(n.value.elts) == 0:
                    continue
            elif isinstance(n, ast.Expr) and isinstance(n.value, ast.Call) and isinstance(n.value.func, ast.Attribute) \
                    and n.value.func.attr == "append" and isinstance(n.value.func.value, ast.Name) and n.value.args:
                lst, val = n.value.func.value.id, n.value.args[0]
            if lst is None or val is None:
                continue
            tv = self._tables_of(g, val, stn)
            if tv is None:
                continue
            name = alias.get(lst, lst) if g is not self.f else lst
            self.lists.setdefault(name, [])
            if tv[0] not in self.lists[name]:
                self.lists[name].append(tv[0])
            self.events.append((n, name, tv[0], tv[1], g))
        if g is self.f:
            # helpers that receive local lists and append to them
            for cs in self.c.cg.sites.get(g, []):
                if len(cs.callees) != 1 or cs.kind != "direct":
                    continue
                h = cs.callees[0]
                if h.module is not g.module or h in self.helper_groups:
                    continue
                params = [a.arg for a in h.node.args.args]
                amap = {}
                for pn in params:
                    a = self.c.eff.arg_for_param(cs, h, pn)
                    if isinstance(a, ast.Name) and self.c.tf.scope(g).is_local(a.id):
                        amap[pn] = a.id
                if not amap:
                    continue
                before = len(self.events)
                self._scan(h, amap)
                evs = self.events[before:]
                if evs:
                    self.helper_groups[h] = {e[1]: e[2] for e in evs}


def rule_lock(c: Ctx) -> RuleResult:
    r = RuleResult("LOCK", "blockquote saves the line-table cells of every line it rewrites (in lockstep, one group per scanned line) and "
                           "its restore loop writes each table back from the component that saved it")
    c = c.normalised("rules_block/")
    r.notes += c.norm_notes()
    f = c.p.func("rules_block/blockquote.py:blockquote")
    st = f.node.args.args[0].arg
    r.functions = 1
    m = SaveModel(c, f, st)
    if not m.lists:
        raise AnchorError("blockquote: no local list receives saved line-table cells (state.T[line]) - the save / restore structure was not recognised")
    want_tables = sorted({t for lays in m.lists.values() for lay in lays for t in lay})
    parallel = len(m.lists) > 1
    # ---- lockstep of save groups, per statement block (in blockquote and in the helpers that append)
    ngroups = 0
    funcs = [f] + list(m.helper_groups)
    for g in funcs:
        for blk in _blocks(g.node):
            evs = [e for e in m.events if e[4] is g and any(e[0] is s_ for s_ in blk)]
            if not evs:
                continue
            first = evs[0][0]
            tabs = sorted(t for e in evs for t in e[2])
            idx = {e[3] for e in evs}
            names = sorted(e[1] for e in evs)
            key = f"group|{g.short}|{ngroups}"
            txt = "; ".join(U(e[0]) for e in evs)[:140]
            if tabs != want_tables:
                miss = sorted(set(want_tables) - set(tabs))
                dup = sorted({t for t in tabs if tabs.count(t) > 1})
                r.add(key, c.where(g, first), g.short, txt, "violation",
                      f"the save group in this block does not cover each rewritten table exactly once: missing {miss} duplicated {dup} - index i "
                      f"of one save list no longer denotes line startLine + i of the others (wrong line restored, or IndexError)")
            elif len(idx) != 1:
                r.add(key, c.where(g, first), g.short, txt, "violation", f"the group saves different lines {sorted(idx)}")
            elif parallel and len(set(names)) != len(names):
                r.add(key, c.where(g, first), g.short, txt, "violation", f"a save list is appended twice in one group: {names}")
            else:
                ngroups += 1
                r.add(key, c.where(g, first), g.short, txt, "discharged", f"tables {want_tables} of line {sorted(idx)[0]} are saved together")
    # a list must always save the same table (layout)
    for name, lays in sorted(m.lists.items()):
        if len(lays) != 1:
            r.add(f"layout|{name}", c.where(f, f.node), f.short, name, "violation", f"save list `{name}` receives cells of different tables: {lays}")
    # ---- exactly one group per scanned line: along every path through the scan loop that continues with the next line
    one = sorted(m.lists)[0]
    cfg = c.cfg(f)

    def group_count(n: Node) -> int:
        """Number of save groups executed at this CFG node (a direct event on the first list, or a call of a helper that
        appends to it)."""
        if n.kind != "stmt" or n.ast is None:
            return 0
        k = 0
        for e in m.events:
            if e[4] is f and e[0] is n.ast and e[1] == one:
                k += 1
        for call in ast.walk(n.ast):
            if isinstance(call, ast.Call):
                cs = c.cg.site_of.get(call)
                if cs is not None and len(cs.callees) == 1 and cs.callees[0] in m.helper_groups and one in m.helper_groups[cs.callees[0]]:
                    k += 1
        return k
    loops = [n for n in own_nodes(f.node) if isinstance(n, (ast.While, ast.For)) and any(group_count(x) for x in cfg.nodes if x.ast is not None and any(y is x.ast for y in ast.walk(n)))]
    # outermost such loop only
    loops = [l for l in loops if not any(l is not o and any(y is l for y in ast.walk(o)) for o in loops)]
    for loop in loops:
        head = next((n for n in cfg.nodes if n.kind in ("join", "for") and n.ast is loop), None)
        if head is None:
            continue
        inside = {id(x) for b in loop.body for x in ast.walk(b)} | ({id(x) for x in ast.walk(loop.test)} if isinstance(loop, ast.While) else set())
        backs: set[int] = set()
        seen: set[tuple[int, int]] = set()
        work = [(m_, 0) for (m_, l) in head.succ if l != "exc" and (l in ("iter", "") or True)]
        while work:
            n, cnt = work.pop()
            if n is head:
                backs.add(cnt)
                continue
            if n.ast is not None and id(n.ast) not in inside:
                continue
            if (n.id, cnt) in seen:
                continue
            seen.add((n.id, cnt))
            cnt2 = min(cnt + group_count(n), 3)
            for (x, l) in n.succ:
                if l != "exc":
                    work.append((x, cnt2))
        ok = backs == {1}
        r.add("one-group-per-line", c.where(f, loop), f.short, U(loop).split("\n")[0][:70], "discharged" if ok else "violation",
              "every path through the scan loop that continues with the next line saves exactly one group" if ok else
              f"a path through the scan loop saves {sorted(backs)} groups before moving to the next line: entry i of the save structure no "
              f"longer corresponds to line startLine + i")
    # helpers must append each list exactly once on every path
    for h, grp in m.helper_groups.items():
        hcfg = c.cfg(h)
        counts: set[int] = set()
        seen2: set[tuple[int, int]] = set()
        work2 = [(hcfg.entry, 0)]
        target_list = next(iter(grp))
        inv = {v: k for k, v in {}.items()}
        while work2:
            n, cnt = work2.pop()
            if n is hcfg.exit:
                counts.add(cnt)
                continue
            if (n.id, cnt) in seen2:
                continue
            seen2.add((n.id, cnt))
            k = 0
            if n.kind == "stmt":
                for e in m.events:
                    if e[4] is h and e[0] is n.ast and e[1] == sorted(m.lists)[0]:
                        k += 1
            for (x, l) in n.succ:
                if l != "exc":
                    work2.append((x, min(cnt + k, 3)))
        ok = counts == {1}
        r.add(f"helper-group|{h.short}", c.where(h, h.node), h.short, f"def {h.name}", "discharged" if ok else "violation",
              "appends exactly one save group on every path" if ok else f"appends {sorted(counts)} save groups depending on the path")
    # ---- restore loop
    rl = _restore_loops(f, st)
    if not rl:
        r.add("restore-loop", c.where(f, f.node), f.short, "restore loop", "violation", "no loop restores the line tables from the saved cells")
    for loop in rl:
        restored, idxs, bad = _restore_sources(m, loop, st)
        missing = sorted(set(want_tables) - set(restored))
        ok = not bad and not missing and len(idxs) == 1
        r.add("restore-loop", c.where(f, loop), f.short, f"for {U(loop.target)} in {U(loop.iter)}: ..."[:90], "discharged" if ok else "violation",
              f"each of {sorted(restored)} is written back from the component that saved it, at one common index" if ok else
              (bad[0] if bad else f"tables {missing} are saved but not restored" if missing else f"tables restored at different indices {sorted(idxs)}"))
    r.floor = 5
    return r


def _restore_sources(m: SaveModel, loop: ast.For, st: str) -> tuple[dict[str, str], set[str], list[str]]:
    """For the restore loop: table -> where its value comes from; the set of index texts; mismatches."""
    # bind the loop target components to (list, position)
    comp: dict[str, tuple[str, int | None]] = {}

    def bind(target: ast.AST, src: ast.AST) -> None:
        """target is bound to elements of src."""
        if isinstance(src, ast.Call) and U(src.func) == "enumerate" and src.args:
            if isinstance(target, ast.Tuple) and len(target.elts) == 2:
                bind(target.elts[1], src.args[0])
            return
        if isinstance(src, ast.Call) and U(src.func) == "zip":
            if isinstance(target, ast.Tuple) and len(target.elts) == len(src.args):
                for t_, a_ in zip(target.elts, src.args):
                    bind(t_, a_)
            return
        if isinstance(src, ast.Name) and src.id in m.lists:
            lay = m.lists[src.id][0]
            if isinstance(target, ast.Name):
                comp[target.id] = (src.id, None if len(lay) == 1 else -1)
            elif isinstance(target, ast.Tuple) and len(target.elts) == len(lay):
                for k, t_ in enumerate(target.elts):
                    if isinstance(t_, ast.Name):
                        comp[t_.id] = (src.id, k)
    bind(loop.target, loop.iter)
    restored: dict[str, str] = {}
    idxs: set[str] = set()
    bad: list[str] = []
    for s_ in loop.body:
        if isinstance(s_, ast.Assign) and len(s_.targets) == 1 and isinstance(s_.targets[0], ast.Subscript):
            b = s_.targets[0].value
            if isinstance(b, ast.Attribute) and U(b.value) == st and b.attr in TABLES:
                idxs.add(U(s_.targets[0].slice))
                v = s_.value
                src_tab = None
                if isinstance(v, ast.Subscript) and isinstance(v.value, ast.Name) and v.value.id in m.lists:
                    lay = m.lists[v.value.id][0]
                    src_tab = lay[0] if len(lay) == 1 else None
                    restored[b.attr] = U(v)
                elif isinstance(v, ast.Name) and v.id in comp:
                    lst, k = comp[v.id]
                    lay = m.lists[lst][0]
                    src_tab = lay[0] if k is None else (lay[k] if k >= 0 else None)
                    restored[b.attr] = f"{lst}[{'' if k is None else k}]"
                elif isinstance(v, ast.Subscript) and isinstance(v.value, ast.Name) and v.value.id in comp and isinstance(v.slice, ast.Constant):
                    lst, _ = comp[v.value.id]
                    lay = m.lists[lst][0]
                    src_tab = lay[v.slice.value] if isinstance(v.slice.value, int) and v.slice.value < len(lay) else None
                    restored[b.attr] = U(v)
                else:
                    restored[b.attr] = U(v)
                if src_tab != b.attr:
                    bad.append(f"table {b.attr} is restored from `{U(v)}`, which holds saved {src_tab or 'something else'}")
    return restored, idxs, bad


def _idx(s: ast.stmt) -> ast.AST:
    if isinstance(s, ast.Assign):
        return s.value.elts[0].slice          # type: ignore[attr-defined]
    return s.value.args[0].slice              # type: ignore[attr-defined]
