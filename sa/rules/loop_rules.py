"""C01 / C20 - rule LOOPVAR: every `while` loop of the parse / render phase has a variant.

Clause decided (a necessary condition of "never hangs"): for every `while` loop reachable from the API, there is an integer
term v (a local or an attribute path) that
  * is examined by an exit of the loop - the loop condition, the test of an `if` that leaves the loop, or a subscript whose
    IndexError / ValueError leaves it - against something the loop does not store, and
  * is strictly increased (or strictly decreased) on *every* cyclic path, i.e. at every back edge (end of body, `continue`)
    the zone facts entail v >= v_at_iteration_start + 1 (resp. <= - 1), where v_at_iteration_start is a ghost term snapshotted on
    the edge that enters the iteration;
or the loop is `while <list>:` and every cyclic path pops the list and none pushes to it.

Loops whose progress is another function's contract - the two dispatch loops, and loops that advance through skipToken / a nested
tokenize - are exempt with that reason: strictness of the advance of a matching rule is a value-level property (rule PROG
decides that a match *writes* the cursor, and the fallback path is checked here like any other path).  One loop decrements by a
data field (`opener.jump + 1`), exempt with its reason.

A forgotten increment on a `continue` path, an increment of the wrong variable, `pos += 0`-style slips and a weakened exit test
make the loop lose its variant and are reported with the loop, the candidate terms and the back edge that does not progress.
"""
from __future__ import annotations

import ast

from ..cfg import CFG, Node
from ..core import Func, U, own_nodes
from ..ctx import Ctx
from ..dataflow import solve
from ..facts import Facts, FactsProblem, T, _pred_ok, assume, lin, stable
from ..report import RuleResult, alpha

EXEMPT_JUMP = ("the opener index is decreased by `jumps[openerIdx] + 1`; a jump is a count of skipped delimiters (0, or a difference of "
               "two indices with the larger first plus an earlier jump), so the decrement is at least 1 - a data invariant of the jump table")
EXEMPT_QUOTES = ("the bound moves with the text (a replaced quote may be longer or shorter than one character, and pos is corrected by "
                 "len(quote) - 1): the variant is the number of unreplaced quote characters to the right of pos - each iteration consumes "
                 "the one the search found (pos = match start + 1) or leaves through `break` when none is found; a count over runtime text")


def _inside(loop: ast.AST) -> set[int]:
    return {id(x) for x in ast.walk(loop)}


def _exit_tests(loop: ast.While) -> list[ast.AST]:
    """Tests that can leave the loop: the condition, and the tests of ifs whose arm ends in break / return / raise."""
    out = [loop.test]
    for n in ast.walk(loop):
        if isinstance(n, ast.If) and n is not loop:
            for arm in (n.body, n.orelse):
                if arm and isinstance(arm[-1], (ast.Break, ast.Return, ast.Raise)):
                    out.append(n.test)
        elif isinstance(n, ast.While) and n is not loop:
            pass
    return out


def _atoms(e: ast.AST):
    if isinstance(e, ast.BoolOp):
        for v in e.values:
            yield from _atoms(v)
    elif isinstance(e, ast.UnaryOp) and isinstance(e.op, ast.Not):
        yield from _atoms(e.operand)
    else:
        yield e


def _candidates(f: Func, loop: ast.While) -> list[tuple[str, str]]:
    """(term, why it is bounded)"""
    stored = {U(t) for n in ast.walk(loop) for t in _targets(n)}
    out: list[tuple[str, str]] = []

    def add(term: str | None, why: str) -> None:
        if term and term not in [t for (t, _) in out]:
            out.append((term, why))
    for t in _exit_tests(loop):
        for a in _atoms(t):
            if isinstance(a, ast.Compare):
                sides = [a.left] + list(a.comparators)
                for i, s in enumerate(sides):
                    l = lin(s)
                    if l is None or l[0] is None:
                        continue
                    others = [x for j, x in enumerate(sides) if j != i]
                    # the other side must not be stored in the loop (a moving bound proves nothing)
                    ok = True
                    for o in others:
                        lo = lin(o)
                        names = {U(x) for x in ast.walk(o) if isinstance(x, (ast.Name, ast.Attribute))}
                        if names & stored and not (lo is not None and lo[0] is None):
                            ok = False
                    if ok and l[0] in stored:
                        add(l[0], f"compared in the exit test `{U(a)[:60]}`")
    # a subscript index inside try/except IndexError (or anywhere: a negative / too large index raises and leaves)
    for n in ast.walk(loop):
        if isinstance(n, ast.Subscript) and not isinstance(n.slice, ast.Slice):
            l = lin(n.slice)
            if l is not None and l[0] is not None and l[0] in stored:
                add(l[0], f"used as the index of `{U(n)[:50]}` (running off the sequence raises and leaves the loop)")
        if isinstance(n, ast.Call) and isinstance(n.func, ast.Attribute) and n.func.attr in ("index", "find") and len(n.args) >= 2:
            l = lin(n.args[1])
            if l is not None and l[0] is not None and l[0] in stored:
                add(l[0], f"start of the search `{U(n)[:50]}` (not found: ValueError / the -1 test leaves the loop)")
    return out


def _targets(n: ast.AST) -> list[ast.AST]:
    if isinstance(n, ast.Assign):
        out = []
        for t in n.targets:
            out += list(t.elts) if isinstance(t, (ast.Tuple, ast.List)) else [t]
        return out
    if isinstance(n, (ast.AugAssign, ast.AnnAssign)):
        return [n.target]
    if isinstance(n, ast.NamedExpr):
        return [n.target]
    if isinstance(n, ast.For):
        return [n.target]
    return []


_LOWER_CACHE: dict = {}


def _helper_lower(c: Ctx, h: Func) -> dict[str, int]:
    """param -> k such that every value the helper returns is >= param + k (a scanner that only moves forward returns a position
    at or after the one it was given).  Derived: the helper is analysed with a ghost copy of each integer parameter."""
    if h in _LOWER_CACHE:
        return _LOWER_CACHE[h]
    _LOWER_CACHE[h] = {}
    params = [a.arg for a in h.node.args.posonlyargs + h.node.args.args]
    entry = Facts()
    for pn in params:
        entry.add_eq(f"ghostp_{pn}", pn, 0)
    cfg = c.cfg(h)
    res = solve(cfg, FactsProblem(cfg, entry, c.eff.call_kills(h), c.bool_summary))
    rets = [n for n in cfg.nodes if n.kind == "stmt" and isinstance(n.ast, ast.Return) and res.get(n.id) is not None]
    out: dict[str, int] = {}
    if rets and all(n.ast.value is not None for n in rets) and not any(
            not (p.kind == "stmt" and isinstance(p.ast, (ast.Return, ast.Raise))) for (p, l_) in cfg.exit.pred if res.get(p.id) is not None and l_ != "exc"):
        for pn in params:
            ks = []
            for n in rets:
                l = lin(n.ast.value)
                if l is None:
                    ks = None
                    break
                z = res[n.id]
                z.close()
                k = 0 if T(l[0]) == f"ghostp_{pn}" else z.d.get((f"ghostp_{pn}", T(l[0])))
                if k is None:
                    ks = None
                    break
                ks.append(-k + l[1])          # ret = term + off >= ghost - k + off
            if ks:
                out[pn] = min(ks)
    _LOWER_CACHE[h] = out
    return out


class _GhostProblem(FactsProblem):
    def __init__(self, cfg: CFG, kills, ghosts: dict[int, list[tuple[str, str]]], c: Ctx | None = None) -> None:
        super().__init__(cfg, None, kills, None, None, self._rb)
        self.ghosts = ghosts          # id(join node) -> [(ghost term, variant term)]
        self.c = c

    @staticmethod
    def _rb(call: ast.Call, z: Facts):
        return ()

    def edge(self, n: Node, state: Facts, label: str, succ: Node):
        z = super().edge(n, state, label, succ)
        if z is not None and n.kind == "join" and n.id in self.ghosts:
            for (g, v) in self.ghosts[n.id]:
                z.kill(g)
                z.add_eq(g, v, 0)
        if z is not None and n.kind == "test" and label in ("T", "F") and n.ast is not None:
            self._find_refine(z, state, n.ast, label == "T", 0)
        return z

    def _find_refine(self, z: Facts, state: Facts, e: ast.AST, truth: bool, depth: int) -> None:
        """x = S.find(sub, lo) ... `x == -1` / `x < 0` failed (or `x != -1` / `x >= 0` held): found, so x >= lo.  The test may be
        negated, a conjunct, or a boolean local whose definition is still valid (`found = x >= 0; if not found:`)."""
        if depth > 4:
            return
        if isinstance(e, ast.UnaryOp) and isinstance(e.op, ast.Not):
            self._find_refine(z, state, e.operand, not truth, depth + 1)
            return
        if isinstance(e, ast.BoolOp):
            if (isinstance(e.op, ast.And) and truth) or (isinstance(e.op, ast.Or) and not truth):
                for v in e.values:
                    self._find_refine(z, state, v, truth, depth + 1)
            return
        if isinstance(e, ast.Name):
            from ..facts import _DEFSEP
            pre = e.id + _DEFSEP
            for (t, pol) in list(state.preds):
                if pol and t.startswith(pre):
                    try:
                        d = ast.parse(t[len(pre):], mode="eval").body
                    except SyntaxError:
                        continue
                    if not (isinstance(d, ast.Name) and d.id == e.id):
                        self._find_refine(z, state, d, truth, depth + 1)
            return
        if isinstance(e, ast.Compare) and len(e.ops) == 1 and isinstance(e.left, ast.Name):
            x, op, rhs = e.left.id, e.ops[0], e.comparators[0]
            from ..syn import const_int
            cv = const_int(rhs)
            found = (cv == -1 and ((isinstance(op, ast.Eq) and not truth) or (isinstance(op, (ast.NotEq, ast.Gt)) and truth))) or \
                    (cv == 0 and ((isinstance(op, ast.Lt) and not truth) or (isinstance(op, ast.GtE) and truth)))
            if found:
                pre = x + " :find: "
                for (t, pol) in list(state.preds):
                    if pol and t.startswith(pre):
                        lo_t, lo_k = t[len(pre):].rsplit("|", 1)
                        z.add(lo_t, x, -int(lo_k))

    def transfer_stmt(self, z: Facts, s: ast.AST) -> None:
        lows: list[tuple[str, int]] = []
        if self.c is not None and isinstance(s, ast.Assign) and len(s.targets) == 1 and isinstance(s.targets[0], ast.Name) and isinstance(s.value, ast.Call):
            cs = self.c.cg.site_of.get(s.value)
            if cs is not None and len(cs.callees) == 1 and cs.kind in ("direct", "method"):
                h = cs.callees[0]
                for pn, k in _helper_lower(self.c, h).items():
                    a = self.c.eff.arg_for_param(cs, h, pn)
                    la = lin(a) if a is not None else None
                    if la is not None and la[0] is not None and la[0] != s.targets[0].id:
                        lows.append((la[0], la[1] + k))
                    elif la is not None and la[0] == s.targets[0].id:
                        # x = h(x + c): the new x is >= old x + c + k: a shift-like lower bound, expressed through every ghost
                        z.close()
                        for (t1, t2), kk in list(z.d.items()):
                            if t2 == la[0] and t1 != la[0]:
                                lows.append((t1, -kk + la[1] + k) if False else (t1, la[1] + k - kk))
        super().transfer_stmt(z, s)
        for (t, k) in lows:
            z.add(t, s.targets[0].id, -k)          # t + k <= x
        # x = S.index(sub, lo[, hi]): found at or after lo (otherwise ValueError)
        if isinstance(s, ast.Assign) and len(s.targets) == 1 and isinstance(s.targets[0], ast.Name) and isinstance(s.value, ast.Call) \
                and isinstance(s.value.func, ast.Attribute) and s.value.func.attr == "index" and len(s.value.args) >= 2:
            lo = lin(s.value.args[1])
            if lo is not None and T(lo[0]) != s.targets[0].id:
                z.add(T(lo[0]), s.targets[0].id, -lo[1])
        if isinstance(s, ast.Assign) and len(s.targets) == 1 and isinstance(s.targets[0], ast.Name) and isinstance(s.value, ast.Call) \
                and isinstance(s.value.func, ast.Attribute) and s.value.func.attr == "find" and len(s.value.args) >= 2:
            lo = lin(s.value.args[1])
            if lo is not None and lo[0] is not None and lo[0] != s.targets[0].id:
                # remembered until x or the start term is written: -1, or a position at or after the start
                z.preds.add((f"{s.targets[0].id} :find: {lo[0]}|{lo[1]}", True))


def _contract_calls(c: Ctx, f: Func, loop: ast.While) -> list[tuple[ast.Call, str]]:
    """Calls in the loop whose progress is another function's contract: a non-validating dispatch of rules, or a call of a
    function that advances the cursor by dispatching (skipToken, tokenize, parseLinkLabel)."""
    disp = {g for g in c.p.all_funcs() if any(cs.kind.startswith("dispatch:") for cs in c.cg.sites.get(g, []))}
    via = set(disp)
    changed = True
    while changed:
        changed = False
        for g in c.p.all_funcs():
            if g not in via and (g.name in ("skipToken", "parseLinkLabel", "tokenize") or (g.module is f.module and g.name.startswith("_"))) and any(
                    h in via for cs in c.cg.sites.get(g, []) for h in cs.callees if cs.kind in ("method", "direct")):
                via.add(g)
                changed = True
    ins = _inside(loop)
    out = []
    for cs in c.cg.sites.get(f, []):
        if id(cs.node) not in ins:
            continue
        if cs.kind.startswith("dispatch:"):
            silent = len(cs.node.args) >= 4 and isinstance(cs.node.args[3], ast.Constant) and cs.node.args[3].value is True
            silent = silent or (len(cs.node.args) == 2 and isinstance(cs.node.args[1], ast.Constant) and cs.node.args[1].value is True)
            if not silent:
                out.append((cs.node, "the body dispatches rules"))
        elif any(h in via for h in cs.callees):
            out.append((cs.node, f"the body advances through {sorted(h.short for h in cs.callees if h in via)[0]}"))
    return out


def rule_loopvar(c: Ctx) -> RuleResult:
    r = RuleResult("LOOPVAR", "every while loop of the parse / render phase has a variant: an integer term examined by an exit of the loop "
                              "that is strictly increased (or decreased) on every cyclic path (zone facts against a ghost snapshot taken at "
                              "the start of the iteration), or a list that every cyclic path pops")
    for f in sorted(c.cg.api_phase(), key=lambda x: x.qual):
        loops = [n for n in own_nodes(f.node) if isinstance(n, ast.While)]
        if not loops:
            continue
        r.functions += 1
        cfg = c.cfg(f)
        heads = {id(n.ast): n for n in cfg.nodes if n.kind == "join" and isinstance(n.ast, ast.While)}
        ghosts: dict[int, list[tuple[str, str]]] = {}
        cands: dict[int, list[tuple[str, str]]] = {}
        for i, loop in enumerate(loops):
            h = heads.get(id(loop))
            if h is None:
                continue
            cs_ = _candidates(f, loop)
            cands[h.id] = cs_
            ghosts[h.id] = [(f"ghost_{i}_{j}", v) for j, (v, _) in enumerate(cs_)]
        prob = _GhostProblem(cfg, c.eff.call_kills(f), ghosts, c)
        res = solve(cfg, prob)
        r.paths += min(cfg.paths_count(), 10**6)
        for i, loop in enumerate(loops):
            h = heads.get(id(loop))
            key = f"{f.short}|while {alpha(f, loop.test)[:60]}|{i}"
            where = c.where(f, loop)
            if h is None or res.get(h.id) is None:
                r.add(key, where, f.short, f"while {U(loop.test)[:60]}", "discharged", "unreachable")
                continue
            ins = _inside(loop)
            back = [(p, lab) for (p, lab) in h.pred if p.ast is not None and id(p.ast) in ins and res.get(p.id) is not None]
            if not back:
                r.add(key, where, f.short, f"while {U(loop.test)[:60]}", "discharged", "no cyclic path: the body always leaves the loop")
                continue
            outs = []
            for (p, lab) in back:
                z = prob.edge(p, res[p.id], lab, h)
                if z is not None:
                    # a cyclic path goes on through the loop test: what the test's success says about the new values belongs to
                    # the path (`m = s.find(x, end)` at the bottom, `while m != -1` at the top: found, so m >= end)
                    if not (isinstance(loop.test, ast.Constant)) and _pred_ok(loop.test):
                        pre_ = z.copy()
                        assume(z, loop.test, True)
                        prob._find_refine(z, pre_, loop.test, True, 0)
                        if any((t, not pol) in z.preds for (t, pol) in z.preds):
                            continue          # the loop test contradicts what the path established (`closed` set, `while not closed`): the path leaves the loop
                    outs.append((p, z))
            how = ""
            for (g, v), (_, why) in zip(ghosts[h.id], cands[h.id]):
                if all(z.entails(g, v, -1) for (_, z) in outs):
                    how = f"variant `{v}` strictly increases on each of the {len(outs)} cyclic paths; {why}"
                    break
                if all(z.entails(v, g, -1) for (_, z) in outs):
                    how = f"variant `{v}` strictly decreases on each of the {len(outs)} cyclic paths; {why}"
                    break
            if not how:
                # while <list>: every cyclic path pops it
                t = loop.test
                if isinstance(t, ast.BoolOp) and isinstance(t.op, ast.And) and isinstance(t.values[0], (ast.Name, ast.Attribute)):
                    t = t.values[0]          # while <list> and <more>: the loop still ends when the list is empty
                if isinstance(t, (ast.Name, ast.Attribute)) and stable(t):
                    L = U(t)
                    pops = [n for n in cfg.nodes if n.ast is not None and id(n.ast) in ins and n.kind == "stmt" and any(
                        isinstance(x, ast.Call) and isinstance(x.func, ast.Attribute) and x.func.attr == "pop" and U(x.func.value) == L
                        for x in ast.walk(n.ast))]
                    pushes = [x for x in ast.walk(loop) if isinstance(x, ast.Call) and isinstance(x.func, ast.Attribute)
                              and x.func.attr in ("append", "extend", "insert") and U(x.func.value) == L]
                    if pops and not pushes:
                        # must-pass-through: with the popping nodes removed no back edge is reachable from the head
                        seen = set()
                        stack = [s for (s, lab) in h.succ]
                        blocked = {n.id for n in pops}
                        reach_back = False
                        while stack:
                            x = stack.pop()
                            if x.id in seen or x.id in blocked or (x.ast is not None and id(x.ast) not in ins and x is not h):
                                continue
                            seen.add(x.id)
                            if x is h:
                                reach_back = True
                                break
                            stack.extend(s for (s, lab) in x.succ if lab != "exc")
                        if not reach_back:
                            how = f"every cyclic path pops `{L}` and nothing in the loop pushes to it"
            if how:
                r.add(key, where, f.short, f"while {U(loop.test)[:60]}", "discharged", how)
                continue
            cc = _contract_calls(c, f, loop)
            why = ""
            if cc:
                # only the cyclic paths that pass through such a call are excused: with the calling nodes removed, no back edge
                # that fails to progress may be reachable from the loop head
                blocked = {n.id for (call, _) in cc for n in cfg.owner(call)}
                # ... or through the `for` over the rule list that contains the dispatch (that some rule matches - the fallback
                # rules paragraph / text stay enabled - is an assumption of the property's "supported configurations")
                for (call, _) in cc:
                    q = f.module.parents.get(call)
                    while q is not None and q is not loop:
                        if isinstance(q, ast.For):
                            blocked |= {n.id for n in cfg.nodes if n.kind == "for" and n.ast is q}
                        # ... or bypass the dispatch through the failing edge of the nesting-cap test that guards it and then act
                        # on a stale match flag: infeasible, the cap test is loop-invariant because every rule is level-neutral
                        # (rule PAIR) and the flag is false until the dispatch has run once
                        if isinstance(q, ast.If) and isinstance(q.test, ast.Compare) and len(q.test.ops) == 1 and any(
                                isinstance(x, ast.Attribute) and x.attr == "level" for x in [q.test.left] + q.test.comparators):
                            blocked |= {n.id for n in cfg.nodes if n.kind == "test" and n.ast is not None and id(n.ast) in {id(y) for y in ast.walk(q.test)}}
                        q = f.module.parents.get(q)
                if f.module.rel == "rules_block/list.py":
                    # (the store may sit in the helper that tokenizes the item: that call is a contract call already)
                    # the item loop steps over an empty item by moving the block cursor itself (state.line + 2, clamped to endLine,
                    # which the next test leaves through); rule LINECAP bounds that store
                    blocked |= {n.id for n in cfg.nodes if n.kind == "stmt" and isinstance(n.ast, ast.Assign) and id(n.ast) in ins
                                and any(isinstance(t, ast.Attribute) and t.attr == "line" for t in n.ast.targets)
                                and any(isinstance(x, ast.Constant) and isinstance(x.value, int) and x.value > 0 for x in ast.walk(n.ast.value))}
                failing = [p for (p, z) in outs if not any(z.entails(g, v, -1) or z.entails(v, g, -1) for (g, v) in ghosts[h.id])]
                seen: set[int] = set()
                stack = [s_ for (s_, lab) in h.succ]
                while stack:
                    x = stack.pop()
                    if x.id in seen or x.id in blocked or x is h or (x.ast is not None and id(x.ast) not in ins):
                        continue
                    seen.add(x.id)
                    stack.extend(s_ for (s_, lab) in x.succ)
                if not any(p.id in seen for p in failing):
                    why = cc[0][1]
            if why:
                # the dispatcher's own fallback: where the match flag is false, the cursor is stepped explicitly
                flags = {U(n.targets[0]) for n in ast.walk(loop) if isinstance(n, ast.Assign) and len(n.targets) == 1
                         and isinstance(n.targets[0], ast.Name) and any(n.value is call for (call, why_) in cc if why_ == "the body dispatches rules")}
                in_for: set[int] = set()
                for (call, _) in cc:
                    q = f.module.parents.get(call)
                    while q is not None and q is not loop:
                        if isinstance(q, ast.For):
                            in_for |= {id(y) for y in ast.walk(q)}
                        q = f.module.parents.get(q)
                for tn in [n for n in cfg.nodes if n.kind == "test" and n.ast is not None and id(n.ast) in ins and id(n.ast) not in in_for
                           and isinstance(n.ast, ast.Name) and n.ast.id in flags]:
                    from ..syn import incr_of as _io, const_int as _ci
                    incs = {n.id for n in cfg.nodes if n.kind == "stmt" and id(n.ast) in ins and isinstance(n.ast, (ast.AugAssign, ast.Assign))
                            and _io(n.ast) is not None and _io(n.ast)[2] and (_ci(_io(n.ast)[1]) or 0) > 0
                            and _io(n.ast)[0] in [v for (v, _) in cands[h.id]]}
                    seen2: set[int] = set()
                    stack2 = [s_ for (s_, lab) in tn.succ if lab == "F"]
                    hit = False
                    while stack2:
                        x = stack2.pop()
                        if x.id in seen2 or x.id in incs:
                            continue
                        if x is h:
                            hit = True
                            break
                        if x.ast is not None and id(x.ast) not in ins:
                            continue
                        seen2.add(x.id)
                        stack2.extend(s_ for (s_, lab) in x.succ if lab != "exc")
                    r.add(key + "|fallback", c.where(f, tn.ast), f.short, f"if not {tn.ast.id}: ...", "violation" if hit else "discharged",
                          "when no rule matched, some path reaches the next iteration without stepping the cursor: the dispatcher hangs on a "
                          "character no rule consumes" if hit else
                          "when no rule matched, every path to the next iteration steps the cursor by a positive constant")
                r.add(key, where, f.short, f"while {U(loop.test)[:60]}", "exempt",
                      f"progress is a contract of the functions it calls ({why}): a rule that reports a match has written the cursor (rule "
                      f"PROG), strictness of that advance is value-level and not decided")
                continue
            from ..syn import incr_of, const_int
            decs = []
            for x in ast.walk(loop):
                io = incr_of(x) if isinstance(x, (ast.AugAssign, ast.Assign)) else None
                if io is not None and not io[2] and isinstance(io[1], ast.BinOp) and isinstance(io[1].op, ast.Add) \
                        and isinstance(io[1].left, (ast.Subscript, ast.Attribute)) and (const_int(io[1].right) or 0) > 0:
                    decs.append(io[0])
            test_names = {U(x) for x in ast.walk(loop.test) if isinstance(x, (ast.Name, ast.Attribute))}
            if f.module.rel == "rules_inline/balance_pairs.py" and decs and all(d in test_names for d in decs) \
                    and len(decs) >= len(outs):
                r.add(key, where, f.short, f"while {U(loop.test)[:60]}", "exempt", EXEMPT_JUMP)
                continue
            moving = [n for n in ast.walk(loop) if isinstance(n, ast.Assign) and isinstance(n.value, ast.Call) and isinstance(n.value.func, ast.Name)
                      and n.value.func.id == "len" and any(isinstance(x, ast.Name) and x.id == U(n.targets[0]) for x in ast.walk(loop.test))]
            if f.module.rel == "rules_core/smartquotes.py" and moving and any(
                    isinstance(x, ast.Call) and isinstance(x.func, ast.Attribute) and x.func.attr == "start" for x in ast.walk(loop)) and any(
                    isinstance(x, ast.Call) and isinstance(x.func, ast.Attribute) and x.func.attr == "search" for x in ast.walk(loop)):
                r.add(key, where, f.short, f"while {U(loop.test)[:60]}", "exempt", EXEMPT_QUOTES)
                continue
            bad = []
            for (p, z) in outs:
                if not any(z.entails(g, v, -1) or z.entails(v, g, -1) for (g, v) in ghosts[h.id]):
                    bad.append(f"line {getattr(p.ast, 'lineno', '?')}")
            r.add(key, where, f.short, f"while {U(loop.test)[:60]}", "violation",
                  f"no variant: none of the terms examined by the loop's exits ({', '.join(v for (v, _) in cands[h.id]) or 'none'}) is "
                  f"strictly increased or decreased on every cyclic path (back edges from {', '.join(bad[:4]) or 'several statements'}); "
                  f"an input that keeps taking such a path makes the parser hang")
    # ---- a function through which loops advance (skipToken) steps the cursor itself when no rule matched
    for f in sorted(c.cg.api_phase(), key=lambda x: x.qual):
        parents = f.module.parents
        for cs in c.cg.sites.get(f, []):
            if not cs.kind.startswith("dispatch:"):
                continue
            q = parents.get(cs.node)
            in_while = False
            dfor = None
            while q is not None and q is not f.node:
                if isinstance(q, ast.While):
                    in_while = True
                if isinstance(q, ast.For) and dfor is None:
                    dfor = q
                q = parents.get(q)
            asg = parents.get(cs.node)
            if in_while or not (isinstance(asg, ast.Assign) and len(asg.targets) == 1 and isinstance(asg.targets[0], ast.Name)):
                continue
            flag = asg.targets[0].id
            cfg = c.cfg(f)
            skip = {id(y) for y in ast.walk(dfor)} if dfor is not None else set()
            for tn in cfg.nodes:
                if tn.kind != "test" or tn.ast is None or id(tn.ast) in skip:
                    continue
                e, falsy = tn.ast, "F"
                while isinstance(e, ast.UnaryOp) and isinstance(e.op, ast.Not):
                    e, falsy = e.operand, ("T" if falsy == "F" else "F")
                if not (isinstance(e, ast.Name) and e.id == flag):
                    continue
                from ..syn import incr_of as _io, const_int as _ci
                incs = {n.id for n in cfg.nodes if n.kind == "stmt" and isinstance(n.ast, (ast.AugAssign, ast.Assign))
                        and _io(n.ast) is not None and _io(n.ast)[2] and (_ci(_io(n.ast)[1]) or 0) > 0 and _io(n.ast)[0].endswith(".pos")}
                seen3: set[int] = set()
                stack3 = [s_ for (s_, lab) in tn.succ if lab == falsy]
                hit = False
                while stack3:
                    x = stack3.pop()
                    if x.id in seen3 or x.id in incs:
                        continue
                    if x is cfg.exit:
                        hit = True
                        break
                    seen3.add(x.id)
                    stack3.extend(s_ for (s_, lab) in x.succ if lab not in ("exc", "raise"))
                r.add(f"{f.short}|fallback|{flag}", c.where(f, tn.ast), f.short, f"if not {flag}: <cursor> += 1", "violation" if hit else "discharged",
                      "when no rule matched, some path returns without stepping the cursor: every loop that advances through this function "
                      "hangs on a character no rule consumes" if hit else
                      "when no rule matched, every path to the return steps the cursor by a positive constant")
    r.floor = 55
    return r
